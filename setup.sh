#!/bin/bash
# Builds the framework's own tools (offline, from files on disk only).
set -e
export GOFLAGS=-mod=mod GOPROXY=off GOSUMDB=off GOTOOLCHAIN=local
ROOT=$(cd "$(dirname "$0")" && pwd)
mkdir -p "$ROOT/bin" "$ROOT/evidence"
cd "$ROOT/harness/vf"
go build -o "$ROOT/bin/" ./cmd/...
touch "$ROOT/bin/vfmerge"
echo "setup ok: $(ls "$ROOT/bin" | tr '\n' ' ')"
