#!/bin/bash
# Entry point of every check:  ./check.sh <Cxx> <quick|thorough>   |   ./check.sh --replay <file>
# Rebuilds what it needs from the repository's current working tree
# (VERIF_REPO, default /repo), runs the property's engines, merges their partial
# evidence into evidence/<id>.json, prints VIOLATION / KNOWN-FINDING lines and
# exits 0 (held) / 1 (violated) / 2 (harness problem, never a verdict).
set -u
export GOFLAGS=-mod=mod GOPROXY=off GOSUMDB=off GOTOOLCHAIN=local
ROOT=$(cd "$(dirname "$0")" && pwd)
REPO=${VERIF_REPO:-/repo}
export VF_ROOT=$ROOT

if [ "${1:-}" = "--replay" ]; then
  f=${2:?replay file}
  prop=$(jq -r .property "$f"); tier=$(jq -r .tier "$f"); seed=$(jq -r .seed "$f")
  echo "replaying $prop $tier seed=$seed (deterministic re-execution of the run that produced $f)"
  VERIF_SEED=$seed exec "$0" "$prop" "$tier"
fi

PROP=${1:?property id}
TIER=${2:-${VERIF_TIER:-quick}}
export VERIF_TIER=$TIER
export VERIF_SEED=${VERIF_SEED:-1}
EVDIR=${VF_EVIDENCE_DIR:-$ROOT/evidence}
mkdir -p "$EVDIR" /var/tmp
rm -f "$EVDIR/replay/$PROP-$TIER-seed$VERIF_SEED-"* 2>/dev/null
S=$(mktemp -d /var/tmp/vf-$PROP-XXXXXX)
cleanup() { [ -n "${KEEP_SCRATCH:-}" ] || rm -rf "$S"; }
trap cleanup EXIT
export VF_SCRATCH=$S
T0=$(date +%s)

say() { echo "[check $PROP $TIER] $*" >&2; }

ensure_tools() {
  if [ ! -x "$ROOT/bin/vfmerge" ] || [ -n "$(find "$ROOT/harness/vf" -newer "$ROOT/bin/vfmerge" -name '*.go' -print -quit 2>/dev/null)" ]; then
    ( cd "$ROOT" && ./setup.sh ) >&2 || { echo "HARNESS-BUILD-FAILED tools"; exit 2; }
  fi
}

# build_inpkg <file>... : race-enabled test binary of package main with the given
# harness files overlaid (common file is always included)
build_inpkg() {
  local ov="$S/overlay.json" first=1
  {
    echo '{"Replace":{'
    for f in common_verif_test.go "$@"; do
      [ $first = 1 ] || echo ','
      first=0
      printf '"%s/zz_vf_%s":"%s/harness/inpkg/%s"' "$REPO" "$f" "$ROOT" "$f"
    done
    echo '}}'
  } > "$ov"
  cp "$REPO/go.mod" "$S/go.mod"
  cat "$REPO/go.sum" "$ROOT/harness/vf/go.sum" 2>/dev/null | sort -u > "$S/go.sum"
  cat >> "$S/go.mod" <<EOF

require vf v0.0.0
require github.com/anishathalye/porcupine v1.3.0
replace vf => $ROOT/harness/vf
EOF
  ( cd "$REPO" && go test -c -race -vet=off -tags verif -overlay "$ov" -modfile "$S/go.mod" -o "$S/inpkg.test" . ) > "$S/build.log" 2>&1 || {
    cat "$S/build.log" >&2; echo "HARNESS-BUILD-FAILED inpkg (see above)"; exit 2; }
}

build_proxy() {
  ( cd "$REPO" && go build -race -o "$S/sipproxy" . ) > "$S/build-proxy.log" 2>&1 || {
    cat "$S/build-proxy.log" >&2; echo "HARNESS-BUILD-FAILED proxy does not build"; exit 2; }
}

PARTS=()
PNAMES=()
PPIDS=()
RC=0
# run_part <name> <cmd...> : starts one engine in the background with its own
# partial evidence file; finish_parts collects the verdicts
run_part() {
  local name=$1; shift
  local part="$S/part-$name.json"
  PARTS+=("$part"); PNAMES+=("$name")
  ( VF_EVIDENCE="$part" "$@" > "$S/out-$name.log" 2>&1; echo $? > "$S/rc-$name" ) &
  PPIDS+=($!)
  [ -z "${VF_SERIAL:-}" ] || wait $!
}

finish_parts() {
  wait "${PPIDS[@]}" 2>/dev/null
  local k name part rc nv
  for k in "${!PNAMES[@]}"; do
    name=${PNAMES[$k]}; part=${PARTS[$k]}; rc=$(cat "$S/rc-$name" 2>/dev/null || echo 99)
    grep -E '^(VIOLATION|KNOWN-FINDING|SUMMARY|INCONCLUSIVE|NOTE)' "$S/out-$name.log"
    # the verdict is what the engine wrote into its evidence, not its exit code
    # (the Go test runner also exits non-zero for race reports, which belong to C09)
    if [ ! -s "$part" ]; then
      tail -n 60 "$S/out-$name.log" >&2
      echo "HARNESS-ERROR engine $name exited $rc without evidence"; RC=2; continue
    fi
    nv=$(jq -r '.violations // 0' "$part" 2>/dev/null || echo 0)
    if [ "$nv" != 0 ]; then
      grep -q '^VIOLATION' "$S/out-$name.log" || echo "VIOLATION property=$PROP replay=$part (engine $name recorded $nv violations)"
      [ $RC -eq 2 ] || RC=1
    fi
  done
}

inpkg_test() { # <name> <TestFunc> [timeout]
  # race reports never change the exit code of a property's own run; they are
  # counted and attributed to C09 (see check_C09)
  run_part "$1" env GORACE="halt_on_error=0 exitcode=0 log_path=$S/race-$1" "$ROOT/tools/ns.sh" timeout -s QUIT "${3:-3000}" "$S/inpkg.test" -test.run "^$2\$" -test.timeout 0 -test.count 1
}


count_races() { cat "$S"/race-* 2>/dev/null | grep -c 'WARNING: DATA RACE'; }

ensure_tools
. "$ROOT/checks.sh"
if ! declare -F "check_$PROP" >/dev/null; then echo "unknown property $PROP"; exit 2; fi
"check_$PROP"
finish_parts

NR=$(count_races)
if [ "$NR" != 0 ]; then
  echo "NOTE race-detector reports during this run: $NR (attributed to C09, see ./check.sh C09)"
  # keep the reports: they are the witness C09 would want to see
  mkdir -p "$EVDIR/replay"
  cat "$S"/race-* 2>/dev/null | head -c 400000 > "$EVDIR/replay/$PROP-$TIER-seed$VERIF_SEED-race-reports.txt"
fi
"$ROOT/bin/vfmerge" "$PROP" "$TIER" "$EVDIR/$PROP.json" $(( $(date +%s) - T0 )) "${PARTS[@]}" || RC=2
exit $RC
