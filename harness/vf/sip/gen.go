package sip

import (
	"fmt"
	"math/rand"
	"strconv"
	"strings"
)

// Gen produces (abstract value, text) pairs from a seeded PRNG.
type Gen struct {
	R *rand.Rand
	// Rates (per mille) of inputs that trigger recorded known findings.
	IPv6Rate, UserSemiRate, CommaUserRate int
	// MixedCaseHosts lets Hostname() produce upper-case letters.
	MixedCaseHosts bool
}

// NewGen returns a generator seeded with seed.
func NewGen(seed int64) *Gen {
	return &Gen{R: rand.New(rand.NewSource(seed)), IPv6Rate: 15, UserSemiRate: 15, CommaUserRate: 10}
}

const (
	alnum      = "abcdefghijklmnopqrstuvwxyzABCDEFGHIJKLMNOPQRSTUVWXYZ0123456789"
	tokenExtra = "-.!%*_+`'~"
	// param-unreserved and mark characters legal in a URI parameter value
	paramExtra = "-_.!~*'()[]/:&+$"
	userExtra  = "-_.!~*'()&=+$/"
	passExtra  = "-_.!~*'()&=+$"
)

func (g *Gen) chance(permille int) bool { return g.R.Intn(1000) < permille }

func (g *Gen) pickStr(s ...string) string { return s[g.R.Intn(len(s))] }

func (g *Gen) chars(set string, min, max int) string {
	n := min
	if max > min {
		n += g.R.Intn(max - min + 1)
	}
	b := make([]byte, n)
	for i := range b {
		b[i] = set[g.R.Intn(len(set))]
	}
	return string(b)
}

// Token returns an RFC 3261 token.
func (g *Gen) Token(min, max int) string {
	if g.chance(700) {
		return g.chars(alnum, min, max)
	}
	return g.chars(alnum+tokenExtra, min, max)
}

// Alnum returns letters and digits only.
func (g *Gen) Alnum(min, max int) string { return g.chars(alnum, min, max) }

// escaped sprinkles %XX escapes and raw '%' look-alikes into s.
func (g *Gen) withEscapes(s string) string {
	if !g.chance(150) || len(s) == 0 {
		return s
	}
	esc := g.pickStr("%20", "%3B", "%25", "%40", "%2C", "%7e", "%s", "%d", "%!", "%v")
	// "%s" etc. are not legal escapes but are exactly what a careless
	// Printf-style encoder chokes on; "%!" likewise. Only legal ones are used
	// where the grammar requires legality (callers pass through).
	p := g.R.Intn(len(s) + 1)
	return s[:p] + esc + s[p:]
}

func (g *Gen) legalEscapes(s string) string {
	if !g.chance(150) || len(s) == 0 {
		return s
	}
	esc := g.pickStr("%20", "%3B", "%25", "%40", "%2C", "%7e", "%3b", "%5B")
	p := g.R.Intn(len(s) + 1)
	return s[:p] + esc + s[p:]
}

// IPv4 returns a dotted quad (not necessarily loopback).
func (g *Gen) IPv4() string {
	return fmt.Sprintf("%d.%d.%d.%d", 1+g.R.Intn(223), g.R.Intn(256), g.R.Intn(256), 1+g.R.Intn(254))
}

// Hostname returns a dotted hostname.
func (g *Gen) Hostname() string {
	n := 1 + g.R.Intn(4)
	parts := make([]string, n)
	for i := range parts {
		l := g.chars("abcdefghijklmnopqrstuvwxyz0123456789", 1, 8)
		if len(l) > 2 && g.chance(200) {
			l = l[:1] + "-" + l[1:]
		}
		parts[i] = l
	}
	// the top label must start with a letter
	parts[n-1] = g.chars("abcdefghijklmnopqrstuvwxyz", 1, 1) + parts[n-1]
	h := strings.Join(parts, ".")
	if g.MixedCaseHosts && g.chance(250) {
		// host names are case-insensitive to resolvers but their bytes are the sender's
		b := []byte(h)
		for i, c := range b {
			if c >= 'a' && c <= 'z' && g.R.Intn(3) == 0 {
				b[i] = c - 32
			}
		}
		h = string(b)
	}
	return h
}

// Host returns an IPv4 literal or a hostname.
func (g *Gen) Host() string {
	if g.chance(500) {
		return g.IPv4()
	}
	return g.Hostname()
}

// IPv6Ref returns a bracketed IPv6 reference.
func (g *Gen) IPv6Ref() string {
	return g.pickStr("[::1]", "[2001:db8::1]", "[fe80::a:b]", "[2001:db8:0:1:2:3:4:5]")
}

// URI is the abstract value of a generated URI.
type URI struct {
	Scheme   string // sip sips tel urn
	User     string
	Password string
	Host     string
	Port     string // textual; "" = absent
	Params   []KV
	Headers  []KV
	Opaque   string // tel:/urn: everything after the scheme colon
	Tags     []string
}

// IsSIP reports sip/sips.
func (u URI) IsSIP() bool { return u.Scheme == "sip" || u.Scheme == "sips" }

func (u URI) String() string {
	if !u.IsSIP() {
		return u.Scheme + ":" + u.Opaque
	}
	var b strings.Builder
	b.WriteString(u.Scheme + ":")
	if u.User != "" {
		b.WriteString(u.User)
		if u.Password != "" {
			b.WriteString(":" + u.Password)
		}
		b.WriteString("@")
	}
	b.WriteString(u.Host)
	if u.Port != "" {
		b.WriteString(":" + u.Port)
	}
	for _, p := range u.Params {
		b.WriteString(";" + p.String())
	}
	for i, h := range u.Headers {
		if i == 0 {
			b.WriteString("?")
		} else {
			b.WriteString("&")
		}
		b.WriteString(h.K + "=" + h.V)
	}
	return b.String()
}

// NoParams returns the URI text without parameters and headers.
func (u URI) NoParams() string {
	v := u
	v.Params, v.Headers = nil, nil
	return v.String()
}

// PortOr returns the numeric port or def.
func (u URI) PortOr(def int) int {
	if u.Port == "" {
		return def
	}
	n, _ := strconv.Atoi(u.Port)
	return n
}

// Param returns a URI parameter.
func (u URI) Param(k string) (KV, bool) {
	for _, p := range u.Params {
		if p.K == k {
			return p, true
		}
	}
	return KV{}, false
}

func hasTag(tags []string, t string) bool {
	for _, x := range tags {
		if x == t {
			return true
		}
	}
	return false
}

// URIOpts bounds what GenSIPURI may produce.
type URIOpts struct {
	NoParams   bool // bare addr-spec context: no params, no headers
	MaxParams  int
	MaxHeaders int
	NoFindings bool // never produce known-finding triggers
	NoUser     bool
}

// SIPURI generates a sip:/sips: URI.
func (g *Gen) SIPURI(o URIOpts) (URI, string) {
	var u URI
	var sig []string
	u.Scheme = "sip"
	if g.chance(200) {
		u.Scheme = "sips"
		sig = append(sig, "sips")
	}
	if !o.NoUser && g.chance(700) {
		u.User = g.legalEscapes(g.chars(alnum+userExtra, 1, 12))
		sig = append(sig, "user")
		if !o.NoFindings && g.chance(g.UserSemiRate) {
			p := g.R.Intn(len(u.User) + 1)
			u.User = u.User[:p] + g.pickStr(";", "?") + u.User[p:]
			u.Tags = append(u.Tags, "user-semi")
			sig = append(sig, "user-semi")
		}
		if !o.NoFindings && g.chance(g.CommaUserRate) {
			p := g.R.Intn(len(u.User) + 1)
			u.User = u.User[:p] + "," + u.User[p:]
			u.Tags = append(u.Tags, "user-comma")
			sig = append(sig, "user-comma")
		}
		if g.chance(250) {
			u.Password = g.legalEscapes(g.chars(alnum+passExtra, 1, 8))
			sig = append(sig, "pw")
		}
	}
	if !o.NoFindings && g.chance(g.IPv6Rate) {
		u.Host = g.IPv6Ref()
		u.Tags = append(u.Tags, "ipv6")
		sig = append(sig, "ipv6")
	} else if g.chance(500) {
		u.Host = g.IPv4()
		sig = append(sig, "ip4")
	} else {
		u.Host = g.Hostname()
		sig = append(sig, "name")
	}
	if g.chance(500) {
		u.Port = strconv.Itoa(1 + g.R.Intn(65535))
		sig = append(sig, "port")
	}
	if !o.NoParams {
		np := 0
		if o.MaxParams > 0 && g.chance(700) {
			np = g.R.Intn(o.MaxParams + 1)
		}
		kinds := ""
		for i := 0; i < np; i++ {
			switch g.R.Intn(5) {
			case 0:
				u.Params = append(u.Params, KV{K: "lr"})
				kinds += "l"
			case 1:
				u.Params = append(u.Params, KV{K: g.uniqueName(u.Params)})
				kinds += "n"
			case 2:
				u.Params = append(u.Params, KV{K: "transport", V: g.pickStr("udp", "tcp", "tls", "sctp", "UDP", "TCP"), HasVal: true})
				kinds += "t"
			default:
				u.Params = append(u.Params, KV{K: g.uniqueName(u.Params), V: g.legalEscapes(g.chars(alnum+paramExtra, 1, 10)), HasVal: true})
				kinds += "v"
			}
		}
		// at most one lr / transport
		u.Params = dedupKeys(u.Params)
		if np > 0 {
			sig = append(sig, "p:"+canonKinds(kinds))
		}
		nh := 0
		if o.MaxHeaders > 0 && g.chance(300) {
			nh = 1 + g.R.Intn(o.MaxHeaders)
		}
		for i := 0; i < nh; i++ {
			u.Headers = append(u.Headers, KV{K: g.Alnum(1, 8), V: g.legalEscapes(g.chars(alnum+"-_.!~*'()[]/:+$", 0, 10)), HasVal: true})
		}
		if nh > 0 {
			sig = append(sig, "h"+strconv.Itoa(nh))
		}
	}
	return u, strings.Join(sig, ",")
}

func canonKinds(k string) string {
	// order-insensitive summary plus whether lr is first/last
	var l, n, t, v int
	for _, c := range k {
		switch c {
		case 'l':
			l++
		case 'n':
			n++
		case 't':
			t++
		case 'v':
			v++
		}
	}
	pos := ""
	if l > 0 {
		switch {
		case k[0] == 'l':
			pos = "F"
		case k[len(k)-1] == 'l':
			pos = "L"
		default:
			pos = "M"
		}
	}
	return fmt.Sprintf("l%d%sn%dt%dv%d", min1(l), pos, min1(n), min1(t), min2(v))
}

func min1(x int) int {
	if x > 1 {
		return 1
	}
	return x
}
func min2(x int) int {
	if x > 2 {
		return 2
	}
	return x
}

func dedupKeys(p []KV) []KV {
	seen := map[string]bool{}
	var r []KV
	for _, kv := range p {
		if seen[kv.K] {
			continue
		}
		seen[kv.K] = true
		r = append(r, kv)
	}
	return r
}

func (g *Gen) uniqueName(have []KV) string {
	for {
		n := g.Token(1, 8)
		// keep clear of names the proxy interprets
		switch strings.ToLower(n) {
		case "lr", "transport", "tag", "branch", "received", "rport", "ttl", "maddr":
			continue
		}
		dup := false
		for _, h := range have {
			if h.K == n {
				dup = true
			}
		}
		if !dup {
			return n
		}
	}
}

// TelURI generates a tel: URI (params are part of the opaque text).
func (g *Gen) TelURI(withParams bool) (URI, string) {
	u := URI{Scheme: "tel"}
	u.Opaque = g.pickStr("+", "") + g.chars("0123456789", 3, 12)
	sig := "tel"
	if g.chance(300) {
		u.Opaque = g.chars("0123456789", 1, 3) + "-" + g.chars("0123456789", 2, 6)
		sig += ",dash"
	}
	if withParams && g.chance(500) {
		u.Opaque += ";phone-context=" + g.pickStr("example.com", "+1", "a-b.c")
		sig += ",ctx"
		if g.chance(300) {
			u.Opaque += ";ext=" + g.chars("0123456789", 1, 4)
			sig += ",ext"
		}
	}
	return u, sig
}

// UrnURI generates a urn: URI.
func (g *Gen) UrnURI() (URI, string) {
	u := URI{Scheme: "urn"}
	u.Opaque = g.pickStr("service:sos", "service:sos.fire", "service:sos.police", "nena:service:sos", "service:"+g.Alnum(2, 8), "uuid:"+g.chars("0123456789abcdef", 8, 8)+"-"+g.chars("0123456789abcdef", 4, 4))
	if g.chance(100) {
		u.Opaque += "%" + g.pickStr("41", "7e") // escaped octet
		return u, "urn,esc"
	}
	return u, "urn"
}

// AnyURI picks among sip/sips/tel/urn.
func (g *Gen) AnyURI(o URIOpts) (URI, string) {
	switch x := g.R.Intn(10); {
	case x < 7:
		return g.SIPURI(o)
	case x < 9:
		return g.TelURI(!o.NoParams)
	default:
		return g.UrnURI()
	}
}

// NameAddr is the abstract value of a From/To/Route/Record-Route element.
type NameAddr struct {
	Display string // raw text before '<' including its trailing blank, "" if none
	Bracket bool
	URI     URI
	Params  []KV
}

func (n NameAddr) String() string {
	var b strings.Builder
	if n.Bracket {
		b.WriteString(n.Display + "<" + n.URI.String() + ">")
	} else {
		b.WriteString(n.URI.String())
	}
	for _, p := range n.Params {
		b.WriteString(";" + p.String())
	}
	return b.String()
}

// Param returns a header parameter.
func (n NameAddr) Param(k string) (KV, bool) {
	for _, p := range n.Params {
		if p.K == k {
			return p, true
		}
	}
	return KV{}, false
}

// DisplayName generates a token or quoted display name (with trailing SP),
// free of '<' '>' ','.
func (g *Gen) DisplayName() (string, string) {
	switch g.R.Intn(4) {
	case 0:
		return g.Token(1, 10) + " ", "dtok"
	case 1:
		return g.Token(1, 6) + " " + g.Token(1, 6) + " ", "dtok2"
	case 2:
		inner := g.chars(alnum+" ;:@%.=?!/()'", 0, 14)
		if g.chance(300) {
			inner += g.pickStr("%s", "%d", "100%", "\\\"", "\u00e9", "\u540d")
		}
		return "\"" + inner + "\" ", "dquo"
	default:
		return "\"" + g.Alnum(1, 8) + "\"", "dquo-nosp"
	}
}

// HeaderParams generates 0..max generic-params, optionally led by a tag.
func (g *Gen) HeaderParams(max int, tag string) ([]KV, string) {
	var ps []KV
	n := 0
	if max > 0 && g.chance(600) {
		n = g.R.Intn(max + 1)
	}
	tagAt := -1
	if tag != "" {
		tagAt = 0
		if n > 0 && g.chance(400) {
			tagAt = g.R.Intn(n + 1)
		}
	}
	kinds := ""
	for i := 0; i <= n; i++ {
		if i == tagAt {
			ps = append(ps, KV{K: "tag", V: tag, HasVal: true})
		}
		if i == n {
			break
		}
		switch g.R.Intn(4) {
		case 0:
			ps = append(ps, KV{K: g.uniqueName(ps)})
			kinds += "n"
		case 1:
			ps = append(ps, KV{K: g.uniqueName(ps), V: "\"" + g.chars(alnum+" :@%.=?!/", 0, 8) + "\"", HasVal: true})
			kinds += "q"
		default:
			ps = append(ps, KV{K: g.uniqueName(ps), V: g.withEscapes(g.Token(1, 10)), HasVal: true})
			kinds += "v"
		}
	}
	sig := ""
	if n > 0 {
		sig = fmt.Sprintf("hp%d", min2(n))
		if strings.Contains(kinds, "n") {
			sig += "n"
		}
		if strings.Contains(kinds, "q") {
			sig += "q"
		}
		if tagAt > 0 {
			sig += "T"
		}
	}
	return ps, sig
}

// Tag generates a tag token.
func (g *Gen) Tag() string {
	t := g.Alnum(1, 12)
	if g.chance(200) {
		t = t + "-" + g.Alnum(1, 4)
	}
	if g.chance(50) {
		t += g.pickStr("%", "%s", ".", "~")
	}
	return t
}

// NAOpts bounds GenNameAddr.
type NAOpts struct {
	AllowBare  bool   // bare addr-spec form permitted (From/To)
	ForceSIP   bool   // Route/Record-Route: sip URIs only
	Tag        string // "" = no tag
	MaxHParams int
	NoFindings bool
}

// GenNameAddr generates a From/To value or one Route/Record-Route entry.
func (g *Gen) GenNameAddr(o NAOpts) (NameAddr, string) {
	var na NameAddr
	var sig []string
	bare := o.AllowBare && g.chance(250)
	uo := URIOpts{MaxParams: 6, MaxHeaders: 3, NoFindings: o.NoFindings}
	if bare {
		uo.NoParams = true
		sig = append(sig, "bare")
	} else {
		na.Bracket = true
		if g.chance(500) {
			var ds string
			na.Display, ds = g.DisplayName()
			sig = append(sig, ds)
		}
	}
	var us string
	if o.ForceSIP {
		na.URI, us = g.SIPURI(uo)
	} else {
		na.URI, us = g.AnyURI(uo)
	}
	if bare && !na.URI.IsSIP() {
		// a bare tel: URI keeps its own parameters out (they would read as header params)
		if i := strings.IndexByte(na.URI.Opaque, ';'); i >= 0 {
			na.URI.Opaque = na.URI.Opaque[:i]
		}
	}
	if bare {
		// in the bare form ',' ';' '?' must not occur in the URI at all
		na.URI.User = strings.NewReplacer(",", ".", ";", ".", "?", ".").Replace(na.URI.User)
		na.URI.Password = strings.ReplaceAll(na.URI.Password, ",", ".")
		var keep []string
		for _, t := range na.URI.Tags {
			if t == "ipv6" {
				keep = append(keep, t)
			}
		}
		na.URI.Tags = keep
	}
	sig = append(sig, us)
	var ps string
	na.Params, ps = g.HeaderParams(o.MaxHParams, o.Tag)
	if ps != "" {
		sig = append(sig, ps)
	}
	return na, strings.Join(sig, ",")
}

// Via is the abstract value of one via-parm.
type Via struct {
	Proto     string
	Transport string
	Host      string
	Port      string
	Params    []KV
	Tags      []string
}

func (v Via) String() string {
	s := v.Proto + " " + v.Host
	if v.Port != "" {
		s += ":" + v.Port
	}
	for _, p := range v.Params {
		s += ";" + p.String()
	}
	return s
}

// Param returns a via parameter.
func (v Via) Param(k string) (KV, bool) {
	for _, p := range v.Params {
		if p.K == k {
			return p, true
		}
	}
	return KV{}, false
}

// GenVia generates one via-parm from the C14 grammar.
func (g *Gen) GenVia(noFindings bool) (Via, string) {
	var v Via
	var sig []string
	v.Transport = g.pickStr("UDP", "TCP", "TLS", "SCTP", "udp", "tcp", "WS", g.Token(1, 5))
	v.Proto = "SIP/2.0/" + v.Transport
	if g.chance(50) {
		v.Proto = g.Token(1, 4) + "/" + g.pickStr("2.0", "3.0", "1") + "/" + v.Transport
		sig = append(sig, "oddproto")
	}
	sig = append(sig, strings.ToUpper(v.Transport[:1]))
	if !noFindings && g.chance(g.IPv6Rate) {
		v.Host = g.IPv6Ref()
		v.Tags = append(v.Tags, "ipv6")
		sig = append(sig, "ipv6")
	} else {
		v.Host = g.Host()
	}
	if g.chance(500) {
		v.Port = strconv.Itoa(1 + g.R.Intn(65535))
		sig = append(sig, "port")
	}
	n := g.R.Intn(9)
	kinds := map[string]bool{}
	for i := 0; i < n; i++ {
		switch g.R.Intn(8) {
		case 0, 1:
			v.Params = append(v.Params, KV{K: "branch", V: "z9hG4bK" + g.withEscapes(g.Token(1, 16)), HasVal: true})
			kinds["b"] = true
		case 2:
			v.Params = append(v.Params, KV{K: "received", V: g.IPv4(), HasVal: true})
			kinds["r"] = true
		case 3:
			if g.chance(500) {
				v.Params = append(v.Params, KV{K: "rport"})
				kinds["rp0"] = true
			} else {
				v.Params = append(v.Params, KV{K: "rport", V: strconv.Itoa(1 + g.R.Intn(65535)), HasVal: true})
				kinds["rp"] = true
			}
		case 4:
			v.Params = append(v.Params, KV{K: g.uniqueName(v.Params)})
			kinds["n"] = true
		case 5:
			v.Params = append(v.Params, KV{K: "ttl", V: strconv.Itoa(g.R.Intn(256)), HasVal: true})
			kinds["ttl"] = true
		default:
			v.Params = append(v.Params, KV{K: g.uniqueName(v.Params), V: g.withEscapes(g.Token(1, 10)), HasVal: true})
			kinds["v"] = true
		}
	}
	v.Params = dedupKeys(v.Params)
	ks := ""
	for _, k := range []string{"b", "r", "rp0", "rp", "n", "ttl", "v"} {
		if kinds[k] {
			ks += k + "."
		}
	}
	if ks != "" {
		sig = append(sig, ks)
	}
	return v, strings.Join(sig, ",")
}

// JoinList lays out entries into header values: each value is a comma list
// of one or more consecutive entries. layout is reported in the signature.
func (g *Gen) JoinList(entries []string) (values []string, sig string) {
	if len(entries) == 0 {
		return nil, "empty"
	}
	var cur []string
	flush := func() {
		if len(cur) > 0 {
			sep := g.pickStr(",", ", ", " ,", " , ")
			values = append(values, strings.Join(cur, sep))
			cur = nil
		}
	}
	for i, e := range entries {
		cur = append(cur, e)
		if i < len(entries)-1 && g.chance(450) {
			flush()
		}
	}
	flush()
	switch {
	case len(values) == 1 && len(entries) > 1:
		sig = "comma"
	case len(values) == len(entries) && len(entries) > 1:
		sig = "lines"
	case len(entries) == 1:
		sig = "single"
	default:
		sig = "mixed"
	}
	return values, sig
}

// ReservedHeader reports whether n (any case, compact or long) is a header the
// proxy interprets; random extension names must avoid these.
func ReservedHeader(n string) bool {
	switch Canon(n) {
	case "via", "route", "record-route", "from", "to", "call-id", "cseq", "content-length",
		"expires", "subscription-state", "max-forwards":
		return true
	}
	return false
}

// ExtName generates an extension header name that the proxy does not interpret.
func (g *Gen) ExtName() (string, string) {
	for {
		var n, sig string
		switch g.R.Intn(8) {
		case 0:
			n, sig = g.pickStr("a", "b", "c", "e", "k", "m", "o", "r", "s", "u", "x", "z", "K", "M"), "1letter"
		case 1:
			n, sig = g.pickStr("Contact", "Subject", "Content-Type", "Supported", "Event", "Allow", "User-Agent", "Accept", "P-Asserted-Identity", "Authorization"), "wellknown"
		case 2:
			n, sig = g.pickStr("CONTACT", "subject", "cOnTeNt-TyPe", "sUPPORTED", "eVENT"), "oddcase"
		case 3:
			n, sig = g.pickStr("Via-X", "X-Via", "Routes", "Record-Routes", "Route-Record", "Content-Lengths", "Content-Len", "Vias", "ll", "vv", "To-", "From.", "Tos", "X-Content-Length", "Call-IDs", "CSeqs"), "lookalike"
		default:
			n, sig = g.Token(1, 20), "token"
		}
		if !ReservedHeader(n) && !strings.ContainsAny(n, ":") {
			return n, sig
		}
	}
}

// ExtValue generates an extension header value of up to maxLen bytes, never
// starting or ending with SP/HTAB (surrounding blanks are outside C01).
func (g *Gen) ExtValue(maxLen int) (string, string) {
	var v, sig string
	switch g.R.Intn(10) {
	case 0:
		return "", "empty"
	case 1:
		v, sig = g.chars(alnum+" ", 1, 40), "plain"
	case 2:
		v, sig = g.chars(alnum+" %;,\"<>=@:/?&", 1, 80), "punct"
	case 3:
		v, sig = g.pickStr("100%", "%s", "%d%d", "a%", "%!x", "50%off", "%%", "%v %+v", "%[1]d", "%"), "percent"
	case 4:
		v, sig = g.pickStr("caf\u00e9", "\u540d\u524d", "\u00a0edge\u3000", "\u2003x\u2003", "\u0085y", "z\u00a0", "\u200bq", "\ufeffbom", "\u1680o\u1680"), "utf8"
	case 5:
		b := make([]byte, 1+g.R.Intn(30))
		for i := range b {
			b[i] = byte(0x80 + g.R.Intn(0x80))
		}
		v, sig = "x"+string(b)+"y", "non-utf8"
		if g.chance(500) {
			v, sig = string(b), "non-utf8-edge"
		}
	case 6:
		n := 200 + g.R.Intn(3800)
		v, sig = g.chars(alnum+" %;,:/@", n, n), "long<4k"
	case 7:
		n := 4000 + g.R.Intn(maxLen+1)
		if n > maxLen {
			n = maxLen
		}
		if n < 1 {
			n = 1
		}
		v, sig = g.chars(alnum+" %;,=:/@", n, n), "long>4k"
		if n <= 4096 {
			sig = "long<4k"
		}
	case 8:
		v, sig = "\""+g.chars(alnum+" ;,%", 0, 30)+"\";q=0.5, <sip:"+g.Hostname()+";lr>;x", "structured"
	default:
		v, sig = g.chars(alnum, 1, 12), "word"
	}
	if len(v) > maxLen {
		v = v[:maxLen]
	}
	v = strings.Trim(v, " \t")
	// CR / LF / NUL can never be part of a header value
	v = strings.NewReplacer("\r", "", "\n", "").Replace(v)
	return v, sig
}

// Body generates a body of 0..max bytes.
func (g *Gen) Body(max int) ([]byte, string) {
	switch g.R.Intn(8) {
	case 0, 1:
		return nil, "nobody"
	case 2:
		return []byte("v=0\r\no=- 1 1 IN IP4 127.0.0.1\r\ns=-\r\nc=IN IP4 127.0.0.1\r\nt=0 0\r\nm=audio 4000 RTP/AVP 0\r\n"), "sdp"
	case 3:
		n := 1 + g.R.Intn(64)
		b := make([]byte, n)
		g.R.Read(b)
		return b, "bin-small"
	case 4:
		return []byte("INVITE sip:x@y SIP/2.0\r\nVia: SIP/2.0/UDP 1.2.3.4\r\nContent-Length: 5\r\n\r\nhello"), "sip-lookalike"
	case 5:
		return []byte{0, '\r', '\n', '\r', '\n', 0, '\n', '\n'}, "nul-crlf"
	case 6:
		n := max/2 + g.R.Intn(max/2+1)
		b := make([]byte, n)
		g.R.Read(b)
		return b, "bin-large"
	default:
		n := g.R.Intn(2000)
		b := make([]byte, n)
		g.R.Read(b)
		return b, "bin-mid"
	}
}

// Method generates a method token.
func (g *Gen) Method() string {
	if g.chance(850) {
		return g.pickStr("INVITE", "ACK", "BYE", "CANCEL", "OPTIONS", "REGISTER", "INFO", "UPDATE", "PRACK", "MESSAGE", "REFER", "NOTIFY", "SUBSCRIBE", "PUBLISH")
	}
	return strings.ToUpper(g.Alnum(1, 12))
}

// Reason returns a non-empty reason phrase with single blanks.
func (g *Gen) Reason() string {
	return g.pickStr("OK", "Ringing", "Trying", "Not Found", "Busy Here", "Server Internal Error", "Decline", "Moved Temporarily", "Session Progress", "100% sure", "x", "Call/Transaction Does Not Exist")
}
