// Package sip is the harness's own, deliberately dumb SIP reader/writer.
// It shares no code with the proxy under test.
package sip

import (
	"bytes"
	"errors"
	"strconv"
	"strings"
)

// Header is one header line as it appeared on the wire.
type Header struct {
	Name  string // bytes before the first ':' (untrimmed)
	Value string // bytes after it, trimmed of SP and HTAB only
}

// Msg is a message as read from observed bytes.
type Msg struct {
	Start   string
	Headers []Header
	Body    []byte
}

// Read splits b at the first empty line. Lines end in CRLF or LF. The body is
// whatever follows - never cut by Content-Length.
func Read(b []byte) (*Msg, error) {
	m := &Msg{}
	pos := 0
	first := true
	for {
		if pos >= len(b) {
			return nil, errors.New("no end of header section")
		}
		nl := bytes.IndexByte(b[pos:], '\n')
		if nl < 0 {
			return nil, errors.New("no end of header section")
		}
		line := b[pos : pos+nl]
		pos += nl + 1
		if len(line) > 0 && line[len(line)-1] == '\r' {
			line = line[:len(line)-1]
		}
		if len(line) == 0 {
			if first {
				continue // leading blank lines
			}
			break
		}
		if first {
			m.Start = string(line)
			first = false
			continue
		}
		c := bytes.IndexByte(line, ':')
		if c < 0 {
			return nil, errors.New("header line without colon: " + string(line))
		}
		m.Headers = append(m.Headers, Header{Name: string(line[:c]), Value: strings.Trim(string(line[c+1:]), " \t")})
	}
	m.Body = append([]byte{}, b[pos:]...)
	return m, nil
}

// IsRequest reports whether the start line is a request line.
func (m *Msg) IsRequest() bool { return !strings.HasPrefix(m.Start, "SIP/") }

// Status returns the status code of a response, 0 otherwise.
func (m *Msg) Status() int {
	f := strings.Fields(m.Start)
	if len(f) >= 2 && strings.HasPrefix(m.Start, "SIP/") {
		n, _ := strconv.Atoi(f[1])
		return n
	}
	return 0
}

// Method returns the request method, or "" for a response.
func (m *Msg) Method() string {
	if !m.IsRequest() {
		return ""
	}
	f := strings.Fields(m.Start)
	if len(f) > 0 {
		return f[0]
	}
	return ""
}

// RequestURI returns the second field of a request line.
func (m *Msg) RequestURI() string {
	f := strings.Fields(m.Start)
	if m.IsRequest() && len(f) > 1 {
		return f[1]
	}
	return ""
}

var compact = map[string]string{
	"a": "accept-contact", "b": "referred-by", "c": "content-type", "e": "content-encoding",
	"f": "from", "i": "call-id", "k": "supported", "l": "content-length", "m": "contact",
	"o": "event", "r": "refer-to", "s": "subject", "t": "to", "u": "allow-events", "v": "via",
}

// Canon lower-cases a header name and expands its compact form.
func Canon(name string) string {
	n := strings.ToLower(strings.Trim(name, " \t"))
	if c, ok := compact[n]; ok {
		return c
	}
	return n
}

// CompactOf returns the one-letter form of a canonical lower-case name.
func CompactOf(canon string) (string, bool) {
	for k, v := range compact {
		if v == canon {
			return k, true
		}
	}
	return "", false
}

// Is reports whether header name n denotes canonical lower-case name canon.
func Is(n, canon string) bool { return Canon(n) == canon }

// Get returns the values of all headers denoting canon, in order.
func (m *Msg) Get(canon string) []string {
	var r []string
	for _, h := range m.Headers {
		if Is(h.Name, canon) {
			r = append(r, h.Value)
		}
	}
	return r
}

// First returns the first value of canon, or "".
func (m *Msg) First(canon string) (string, bool) {
	for _, h := range m.Headers {
		if Is(h.Name, canon) {
			return h.Value, true
		}
	}
	return "", false
}

// SplitTop splits s at every sep that is outside <...> and "...".
func SplitTop(s string, sep byte) []string {
	var r []string
	depth, quote := 0, false
	start := 0
	for i := 0; i < len(s); i++ {
		c := s[i]
		switch {
		case quote:
			if c == '\\' && i+1 < len(s) {
				i++
			} else if c == '"' {
				quote = false
			}
		case c == '"':
			quote = true
		case c == '<':
			depth++
		case c == '>':
			if depth > 0 {
				depth--
			}
		case c == sep && depth == 0:
			r = append(r, s[start:i])
			start = i + 1
		}
	}
	return append(r, s[start:])
}

// List flattens all values of canon across repeated lines and top-level commas.
func (m *Msg) List(canon string) []string {
	var r []string
	for _, v := range m.Get(canon) {
		for _, e := range SplitTop(v, ',') {
			r = append(r, strings.Trim(e, " \t"))
		}
	}
	return r
}

// KV is a parameter; HasVal distinguishes "k" from "k=v".
type KV struct {
	K, V   string
	HasVal bool
}

func (p KV) String() string {
	if p.HasVal {
		return p.K + "=" + p.V
	}
	return p.K
}

// ViaEntry is one via-parm.
type ViaEntry struct {
	Proto     string // e.g. SIP/2.0/UDP
	Transport string // third component of Proto
	Host      string
	Port      string // textual, "" when absent
	Params    []KV
}

// ParseVia splits one flattened Via entry.
func ParseVia(s string) (ViaEntry, error) {
	var v ViaEntry
	parts := strings.Split(s, ";")
	f := strings.Fields(parts[0])
	if len(f) != 2 {
		return v, errors.New("via: need sent-protocol and sent-by: " + s)
	}
	v.Proto = f[0]
	pp := strings.Split(f[0], "/")
	if len(pp) != 3 {
		return v, errors.New("via: bad sent-protocol: " + s)
	}
	v.Transport = pp[2]
	hp := f[1]
	if c := strings.LastIndexByte(hp, ':'); c >= 0 && !strings.HasSuffix(hp, "]") {
		v.Host, v.Port = hp[:c], hp[c+1:]
	} else {
		v.Host = hp
	}
	for _, p := range parts[1:] {
		v.Params = append(v.Params, ParseKV(p))
	}
	return v, nil
}

// ParseKV splits "k=v" / "k".
func ParseKV(p string) KV {
	if e := strings.IndexByte(p, '='); e >= 0 {
		return KV{K: p[:e], V: p[e+1:], HasVal: true}
	}
	return KV{K: p}
}

// Param returns a via parameter.
func (v ViaEntry) Param(k string) (KV, bool) {
	for _, p := range v.Params {
		if p.K == k {
			return p, true
		}
	}
	return KV{}, false
}

// PortOr returns the numeric port or def.
func (v ViaEntry) PortOr(def int) int {
	if v.Port == "" {
		return def
	}
	n, err := strconv.Atoi(v.Port)
	if err != nil {
		return -1
	}
	return n
}

// String re-encodes exactly what ParseVia split.
func (v ViaEntry) String() string {
	s := v.Proto + " " + v.Host
	if v.Port != "" {
		s += ":" + v.Port
	}
	for _, p := range v.Params {
		s += ";" + p.String()
	}
	return s
}

// Vias returns the flattened, parsed Via list.
func (m *Msg) Vias() ([]ViaEntry, error) {
	var r []ViaEntry
	for _, e := range m.List("via") {
		v, err := ParseVia(e)
		if err != nil {
			return nil, err
		}
		r = append(r, v)
	}
	return r, nil
}

// Bytes serialises a message built by the harness (CRLF line ends).
func (m *Msg) Bytes() []byte {
	var b bytes.Buffer
	b.WriteString(m.Start)
	b.WriteString("\r\n")
	for _, h := range m.Headers {
		b.WriteString(h.Name)
		b.WriteString(": ")
		b.WriteString(h.Value)
		b.WriteString("\r\n")
	}
	b.WriteString("\r\n")
	b.Write(m.Body)
	return b.Bytes()
}

// Clone copies the message.
func (m *Msg) Clone() *Msg {
	c := &Msg{Start: m.Start, Headers: append([]Header{}, m.Headers...), Body: append([]byte{}, m.Body...)}
	return c
}

// FrameTCP pops complete messages from a TCP byte buffer using Content-Length
// (any spelling). It returns the framed messages and the unconsumed rest. A
// header section without a usable Content-Length swallows the rest as one blob.
func FrameTCP(buf []byte) (msgs [][]byte, rest []byte) {
	for {
		// skip keep-alive CRLFs
		i := 0
		for i < len(buf) && (buf[i] == '\r' || buf[i] == '\n') {
			i++
		}
		buf = buf[i:]
		if len(buf) == 0 {
			return msgs, nil
		}
		end := bytes.Index(buf, []byte("\r\n\r\n"))
		if end < 0 {
			return msgs, buf
		}
		m, err := Read(buf[:end+4])
		if err != nil {
			return append(msgs, buf), nil
		}
		cl := -1
		for _, v := range m.Get("content-length") {
			if n, err := strconv.Atoi(v); err == nil && n >= 0 {
				cl = n
			}
		}
		if cl < 0 {
			return append(msgs, buf), nil
		}
		total := end + 4 + cl
		if len(buf) < total {
			return msgs, buf
		}
		msgs = append(msgs, append([]byte{}, buf[:total]...))
		buf = buf[total:]
	}
}
