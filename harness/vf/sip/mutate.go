package sip

import (
	"bytes"
	"fmt"
	"strings"
)

// Mutate applies one structure-aware hostile mutation to a valid message and
// returns the bytes plus the name of the mutator. Targets (hosts, ports) of
// the seed are preserved wherever the mutation does not aim at them.
func (g *Gen) Mutate(seed []byte) ([]byte, string) {
	m, err := Read(seed)
	if err != nil {
		return seed, "unreadable-seed"
	}
	pick := g.R.Intn(30)
	setHeader := func(canon, value string) bool {
		for i, h := range m.Headers {
			if Canon(h.Name) == canon {
				m.Headers[i].Value = value
				return true
			}
		}
		return false
	}
	switch pick {
	case 0: // truncation at a structural boundary
		marks := []string{"\r\n\r\n", "\r\n", ":", ";", " ", "Content-Length"}
		mk := marks[g.R.Intn(len(marks))]
		idx := allIndex(seed, mk)
		if len(idx) == 0 {
			return seed[:g.R.Intn(len(seed)+1)], "truncate-random"
		}
		p := idx[g.R.Intn(len(idx))] + g.R.Intn(len(mk)+1)
		return append([]byte{}, seed[:p]...), "truncate-boundary"
	case 1:
		return append([]byte{}, seed[:g.R.Intn(len(seed)+1)]...), "truncate-random"
	case 2: // byte flips
		b := append([]byte{}, seed...)
		for k := 1 + g.R.Intn(8); k > 0 && len(b) > 0; k-- {
			b[g.R.Intn(len(b))] ^= byte(1 << uint(g.R.Intn(8)))
		}
		return b, "bitflip"
	case 3: // random bytes inserted
		b := append([]byte{}, seed...)
		p := g.R.Intn(len(b) + 1)
		junk := make([]byte, 1+g.R.Intn(64))
		g.R.Read(junk)
		return append(append(append([]byte{}, b[:p]...), junk...), b[p:]...), "insert-random"
	case 4: // remove a mandatory header
		if len(m.Headers) > 0 {
			i := g.R.Intn(len(m.Headers))
			name := Canon(m.Headers[i].Name)
			m.Headers = append(m.Headers[:i], m.Headers[i+1:]...)
			return m.Bytes(), "remove-" + name
		}
	case 5: // duplicate a header many times
		if len(m.Headers) > 0 {
			i := g.R.Intn(len(m.Headers))
			h := m.Headers[i]
			n := []int{2, 10, 1000, 10000}[g.R.Intn(4)]
			if len(h.Value)*n > 60000 {
				n = 60000/(len(h.Value)+len(h.Name)+4) + 1
			}
			var extra []Header
			for k := 0; k < n; k++ {
				extra = append(extra, h)
			}
			m.Headers = append(m.Headers[:i], append(extra, m.Headers[i:]...)...)
			return m.Bytes(), fmt.Sprintf("dup-header-x%d", n)
		}
	case 6: // LF only
		return bytes.ReplaceAll(seed, []byte("\r\n"), []byte("\n")), "lf-only"
	case 7: // NUL bytes
		b := append([]byte{}, seed...)
		for k := 1 + g.R.Intn(4); k > 0; k-- {
			p := g.R.Intn(len(b) + 1)
			b = append(append(append([]byte{}, b[:p]...), 0), b[p:]...)
		}
		return b, "nul"
	case 8, 9: // Content-Length games
		v := []string{"-1", "0", fmt.Sprint(len(m.Body) + 1), fmt.Sprint(len(m.Body) - 1), "2147483648", "9223372036854775807", "18446744073709551616", "abc", "", "1e9", "0x10", " 5 5", "99999999999", "4294967296", "2147483647", "+3", "1073741824"}[g.R.Intn(17)]
		if !setHeader("content-length", v) {
			m.Headers = append(m.Headers, Header{Name: "Content-Length", Value: v})
		}
		return m.Bytes(), "content-length=" + v
	case 10, 11: // Via host games
		hosts := []string{"", "[", "[]", "[::1", "]", "[[", "[::1]", strings.Repeat("h", 255), strings.Repeat("a.", 30000), ":", "::", "host:port:extra", "1.2.3.4:99999999999", "[:", "[]:5060", " ", "\t"}
		hv := hosts[g.R.Intn(len(hosts))]
		tr := []string{"UDP", "TCP", "TLS", ""}[g.R.Intn(4)]
		v := "SIP/2.0/" + tr + " " + hv + ";branch=z9hG4bK" + g.Alnum(4, 8)
		which := g.R.Intn(2)
		n := 0
		for i, h := range m.Headers {
			if Canon(h.Name) == "via" {
				if n == which {
					m.Headers[i].Value = v
					break
				}
				n++
			}
		}
		if n == 0 && which == 1 {
			setHeader("via", v)
		}
		label := hv
		if len(label) > 12 {
			label = fmt.Sprintf("%s...(%d)", label[:8], len(hv))
		}
		return m.Bytes(), "via-host=" + label
	case 12: // thousands of parameters
		n := []int{100, 1000, 10000}[g.R.Intn(3)]
		var sb strings.Builder
		for k := 0; k < n; k++ {
			fmt.Fprintf(&sb, ";p%d=%d", k, k)
		}
		target := []string{"via", "from", "to", "route"}[g.R.Intn(4)]
		for i, h := range m.Headers {
			if Canon(h.Name) == target {
				m.Headers[i].Value = h.Value + sb.String()
				break
			}
		}
		return m.Bytes(), fmt.Sprintf("%d-params-on-%s", n, target)
	case 13: // unparsable typed headers
		target := []string{"to", "from", "cseq", "route", "via", "call-id", "record-route", "expires", "max-forwards"}[g.R.Intn(9)]
		bad := []string{"", "<", ">", "<>", "<sip:", "sip:", "<sip:@>", ";;;;", "<<>>", ",,,", "\"", "\"unterminated <sip:a@b>", "tag=", "<sip:a@b>;", "<sip:a@b>;;tag", "1", "INVITE", "x y z", "-1 INVITE", "99999999999999999999 INVITE", "<sip:[>", "<sip:a@[::1>", "<tel:>", "a<b>c<d>", "%%%", "<sip:a@b:99999999999>", "<sip:a@b:-1>", "<sip:a@b;lr;;>", "<sip:a@b?>", "<sip:a@b?x>", strings.Repeat("<", 5000)}[g.R.Intn(31)]
		if !setHeader(target, bad) {
			m.Headers = append([]Header{{Name: strings.Title(target), Value: bad}}, m.Headers...)
		}
		return m.Bytes(), "bad-" + target
	case 14: // absurd start lines
		lines := []string{"SIP/2.0 99999999999 X", "SIP/2.0 -1 X", "SIP/2.0 abc X", "SIP/2.0", "SIP/2.0 200", "SIP/ 200 OK", "INVITE", "INVITE sip:a@b", "INVITE  SIP/2.0", " INVITE sip:a@b SIP/2.0", "INVITE sip:a@b SIP/2.0 extra", ": x", "INVITE : SIP/2.0", "INVITE sip:[ SIP/2.0", "INVITE sip: SIP/2.0", "INVITE sip:@ SIP/2.0", "INVITE sips:;;;? SIP/2.0", "\x00\x01\x02", strings.Repeat("A", 70000) + " sip:a@b SIP/2.0", "INVITE sip:" + strings.Repeat("u", 60000) + "@b SIP/2.0", "SIP/2.0 000 ", "SIP/2.0 2147483648 OK"}
		m.Start = lines[g.R.Intn(len(lines))]
		return m.Bytes(), "startline"
	case 15: // response without Via / request without Via
		var hs []Header
		for _, h := range m.Headers {
			if Canon(h.Name) != "via" {
				hs = append(hs, h)
			}
		}
		m.Headers = hs
		return m.Bytes(), "no-via"
	case 16: // header line without colon / only colon
		i := g.R.Intn(len(m.Headers) + 1)
		junk := []string{"NoColonHere", ":", ": value", "Name", "\t", "   ", "Na me: v", strings.Repeat("X", 10000)}[g.R.Intn(8)]
		raw := m.Bytes()
		lines := bytes.SplitN(raw, []byte("\r\n"), i+2)
		if len(lines) > i+1 {
			out := bytes.Join(lines[:i+1], []byte("\r\n"))
			out = append(out, []byte("\r\n"+junk+"\r\n")...)
			out = append(out, lines[i+1]...)
			return out, "junk-line"
		}
		return raw, "junk-line"
	case 17: // huge header value
		n := []int{5000, 20000, 60000}[g.R.Intn(3)]
		m.Headers = append([]Header{{Name: "X-Huge", Value: strings.Repeat("v", n)}}, m.Headers...)
		return m.Bytes(), fmt.Sprintf("huge-header-%d", n)
	case 18: // many different headers
		n := []int{100, 1000, 5000}[g.R.Intn(3)]
		var hs []Header
		for k := 0; k < n; k++ {
			hs = append(hs, Header{Name: fmt.Sprintf("X-%d", k), Value: "v"})
		}
		m.Headers = append(hs, m.Headers...)
		return m.Bytes(), fmt.Sprintf("%d-headers", n)
	case 19: // folded lines and blanks before colon (outside C01's domain, inside C08's)
		raw := m.Bytes()
		raw = bytes.Replace(raw, []byte(": "), []byte(" :\r\n  "), 1+g.R.Intn(3))
		return raw, "folded"
	case 20: // two messages glued together / trailing garbage
		return append(append([]byte{}, seed...), seed[:g.R.Intn(len(seed)+1)]...), "glued"
	case 21: // only line ends
		return bytes.Repeat([]byte("\r\n"), 1+g.R.Intn(2000)), "only-crlf"
	case 22: // pure random bytes
		b := make([]byte, g.R.Intn(2000))
		g.R.Read(b)
		return b, "random-bytes"
	case 23: // Expires / Subscription-State / Max-Forwards oddities
		m.Headers = append([]Header{{Name: "Expires", Value: []string{"-1", "4294967296", "abc", "2147483647", ""}[g.R.Intn(5)]}, {Name: "Subscription-State", Value: []string{"", "terminated", ";;", strings.Repeat("t", 5000)}[g.R.Intn(4)]}, {Name: "Max-Forwards", Value: []string{"0", "-1", "x"}[g.R.Intn(3)]}}, m.Headers...)
		return m.Bytes(), "odd-expires"
	case 24: // Route to weird places
		routes := []string{"<sip:>", "<sip:[>", "<sip:a@b:0>", "<sip:127.0.0.1:1;transport=tcp>", "<sip:127.0.0.1:0>", "<sip:255.255.255.255>", "<sip:0.0.0.0:5060>", "<sip:host.invalid;transport=tcp>", "<tel:+1>", "sip:nobrackets@x", "<sip:a@b;transport=>", "<sip:a@b;transport=TCP;transport=udp>", "<sip:127.0.0.1:65536>", "<sip:127.0.0.1:-5>", "<sip:224.0.0.1>", "<sip:127.0.0.1:9;transport=tcp>"}
		m.Headers = append([]Header{{Name: "Route", Value: routes[g.R.Intn(len(routes))]}}, m.Headers...)
		return m.Bytes(), "odd-route"
	case 25: // duplicate Content-Length with different values
		m.Headers = append(m.Headers, Header{Name: "l", Value: fmt.Sprint(g.R.Intn(100))}, Header{Name: "Content-Length", Value: "7"})
		return m.Bytes(), "two-content-lengths"
	case 26: // empty datagram / single byte
		return []byte{byte(g.R.Intn(256))}[:g.R.Intn(2)], "tiny"
	case 27: // request line with runs of blanks and tabs
		m.Start = strings.ReplaceAll(m.Start, " ", []string{"  ", "\t", " \t "}[g.R.Intn(3)])
		return m.Bytes(), "blank-runs"
	case 28: // a body far larger than declared
		m.Body = append(m.Body, bytes.Repeat([]byte("Z"), 30000+g.R.Intn(30000))...)
		return m.Bytes(), "body-larger-than-declared"
	default: // valid seed unchanged (control)
		return seed, "valid"
	}
	return m.Bytes(), "noop"
}

func allIndex(b []byte, s string) []int {
	var r []int
	off := 0
	for {
		i := bytes.Index(b[off:], []byte(s))
		if i < 0 {
			return r
		}
		r = append(r, off+i)
		off += i + 1
	}
}
