// Package ev writes evidence files, applies the known-findings filter and
// prints the VIOLATION / KNOWN-FINDING lines of the check interface.
package ev

import (
	"encoding/json"
	"fmt"
	"os"
	"path/filepath"
	"sort"
	"strconv"
	"sync"
	"time"
)

// Finding is one entry of /verif/known_findings.json.
type Finding struct {
	Property string `json:"property"`
	Key      string `json:"key"`
	Status   string `json:"status"` // open | fixed
	Commit   string `json:"commit,omitempty"`
	What     string `json:"what"`
}

// Run collects what one check execution observed.
type Run struct {
	mu         sync.Mutex
	Prop       string
	Level      string
	Tier       string
	Seed       int64
	start      time.Time
	evals      int64
	sigs       map[string]int64
	samples    []any
	maxSamples int
	observed   map[string]any
	counters   map[string]int64
	assume     []string
	rule       string
	exhaustive bool
	violations []violation
	knownHit   map[string]int
	findings   []Finding
	inconcl    int64
	extraDist  int64
	root       string
}

type violation struct {
	Key    string `json:"key"`
	Detail any    `json:"detail"`
	Replay string `json:"replay"`
}

// Root returns the /verif directory (VF_ROOT or /verif).
func Root() string {
	if r := os.Getenv("VF_ROOT"); r != "" {
		return r
	}
	return "/verif"
}

// Seed returns VERIF_SEED (default 1).
func Seed() int64 {
	if s := os.Getenv("VERIF_SEED"); s != "" {
		if n, err := strconv.ParseInt(s, 10, 64); err == nil {
			return n
		}
	}
	return 1
}

// Tier returns VERIF_TIER (quick unless "thorough").
func Tier() string {
	if os.Getenv("VERIF_TIER") == "thorough" {
		return "thorough"
	}
	return "quick"
}

// Thorough reports whether the thorough tier was requested.
func Thorough() bool { return Tier() == "thorough" }

// Pick returns q in the quick tier and t in the thorough tier.
func Pick(q, t int) int {
	if Thorough() {
		return t
	}
	return q
}

// New starts a run for property prop at evidence level level.
func New(prop, level, rule string) *Run {
	r := &Run{Prop: prop, Level: level, Tier: Tier(), Seed: Seed(), start: time.Now(),
		sigs: map[string]int64{}, observed: map[string]any{}, counters: map[string]int64{},
		knownHit: map[string]int{}, maxSamples: 6, rule: rule, root: Root()}
	b, err := os.ReadFile(filepath.Join(r.root, "known_findings.json"))
	if err == nil {
		var f struct {
			Findings []Finding `json:"findings"`
		}
		if json.Unmarshal(b, &f) == nil {
			r.findings = f.Findings
		}
	}
	return r
}

// Eval counts one evaluated case. sig is its shape signature; an empty sig
// marks a trivial case that does not count as non-trivial.
func (r *Run) Eval(sig string) {
	r.mu.Lock()
	r.evals++
	if sig != "" {
		r.sigs[sig]++
	}
	r.mu.Unlock()
}

// EvalN counts n evaluations of the same signature.
func (r *Run) EvalN(sig string, n int64) {
	r.mu.Lock()
	r.evals += n
	if sig != "" {
		r.sigs[sig] += n
	}
	r.mu.Unlock()
}

// EvalDistinct counts n evaluations that are pairwise distinct and non-trivial
// by construction (e.g. the leaves of an enumeration) without storing them.
func (r *Run) EvalDistinct(n int64) {
	r.mu.Lock()
	r.evals += n
	r.extraDist += n
	r.mu.Unlock()
}

// Sample keeps up to maxSamples concrete cases for the evidence file.
func (r *Run) Sample(x any) {
	r.mu.Lock()
	if len(r.samples) < r.maxSamples {
		r.samples = append(r.samples, x)
	}
	r.mu.Unlock()
}

// WantSample reports whether more samples are wanted (cheap pre-check).
func (r *Run) WantSample() bool {
	r.mu.Lock()
	defer r.mu.Unlock()
	return len(r.samples) < r.maxSamples
}

// Observe records a named observation for the evidence file.
func (r *Run) Observe(k string, v any) {
	r.mu.Lock()
	r.observed[k] = v
	r.mu.Unlock()
}

// Count adds n to a named counter reported under observed.
func (r *Run) Count(k string, n int64) {
	r.mu.Lock()
	r.counters[k] += n
	r.mu.Unlock()
}

// Counter reads a named counter.
func (r *Run) Counter(k string) int64 {
	r.mu.Lock()
	defer r.mu.Unlock()
	return r.counters[k]
}

// Inconclusive counts a case that could be decided neither way.
func (r *Run) Inconclusive(n int64) {
	r.mu.Lock()
	r.inconcl += n
	r.mu.Unlock()
}

// Assume records an assumption for the evidence file.
func (r *Run) Assume(s string) { r.mu.Lock(); r.assume = append(r.assume, s); r.mu.Unlock() }

// Exhaustive marks the run as a complete enumeration of a finite space.
func (r *Run) Exhaustive(b bool) { r.exhaustive = b }

// Known reports a failure that the caller attributed (trigger predicate holds
// and the neutralised case passes) to finding key. It returns false when no
// open finding with that key exists - the caller must then report a Violation.
func (r *Run) Known(key string) bool {
	r.mu.Lock()
	defer r.mu.Unlock()
	for _, f := range r.findings {
		if f.Property == r.Prop && f.Key == key && f.Status == "open" {
			r.knownHit[key]++
			return true
		}
	}
	return false
}

// Violation records a violation with its witness; the witness is written to a
// replay file. At most 20 are kept in detail.
func (r *Run) Violation(key string, detail any) {
	r.mu.Lock()
	defer r.mu.Unlock()
	n := len(r.violations)
	if n >= 20 {
		r.violations = append(r.violations, violation{Key: key})
		return
	}
	dir := filepath.Join(r.root, "evidence", "replay")
	if d := os.Getenv("VF_EVIDENCE_DIR"); d != "" {
		dir = filepath.Join(d, "replay")
	}
	os.MkdirAll(dir, 0o755)
	path := filepath.Join(dir, fmt.Sprintf("%s-%s-seed%d-%d.json", r.Prop, r.Tier, r.Seed, n))
	w := map[string]any{"property": r.Prop, "tier": r.Tier, "seed": r.Seed, "key": key, "witness": detail,
		"rerun": fmt.Sprintf("VERIF_SEED=%d ./check.sh %s %s", r.Seed, r.Prop, r.Tier)}
	b, _ := json.MarshalIndent(w, "", " ")
	os.WriteFile(path, b, 0o644)
	r.violations = append(r.violations, violation{Key: key, Detail: detail, Replay: path})
}

// Violations returns how many violations were recorded.
func (r *Run) Violations() int { r.mu.Lock(); defer r.mu.Unlock(); return len(r.violations) }

// Distinct returns the number of distinct non-trivial signatures seen.
func (r *Run) Distinct() int { r.mu.Lock(); defer r.mu.Unlock(); return len(r.sigs) }

// Evals returns the number of evaluations so far.
func (r *Run) Evals() int64 { r.mu.Lock(); defer r.mu.Unlock(); return r.evals }

// Finish writes the evidence file, prints the interface lines and returns the
// exit code (0 held, 1 violated). A run that observed fewer than minEvals
// evaluations or fewer than 2 distinct non-trivial cases is itself a violation
// of the run's precondition ("observed nothing").
func (r *Run) Finish(minEvals int64) int {
	r.mu.Lock()
	if r.evals < minEvals || int64(len(r.sigs))+r.extraDist < 2 {
		r.mu.Unlock()
		r.Violation("observed-nothing", map[string]any{"evaluations": r.evals, "distinct": len(r.sigs), "required": minEvals,
			"meaning": "the workload did not reach the behaviour the property is about"})
		r.mu.Lock()
	}
	defer r.mu.Unlock()
	obs := map[string]any{}
	for k, v := range r.observed {
		obs[k] = v
	}
	for k, v := range r.counters {
		obs[k] = v
	}
	obs["inconclusive"] = r.inconcl
	if len(r.knownHit) > 0 {
		obs["known_findings_hit"] = r.knownHit
	}
	// a compact view of the signature histogram (top 12)
	type kv struct {
		K string
		N int64
	}
	var hs []kv
	for k, n := range r.sigs {
		hs = append(hs, kv{k, n})
	}
	sort.Slice(hs, func(i, j int) bool { return hs[i].N > hs[j].N || (hs[i].N == hs[j].N && hs[i].K < hs[j].K) })
	top := map[string]int64{}
	for i := 0; i < len(hs) && i < 12; i++ {
		top[hs[i].K] = hs[i].N
	}
	obs["top_signatures"] = top
	samples := r.samples
	if len(samples) == 0 {
		samples = []any{"(no sample recorded)"}
	}
	cov := map[string]any{
		"evaluations":         r.evals,
		"distinct_nontrivial": int64(len(r.sigs)) + r.extraDist,
		"rule":                r.rule,
		"samples":             samples,
		"observed":            obs,
		"exhaustive":          r.exhaustive,
	}
	out := map[string]any{
		"property_id": r.Prop, "tier": r.Tier, "seed": r.Seed, "level": r.Level,
		"coverage": cov, "assumptions": append([]string{}, r.assume...),
		"wall_s":     time.Since(r.start).Seconds(),
		"violations": len(r.violations),
	}
	if len(r.violations) > 0 {
		n := len(r.violations)
		if n > 20 {
			n = 20
		}
		out["violation_details"] = r.violations[:n]
	}
	b, _ := json.MarshalIndent(out, "", " ")
	path := os.Getenv("VF_EVIDENCE")
	if path == "" {
		path = filepath.Join(r.root, "evidence", r.Prop+".json")
	}
	os.MkdirAll(filepath.Dir(path), 0o755)
	if err := os.WriteFile(path, b, 0o644); err != nil {
		fmt.Printf("EVIDENCE-WRITE-FAILED %v\n", err)
	}
	keys := make([]string, 0, len(r.knownHit))
	for k := range r.knownHit {
		keys = append(keys, k)
	}
	sort.Strings(keys)
	for _, k := range keys {
		what := k
		for _, f := range r.findings {
			if f.Property == r.Prop && f.Key == k {
				what = k + ": " + f.What
			}
		}
		fmt.Printf("KNOWN-FINDING: property=%s %s (%d cases)\n", r.Prop, what, r.knownHit[k])
	}
	fmt.Printf("SUMMARY property=%s tier=%s seed=%d evaluations=%d distinct_nontrivial=%d inconclusive=%d violations=%d wall_s=%.1f\n",
		r.Prop, r.Tier, r.Seed, r.evals, int64(len(r.sigs))+r.extraDist, r.inconcl, len(r.violations), time.Since(r.start).Seconds())
	if len(r.violations) == 0 {
		return 0
	}
	seen := map[string]bool{}
	for _, v := range r.violations {
		if v.Replay == "" || seen[v.Key] {
			continue
		}
		seen[v.Key] = true
		d, _ := json.Marshal(v.Detail)
		if len(d) > 400 {
			d = append(d[:400], "..."...)
		}
		if len(seen) > 6 {
			continue
		}
		fmt.Printf("VIOLATION property=%s replay=%s key=%s detail=%s\n", r.Prop, v.Replay, v.Key, d)
	}
	return 1
}
