package main

// Scenario "datagram" (C10, wire part): bursts of UDP datagrams of mixed sizes
// from one or several sources in parallel, any of them cut short or declaring
// a wrong Content-Length, through the real receive goroutine, buffer pool and
// parse goroutine of the binary. Every output must be the image of exactly one
// datagram; incomplete datagrams must produce nothing.

import (
	"bytes"
	"fmt"
	"math/rand"
	"strconv"
	"strings"
	"sync"
	"time"

	"vf/ev"
	"vf/sip"
	"vf/wire"
)

type dgram struct {
	id       string
	svc      int
	src      int
	full     *sip.Msg
	sent     []byte
	kind     string
	relay    bool   // the datagram alone determines a relay
	wantBody []byte // expected body when relayed
	toHop    bool
}

func dgBuild(w *wire.World, g *sip.Gen, id string, svc, src int, srcAddr string) *dgram {
	return dgBuildLike(w, g, id, svc, src, srcAddr, nil)
}

func dgBuildLike(w *wire.World, g *sip.Gen, id string, svc, src int, srcAddr string, viaOf *dgram) *dgram {
	d := &dgram{id: id, svc: svc, src: src}
	sv := w.Svcs[svc]
	// everything derives from the id: a single foreign byte is visible
	r := rand.New(rand.NewSource(int64(len(id))*7919 + hashStr(id)))
	m := wire.StdRequest(id, []string{"MESSAGE", "OPTIONS", "INFO", "PUBLISH"}[r.Intn(4)], fmt.Sprintf("sip:svc%d.verif.test", svc), "udp", "placeholder", 0)
	wire.SetHeader(m, "Via", fmt.Sprintf("SIP/2.0/UDP %s;branch=z9hG4bKvf%s", srcAddr, id))
	if sv.HasDef {
		wire.SetHeader(m, "To", "<tel:+15550177>")
	}
	if r.Intn(3) == 0 {
		d.toHop = true
		m.Start = "MESSAGE sip:x@foreign.example SIP/2.0"
		wire.InsertBefore(m, "max-forwards", sip.Header{Name: "Route", Value: fmt.Sprintf("<sip:%s:%d;lr>", w.Hops[0].IP, wire.NextHopPortA)})
	}
	for k := r.Intn(6); k > 0; k-- {
		wire.InsertBefore(m, "content-length", sip.Header{Name: fmt.Sprintf("X-%s-%d", id, k), Value: id + "-" + randLetters(r, r.Intn(80))})
	}
	// header names that many datagrams share, each datagram in a spelling of its own
	if r.Intn(2) == 0 {
		wire.InsertBefore(m, "content-length", sip.Header{Name: []string{"X-Trace", "x-trace", "X-TRACE", "x-TrAcE", "X-trace"}[r.Intn(5)], Value: id})
		for i, h := range m.Headers {
			switch sip.Canon(h.Name) {
			case "from":
				m.Headers[i].Name = []string{"From", "f", "FROM", "from"}[r.Intn(4)]
			case "to":
				m.Headers[i].Name = []string{"To", "t", "TO", "to"}[r.Intn(4)]
			case "call-id":
				m.Headers[i].Name = []string{"Call-ID", "i", "CALL-ID", "call-id", "Call-Id"}[r.Intn(5)]
			case "cseq":
				m.Headers[i].Name = []string{"CSeq", "CSEQ", "cseq", "Cseq"}[r.Intn(4)]
			case "max-forwards":
				m.Headers[i].Name = []string{"Max-Forwards", "max-forwards", "MAX-FORWARDS"}[r.Intn(3)]
			}
		}
	}
	if viaOf != nil {
		// method, sent-by and branch of an earlier datagram from another source; everything else
		// is this datagram's own
		if v, ok := viaOf.full.First("via"); ok {
			wire.SetHeader(m, "Via", v)
		}
		if sp := strings.IndexByte(m.Start, ' '); sp > 0 {
			m.Start = viaOf.full.Start[:strings.IndexByte(viaOf.full.Start, ' ')] + m.Start[sp:]
		}
	}
	var size int
	switch r.Intn(7) {
	case 0:
		size = 0
	case 1:
		size = 1 + r.Intn(30)
	case 2, 3:
		size = 20000 + r.Intn(38000)
	default:
		size = r.Intn(2500)
	}
	body := []byte(randLetters(r, size))
	// mark the body with the id every 64 bytes
	for i := 0; i+len(id)+2 <= len(body); i += 64 {
		copy(body[i:], "<"+id+">")
	}
	declared := size
	d.kind = "exact"
	switch r.Intn(9) {
	case 0:
		declared = size + 1 + r.Intn(200)
		d.kind = "over-declared"
	case 1:
		declared = size + 30000
		d.kind = "over-declared"
	case 2:
		if size > 0 {
			declared = r.Intn(size)
			d.kind = "under-declared"
		}
	}
	m.Body = body
	wire.SetHeader(m, "Content-Length", strconv.Itoa(declared))
	d.full = m
	raw := m.Bytes()
	cut := len(raw)
	if r.Intn(5) == 0 {
		cut = r.Intn(len(raw))
		d.kind += "+cut"
	}
	d.sent = raw[:cut]
	hdrEnd := len(raw) - len(body)
	if cut >= hdrEnd && declared <= cut-hdrEnd {
		d.relay = true
		d.wantBody = body[:declared]
	}
	_ = g
	return d
}

func hashStr(s string) int64 {
	var h int64 = 1469598103934665603
	for _, c := range []byte(s) {
		h = (h ^ int64(c)) * 1099511628211
	}
	if h < 0 {
		h = -h
	}
	return h
}

func randLetters(r *rand.Rand, n int) string {
	b := make([]byte, n)
	for i := range b {
		b[i] = byte('A' + r.Intn(26))
	}
	return string(b)
}

func scenarioDatagram() int {
	run := ev.New("C10", "exploration",
		"bursts of UDP datagrams (20 B - 60 KiB, long-then-short so that recycled buffers hold residue, exact / over- / under-declared Content-Length, optionally cut at a random offset) sent back-to-back from 1-8 sources in parallel to the real binary; content of every datagram derives from its id; "+
			"oracle = every output must be the image of exactly one complete datagram (start line, non-managed headers, first Content-Length bytes of its own body), incomplete or over-declaring datagrams must produce nothing, nothing unattributable may appear; distinct = (kind, size class, sources) cells")
	w, err := wire.NewWorld(*flagBin, *flagDir, wire.Opts{Services: 4, TCPBackend: false})
	if err != nil {
		fmt.Println("HARNESS-ERROR world:", err)
		return 2
	}
	defer w.Close()
	g := sip.NewGen(shardSeed(run.Seed))
	total := *flagCases
	if total == 0 {
		total = ev.Pick(4000, 120000)
	}
	// extra source sockets
	var srcs []*wire.UDPEndpoint
	for i := 0; i < 8; i++ {
		e, err := w.Net.UDP(fmt.Sprintf("src%d", i), w.UAs[i%len(w.UAs)].IP+":0")
		if err != nil {
			fmt.Println("HARNESS-ERROR", err)
			return 2
		}
		srcs = append(srcs, e)
	}
	sent, relayed, discarded := 0, 0, 0
	sharedVia := 0
	seq := 0
	for sent < total && run.Violations() <= 6 {
		if h := w.Health(); h != "" {
			run.Violation("proxy died during the run (belongs to C08; the run cannot continue)", map[string]any{"health": h})
			break
		}
		svc := g.R.Intn(len(w.Svcs))
		nsrc := 1 + g.R.Intn(8)
		// one burst: per source a few datagrams, total bytes bounded
		var burst [][]*dgram
		bytesIn := 0
		for s := 0; s < nsrc; s++ {
			var mine []*dgram
			for k := 1 + g.R.Intn(5); k > 0; k-- {
				seq++
				var like *dgram
				if s > 0 && len(burst[s-1]) > 0 && g.R.Intn(3) == 0 {
					like = burst[s-1][0]
					sharedVia++
				}
				d := dgBuildLike(w, g, fmt.Sprintf("g%d", seq), svc, s, srcs[s].Addr, like)
				if bytesIn+len(d.sent) > 160*1024 {
					continue
				}
				bytesIn += len(d.sent)
				mine = append(mine, d)
			}
			burst = append(burst, mine)
		}
		var wg sync.WaitGroup
		dst := fmt.Sprintf("%s:%d", w.Svcs[svc].IP, w.Svcs[svc].UDP)
		for s, mine := range burst {
			wg.Add(1)
			go func(s int, mine []*dgram) {
				defer wg.Done()
				for _, d := range mine {
					srcs[s].Send(dst, d.sent, d.id)
				}
			}(s, mine)
		}
		wg.Wait()
		// one barrier per source socket that sent something: the UDP path is FIFO per listener
		okBarrier := true
		for s, mine := range burst {
			if len(mine) == 0 {
				continue
			}
			bid := fmt.Sprintf("b%dg%d", seq, s)
			srcs[s].Send(dst, w.SentinelMsg(wire.Path{UA: s % len(w.UAs), Svc: svc, Proto: "udp"}, bid), bid)
			if _, ok := w.Net.WaitCase(bid, func(o []*wire.Obs) bool { return len(o) > 0 }, w.BarrierWait); !ok {
				okBarrier = false
			}
			w.Net.Forget(bid)
		}
		w.Net.Drain()
		if !okBarrier {
			run.Inconclusive(1)
			continue
		}
		for _, mine := range burst {
			for _, d := range mine {
				sent++
				obs := w.Net.ForCase(d.id)
				sz := "small"
				if len(d.sent) > 15000 {
					sz = "large"
				}
				detail := func(why string) map[string]any {
					m := map[string]any{"why": why, "kind": d.kind, "bytes_sent": len(d.sent), "declared_content_length": firstCL(d.full), "own_body_bytes": len(d.full.Body), "sources_in_burst": nsrc, "datagram_head": clip(string(d.sent), 700)}
					if len(obs) > 0 {
						m["output_head"] = clip(string(obs[0].Raw), 900)
						m["output_bytes"] = len(obs[0].Raw)
					}
					return m
				}
				if !d.relay {
					if len(obs) > 0 {
						run.Violation("a datagram that is cut short or over-declares its body was processed instead of discarded", detail(""))
						continue
					}
					discarded++
					run.Eval(fmt.Sprintf("%s|%s|src%d", d.kind, sz, min8(nsrc)))
					continue
				}
				if len(obs) == 0 {
					w.Net.WaitCase(d.id, func(o []*wire.Obs) bool { return len(o) >= 1 }, w.BarrierWait)
					obs = w.Net.ForCase(d.id)
				}
				if len(obs) != 1 {
					if len(obs) == 0 && wire.UDPDrops() > 0 {
						run.Inconclusive(1)
						continue
					}
					run.Violation(fmt.Sprintf("a complete datagram produced %d outputs", len(obs)), detail(""))
					continue
				}
				out := obs[0].Msg
				if out == nil {
					run.Violation("output unreadable", detail(""))
					continue
				}
				if out.Start != d.full.Start {
					run.Violation("output is not the image of its datagram (start line)", detail(out.Start))
					continue
				}
				var a, b []sip.Header
				for _, h := range d.full.Headers {
					if !managed(h.Name) {
						a = append(a, h)
					}
				}
				for _, h := range out.Headers {
					if !managed(h.Name) {
						b = append(b, h)
					}
				}
				same := len(a) == len(b)
				for i := 0; same && i < len(a); i++ {
					same = a[i].Name == b[i].Name && a[i].Value == b[i].Value
				}
				if !same {
					run.Violation("output is not the image of its datagram (headers)", detail(""))
					continue
				}
				if !bytes.Equal(out.Body, d.wantBody) {
					why := fmt.Sprintf("body: %d bytes out, %d expected, first difference at %d", len(out.Body), len(d.wantBody), firstDiff(string(out.Body), string(d.wantBody)))
					run.Violation("output contains bytes that are not the datagram's own", detail(why))
					continue
				}
				relayed++
				run.Eval(fmt.Sprintf("%s|%s|src%d", d.kind, sz, min8(nsrc)))
				if run.WantSample() && d.kind != "exact" {
					run.Sample(detail("relayed as the image of itself"))
				}
			}
		}
		// nothing unattributable may have appeared
		if un := w.Net.ForCase(""); len(un) > 0 {
			run.Violation("an output that belongs to no datagram appeared", map[string]any{"count": len(un), "first": clip(string(un[0].Raw), 900), "at": un[0].Ep})
			w.Net.Forget("")
		}
		w.Net.Trim()
	}
	// a flood: thousands of small datagrams as fast as the socket takes them (not judged - the
	// kernel may drop any of them), then, once the proxy has worked them off, complete 4 KiB
	// datagrams one at a time: each of them is relayed as its own image
	if run.Violations() <= 6 && w.Health() == "" {
		svc := 1 % len(w.Svcs)
		dst := fmt.Sprintf("%s:%d", w.Svcs[svc].IP, w.Svcs[svc].UDP)
		nflood := ev.Pick(20000, 60000)
		for i := 0; i < nflood; i++ {
			id := fmt.Sprintf("fl%d", i)
			m := wire.StdRequest(id, "OPTIONS", fmt.Sprintf("sip:svc%d.verif.test", svc), "udp", "placeholder", 0)
			wire.SetHeader(m, "Via", fmt.Sprintf("SIP/2.0/UDP %s;branch=z9hG4bKvf%s", srcs[i%len(srcs)].Addr, id))
			if w.Svcs[svc].HasDef {
				wire.SetHeader(m, "To", "<tel:+15550178>")
			}
			srcs[i%len(srcs)].Send(dst, m.Bytes(), id)
			if i%100 == 99 {
				// (about as fast as the receiving side takes them out of the socket: few are dropped by
				// the kernel, most queue up inside the proxy)
				time.Sleep(time.Millisecond)
			}
		}
		// until a sentinel comes through again
		through := false
		for try := 0; try < 40 && !through; try++ {
			bid := fmt.Sprintf("bflood%d", try)
			srcs[0].Send(dst, w.SentinelMsg(wire.Path{UA: 0, Svc: svc, Proto: "udp"}, bid), bid)
			_, through = w.Net.WaitCase(bid, func(o []*wire.Obs) bool { return len(o) > 0 }, 1500*time.Millisecond)
			w.Net.Forget(bid)
		}
		w.Net.Drain()
		for i := 0; i < nflood; i++ {
			w.Net.Forget(fmt.Sprintf("fl%d", i))
		}
		w.Net.Trim()
		afterOK := 0
		for k := 0; through && k < 10; k++ {
			id := fmt.Sprintf("af%d", k)
			m := wire.StdRequest(id, "MESSAGE", fmt.Sprintf("sip:svc%d.verif.test", svc), "udp", "placeholder", 0)
			wire.SetHeader(m, "Via", fmt.Sprintf("SIP/2.0/UDP %s;branch=z9hG4bKvf%s", srcs[0].Addr, id))
			if w.Svcs[svc].HasDef {
				wire.SetHeader(m, "To", "<tel:+15550179>")
			}
			body := []byte(randLetters(g.R, 4000+k*13))
			wire.WithBody(m, body)
			srcs[0].Send(dst, m.Bytes(), id)
			obs, _ := w.Net.WaitCase(id, func(o []*wire.Obs) bool { return len(o) >= 1 }, w.BarrierWait)
			if len(obs) != 1 || obs[0].Msg == nil || !bytes.Equal(obs[0].Msg.Body, body) {
				if len(obs) == 0 && wire.UDPDrops() > 0 && k == 0 {
					run.Inconclusive(1)
					continue
				}
				run.Violation("after a flood of small datagrams a complete 4 KiB datagram sent on its own is not relayed as its own image", map[string]any{"flood": nflood, "datagram": k, "bytes": len(m.Bytes()), "copies_seen": len(obs)})
				break
			}
			afterOK++
			run.Eval(fmt.Sprintf("after-flood|%d", k))
		}
		if !through {
			run.Inconclusive(10)
		}
		run.Observe("complete_datagrams_relayed_after_the_flood", afterOK)
	}
	run.Observe("datagrams_sent", sent)
	run.Observe("datagrams_that_share_method_sent_by_and_branch_with_one_of_another_source", sharedVia)
	run.Observe("datagrams_relayed_as_their_own_image", relayed)
	run.Observe("datagrams_discarded_as_required", discarded)
	run.Observe("udp_kernel_drops", wire.UDPDrops())
	if relayed < total/4 || discarded < total/20 {
		run.Violation("observed-nothing", map[string]any{"relayed": relayed, "discarded": discarded})
	}
	return run.Finish(int64(total) / 2)
}

func min8(n int) int {
	switch {
	case n == 1:
		return 1
	case n <= 3:
		return 3
	default:
		return 8
	}
}
