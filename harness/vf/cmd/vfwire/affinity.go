package main

// Scenario "affinity" (C12): several client TCP connections from one address,
// equal or different Via sent-by values, interleaved transactions; every
// provisional response and the first final response must come back on the
// connection that carried its request.

import (
	"fmt"
	"hash/fnv"
	"strings"
	"time"

	"vf/ev"
	"vf/sip"
	"vf/wire"
)

type afTxn struct {
	id      string
	conn    int
	sentBy  string
	method  string
	reqObs  *wire.Obs
	nprov   int // provisional responses still to send
	final   bool
	started bool
	cseq    string // sequence number of the request
	cancel  bool   // a CANCEL was sent next to the INVITE
}

// afResponse builds the backend's answer to the request it observed.
func afResponse(req *sip.Msg, status int, id, rid string) *sip.Msg {
	resp := &sip.Msg{Start: fmt.Sprintf("SIP/2.0 %d Answer", status)}
	for _, h := range req.Headers {
		switch sip.Canon(h.Name) {
		case "via", "from", "call-id", "cseq":
			resp.Headers = append(resp.Headers, h)
		case "to":
			v := h.Value
			if status > 100 {
				v += ";tag=b" + id
			}
			resp.Headers = append(resp.Headers, sip.Header{Name: h.Name, Value: v})
		}
	}
	resp.Headers = append(resp.Headers, sip.Header{Name: "X-Vf", Value: rid}, sip.Header{Name: "Content-Length", Value: "0"})
	return resp
}

func scenarioAffinity() int {
	run := ev.New("C12", "exploration",
		"2-8 simultaneous client connections to one listener, all from one address, with equal or different Via sent-by values (literals and host-table names) and pairwise distinct branches (some a prefix of another, some equal up to letter case), 1-20 transactions each; "+
			"schedule = PRNG-chosen linear extension of {request < 1xx* < final} per transaction executed step by step (each request awaited at the backend), responses delayed and reordered across connections; "+
			"six further calls ring from the start of the run until at least 62 s later and are answered then; "+
			"oracle = driver's transaction->connection map; the driver also listens on every sent-by address it advertises so that a proxy that dials instead of reusing is seen; distinct = distinct schedules (hash of the event order)")
	w, err := wire.NewWorld(*flagBin, *flagDir, wire.Opts{Services: 8, TCPBackend: true})
	if err != nil {
		fmt.Println("HARNESS-ERROR world:", err)
		return 2
	}
	defer w.Close()
	g := sip.NewGen(shardSeed(run.Seed))
	// TCP listeners on every address a Via sent-by may name
	var decoys []*wire.TCPListener
	for _, u := range w.UAs {
		for _, port := range []int{5060, 5099} {
			l, err := w.Net.Listen(fmt.Sprintf("ua%d:%d/tcp-listener", u.Index, port), fmt.Sprintf("%s:%d", u.IP, port))
			if err != nil {
				fmt.Println("HARNESS-ERROR", err)
				return 2
			}
			decoys = append(decoys, l)
		}
	}
	accepted := func() int {
		n := 0
		for _, l := range decoys {
			n += len(l.Conns())
		}
		return n
	}
	// per UDP backend a second socket on an ephemeral port of the same address
	altSock := map[int][]*wire.UDPEndpoint{}
	for si, sv := range w.Svcs {
		for k, e := range sv.BeUDP {
			a, err := w.Net.UDP(fmt.Sprintf("be%d.%d/alt", si, k+1), e.IP()+":0")
			if err != nil {
				fmt.Println("HARNESS-ERROR", err)
				return 2
			}
			altSock[si] = append(altSock[si], a)
		}
	}
	nsched := *flagCases
	if nsched == 0 {
		nsched = ev.Pick(150, 1200)
	}
	respOK, seq := 0, 0
	// calls that ring for more than a minute: the request goes out now, a 180 comes back now,
	// the final answer only after the whole run and not before 62 s have passed (whatever the
	// proxy does periodically with the connections it remembers happens in between)
	started := time.Now()
	type longCall struct {
		t    *afTxn
		svc  int
		conn *wire.TCPConn
	}
	var long []*longCall
	sendBack := func(svc int, t *afTxn, status int, rid string) {
		sv := w.Svcs[svc]
		resp := afResponse(t.reqObs.Msg, status, t.id, rid)
		if t.reqObs.Proto == "udp" {
			for _, e := range sv.BeUDP {
				if e.Name == t.reqObs.Ep {
					e.Send(fmt.Sprintf("%s:%d", sv.IP, sv.UDP), resp.Bytes(), rid)
				}
			}
		} else {
			for _, l := range sv.BeTCP {
				if c := l.ConnByID(t.reqObs.Conn); c != nil {
					c.Send(resp.Bytes(), rid)
				}
			}
		}
	}
	judgeLong := func(lc *longCall, rid string, status int, phase string, acc0 int) bool {
		w.Net.WaitCase(rid, func(o []*wire.Obs) bool { return len(o) >= 1 }, w.BarrierWait)
		w.Net.Drain()
		obs := w.Net.ForCase(rid)
		var where []string
		for _, o := range obs {
			where = append(where, fmt.Sprintf("%s conn#%d %s<-%s", o.Ep, o.Conn, o.Local, o.Peer))
		}
		if len(obs) != 1 || obs[0].Proto != "tcp" || obs[0].Conn != lc.conn.ID || accepted() != acc0 {
			run.Violation("response of a call that rang for a long time was not written to the connection that carried its request", map[string]any{"service": lc.svc, "no_received": w.Svcs[lc.svc].NoRecv, "transaction": lc.t.id, "sent_by": lc.t.sentBy, "status": status, "phase": phase,
				"seconds_since_start": int(time.Since(started).Seconds()), "request_connection": fmt.Sprintf("conn#%d %s", lc.conn.ID, lc.conn.Local), "response_seen_at": where, "new_inbound_connections_at_driver": accepted() - acc0})
			return false
		}
		respOK++
		return true
	}
	for k := 0; k < 6; k++ {
		sidx := k % len(w.Svcs)
		sv := w.Svcs[sidx]
		ua := w.UAs[k%len(w.UAs)]
		cn, err := w.Net.Dial(fmt.Sprintf("ua%d/long%d", ua.Index, k), ua.IP+":0", fmt.Sprintf("%s:%d", sv.IP, sv.TCP))
		if err != nil {
			continue
		}
		sb := []string{ua.IP + ":5060", ua.Name + ":5060", ua.IP, cn.Local, ua.IP + ":5099", ua.Name}[k%6]
		t := &afTxn{id: fmt.Sprintf("L%d", k), conn: -1, sentBy: sb, method: "INVITE"}
		m := wire.StdRequest(t.id, t.method, fmt.Sprintf("sip:svc%d.verif.test", sidx), "tcp", "placeholder", 0)
		via := fmt.Sprintf("SIP/2.0/TCP %s;branch=z9hG4bKvf%s", sb, t.id)
		if k%2 == 1 {
			via += ";rport"
		}
		wire.SetHeader(m, "Via", via)
		if sv.HasDef {
			wire.SetHeader(m, "To", "<tel:+15550112>")
		}
		cn.Send(m.Bytes(), t.id)
		obs, seen := w.Net.WaitCase(t.id, func(o []*wire.Obs) bool { return len(o) >= 1 }, w.BarrierWait)
		if !seen || !sv.BackendEndpointNames()[obs[0].Ep] || obs[0].Msg == nil {
			run.Inconclusive(1)
			cn.Close(false)
			continue
		}
		t.reqObs = obs[0]
		lc := &longCall{t: t, svc: sidx, conn: cn}
		acc0 := accepted()
		sendBack(sidx, t, 180, t.id+"r180a")
		if judgeLong(lc, t.id+"r180a", 180, "ringing, at once", acc0) {
			long = append(long, lc)
		}
	}
	cseqs, cancels := 0, 0
	for s := 0; s < nsched && run.Violations() <= 6; s++ {
		if h := w.Health(); h != "" {
			run.Violation("proxy died during the run (belongs to C08; the run cannot continue)", map[string]any{"health": h})
			break
		}
		sidx := g.R.Intn(len(w.Svcs))
		sv := w.Svcs[sidx]
		uidx := g.R.Intn(len(w.UAs))
		ua := w.UAs[uidx]
		nconn := 2 + g.R.Intn(7)
		var conns []*wire.TCPConn
		for c := 0; c < nconn; c++ {
			cn, err := w.Net.Dial(fmt.Sprintf("ua%d/c%d", ua.Index, c), ua.IP+":0", fmt.Sprintf("%s:%d", sv.IP, sv.TCP))
			if err != nil {
				break
			}
			conns = append(conns, cn)
		}
		if len(conns) < 2 {
			run.Inconclusive(1)
			continue
		}
		sameSentBy := g.R.Intn(2) == 0
		sentBys := []string{ua.IP + ":5060", ua.Name + ":5060", ua.IP + ":5099", ua.Name, ua.IP, ua.Name + ":5099"}
		// ... and the true socket address of one of the open connections, announced by others too
		sentBys = append(sentBys, conns[g.R.Intn(len(conns))].Local, conns[g.R.Intn(len(conns))].Local)
		// ... and a name that the service's own host table and the global one define differently
		sentBys = append(sentBys, wire.PeerName+":5060", wire.PeerName)
		common := sentBys[g.R.Intn(len(sentBys))]
		var txns []*afTxn
		for c := range conns {
			nt := 1 + g.R.Intn(20)
			if len(conns)*nt > 60 {
				nt = 1 + g.R.Intn(6)
			}
			for t := 0; t < nt; t++ {
				seq++
				sb := common
				if !sameSentBy {
					sb = sentBys[g.R.Intn(len(sentBys))]
				}
				tx := &afTxn{id: fmt.Sprintf("t%d", seq), conn: c, sentBy: sb, method: []string{"INVITE", "OPTIONS", "MESSAGE", "INFO", "REGISTER"}[g.R.Intn(5)], nprov: g.R.Intn(3)}
				txns = append(txns, tx)
				if g.R.Intn(4) == 0 {
					// a second transaction whose branch merely extends this one's (pairwise distinct,
					// but one is a prefix of the other), same method, same announced address
					oc := c
					if g.R.Intn(2) == 0 {
						oc = g.R.Intn(len(conns))
					}
					txns = append(txns, &afTxn{id: tx.id + "x", conn: oc, sentBy: sb, method: tx.method, nprov: 1 + g.R.Intn(2)})
				}
				if g.R.Intn(5) == 0 {
					// two more whose branches differ from each other only in the case of one letter
					oc := g.R.Intn(len(conns))
					txns = append(txns, &afTxn{id: tx.id + "k", conn: c, sentBy: sb, method: tx.method, nprov: 1 + g.R.Intn(2)},
						&afTxn{id: tx.id + "K", conn: oc, sentBy: sb, method: tx.method, nprov: 1 + g.R.Intn(2)})
				}
			}
		}
		// step-by-step execution of a random linear extension
		hsh := fnv.New64a()
		var trace []string
		ok := true
		acc0 := accepted()
		for ok {
			var ready []*afTxn
			for _, t := range txns {
				if !t.final {
					ready = append(ready, t)
				}
			}
			if len(ready) == 0 {
				break
			}
			t := ready[g.R.Intn(len(ready))]
			switch {
			case !t.started:
				t.started = true
				m := wire.StdRequest(t.id, t.method, fmt.Sprintf("sip:svc%d.verif.test", sidx), "tcp", "placeholder", 0)
				wire.SetHeader(m, "Via", fmt.Sprintf("SIP/2.0/TCP %s;branch=z9hG4bKvf%s", t.sentBy, t.id))
				if sv.HasDef {
					wire.SetHeader(m, "To", "<tel:+15550111>")
				}
				// sequence numbers over the whole range RFC 3261 allows (0 .. 2**31-1), the ends included
				cseqs++
				t.cseq = fmt.Sprint([]int64{1, 0, 2147483647, 2147483646, 65536, 4294967, int64(1 + g.R.Intn(1<<31-1)), int64(cseqs)}[cseqs%8])
				wire.SetHeader(m, "CSeq", t.cseq+" "+t.method)
				conns[t.conn].Send(m.Bytes(), t.id)
				obs, seen := w.Net.WaitCase(t.id, func(o []*wire.Obs) bool { return len(o) >= 1 }, w.BarrierWait)
				if !seen || !sv.BackendEndpointNames()[obs[0].Ep] || obs[0].Msg == nil {
					run.Inconclusive(1)
					t.final = true
					continue
				}
				t.reqObs = obs[0]
				fmt.Fprintf(hsh, "q%d.", t.conn)
				trace = append(trace, fmt.Sprintf("req %s on c%d (sent-by %s)", t.id, t.conn, t.sentBy))
			default:
				status := 200
				bigFirst := ""
				if t.nprov == 1 && t.reqObs.Proto == "udp" && g.R.Intn(3) == 0 {
					// the last provisional answer is a big one (183 with a session description) and the
					// final answer follows it in the same breath, from the same socket
					t.nprov = 0
					bigFirst = t.id + "r183big"
					big := afResponse(t.reqObs.Msg, 183, t.id, bigFirst)
					wire.WithBody(big, []byte(strings.Repeat("a=rtpmap:96 opus/48000/2\r\n", 70)))
					for _, e := range sv.BeUDP {
						if e.Name == t.reqObs.Ep {
							e.Send(fmt.Sprintf("%s:%d", sv.IP, sv.UDP), big.Bytes(), bigFirst)
						}
					}
					trace = append(trace, fmt.Sprintf("big 183 and at once the final answer for %s (c%d)", t.id, t.conn))
				}
				if t.nprov == 0 && t.method == "INVITE" && !t.cancel && t.cseq != "" && bigFirst == "" && g.R.Intn(2) == 0 {
					// the caller gives up: a CANCEL on the connection of the INVITE, same Via (same branch),
					// same Call-ID, tags and sequence number. Its 200 comes back on that connection - and so
					// does the final answer of the INVITE afterwards.
					t.cancel = true
					cid := t.id + "c"
					cm := wire.StdRequest(cid, "CANCEL", fmt.Sprintf("sip:svc%d.verif.test", sidx), "tcp", "placeholder", 0)
					wire.SetHeader(cm, "Via", fmt.Sprintf("SIP/2.0/TCP %s;branch=z9hG4bKvf%s", t.sentBy, t.id))
					wire.SetHeader(cm, "From", "<sip:alice@ua.verif.test>;tag=f"+t.id)
					wire.SetHeader(cm, "Call-ID", t.id+"@vf")
					wire.SetHeader(cm, "CSeq", t.cseq+" CANCEL")
					if sv.HasDef {
						wire.SetHeader(cm, "To", "<tel:+15550111>")
					}
					conns[t.conn].Send(cm.Bytes(), cid)
					cobs, seen := w.Net.WaitCase(cid, func(o []*wire.Obs) bool { return len(o) >= 1 }, w.BarrierWait)
					if seen && sv.BackendEndpointNames()[cobs[0].Ep] && cobs[0].Msg != nil {
						crid := cid + "r200f"
						cresp := afResponse(cobs[0].Msg, 200, cid, crid)
						if cobs[0].Proto == "udp" {
							for _, e := range sv.BeUDP {
								if e.Name == cobs[0].Ep {
									e.Send(fmt.Sprintf("%s:%d", sv.IP, sv.UDP), cresp.Bytes(), crid)
								}
							}
						} else {
							for _, l := range sv.BeTCP {
								if c := l.ConnByID(cobs[0].Conn); c != nil {
									c.Send(cresp.Bytes(), crid)
								}
							}
						}
						w.Net.WaitCase(crid, func(o []*wire.Obs) bool { return len(o) >= 1 }, w.BarrierWait)
						w.Net.Drain()
						co := w.Net.ForCase(crid)
						cancels++
						trace = append(trace, fmt.Sprintf("CANCEL next to %s on c%d, answered 200", t.id, t.conn))
						if len(co) != 1 || co[0].Proto != "tcp" || co[0].Conn != conns[t.conn].ID || accepted()-acc0 != 0 {
							var where []string
							for _, o := range co {
								where = append(where, fmt.Sprintf("%s conn#%d %s<-%s", o.Ep, o.Conn, o.Local, o.Peer))
							}
							run.Violation("the answer to a CANCEL was not written to the connection that carried it", map[string]any{"transaction": t.id, "connection": t.conn, "seen_at": where, "new_inbound_connections_at_driver": accepted() - acc0, "last_steps": trace})
						}
					}
				}
				if t.nprov > 0 {
					t.nprov--
					status = []int{100, 180, 183}[g.R.Intn(3)]
				} else {
					t.final = true
					status = []int{200, 404, 486, 503, 603, 302}[g.R.Intn(6)]
					if t.cancel {
						status = 487
					}
				}
				rid := fmt.Sprintf("%sr%d", t.id, status)
				if t.final {
					rid += "f"
				} else {
					rid += fmt.Sprint(t.nprov)
				}
				resp := afResponse(t.reqObs.Msg, status, t.id, rid)
				if t.reqObs.Proto == "udp" {
					for k, e := range sv.BeUDP {
						if e.Name == t.reqObs.Ep {
							if bigFirst == "" && g.R.Intn(4) == 0 && altSock[sidx] != nil && altSock[sidx][k] != nil {
								// the backend answers from another source port than it listens on
								altSock[sidx][k].Send(fmt.Sprintf("%s:%d", sv.IP, sv.UDP), resp.Bytes(), rid)
							} else {
								e.Send(fmt.Sprintf("%s:%d", sv.IP, sv.UDP), resp.Bytes(), rid)
							}
						}
					}
				} else {
					for _, l := range sv.BeTCP {
						if c := l.ConnByID(t.reqObs.Conn); c != nil {
							c.Send(resp.Bytes(), rid)
						}
					}
				}
				fmt.Fprintf(hsh, "r%d/%d.", t.conn, status/100)
				trace = append(trace, fmt.Sprintf("%d for %s (c%d)", status, t.id, t.conn))
				if len(trace) > 30 {
					trace = trace[1:]
				}
				obs, _ := w.Net.WaitCase(rid, func(o []*wire.Obs) bool { return len(o) >= 1 }, w.BarrierWait)
				if bigFirst != "" {
					w.Net.WaitCase(bigFirst, func(o []*wire.Obs) bool { return len(o) >= 1 }, w.BarrierWait)
				}
				w.Net.Drain()
				obs = w.Net.ForCase(rid)
				want := conns[t.conn]
				var where []string
				for _, o := range obs {
					where = append(where, fmt.Sprintf("%s conn#%d %s<-%s", o.Ep, o.Conn, o.Local, o.Peer))
				}
				newConns := accepted() - acc0
				bad := len(obs) != 1 || obs[0].Proto != "tcp" || obs[0].Conn != want.ID || newConns != 0
				if !bad && bigFirst != "" {
					// the provisional answer sent right before it
					obs = w.Net.ForCase(bigFirst)
					where = nil
					for _, o := range obs {
						where = append(where, fmt.Sprintf("%s conn#%d %s<-%s", o.Ep, o.Conn, o.Local, o.Peer))
					}
					bad = len(obs) != 1 || obs[0].Proto != "tcp" || obs[0].Conn != want.ID
					status = 183
					respOK++
				}
				if bad {
					key := "response not written to the connection that carried its request"
					switch {
					case newConns != 0:
						key = "the proxy opened a new connection towards the client instead of reusing the request's connection"
					case len(obs) == 0:
						key = "response to a TCP request came back on no connection"
					}
					run.Violation(key, map[string]any{"service": sidx, "no_received": sv.NoRecv, "transaction": t.id, "sent_by": t.sentBy, "status": status,
						"request_connection": fmt.Sprintf("conn#%d %s", want.ID, want.Local), "response_seen_at": where, "new_inbound_connections_at_driver": newConns, "same_sent_by_on_all_connections": sameSentBy, "last_steps": trace})
					ok = false
					break
				}
				respOK++
			}
		}
		for _, c := range conns {
			c.Close(false)
		}
		if ok {
			run.Eval(fmt.Sprintf("%x", hsh.Sum64()))
			if run.WantSample() && len(trace) > 6 {
				run.Sample(map[string]any{"service": sidx, "no_received": sv.NoRecv, "connections": len(conns), "transactions": len(txns), "same_sent_by": sameSentBy, "last_steps": trace})
			}
		}
		w.Net.Trim()
		time.Sleep(time.Millisecond)
	}
	// the long calls are answered now
	if run.Violations() <= 6 && len(long) > 0 {
		if d := 62*time.Second - time.Since(started); d > 0 {
			time.Sleep(d)
		}
		longOK := 0
		for _, lc := range long {
			acc0 := accepted()
			sendBack(lc.svc, lc.t, 183, lc.t.id+"r183b")
			if !judgeLong(lc, lc.t.id+"r183b", 183, "still ringing after the wait", acc0) {
				continue
			}
			acc0 = accepted()
			sendBack(lc.svc, lc.t, 200, lc.t.id+"r200f")
			if judgeLong(lc, lc.t.id+"r200f", 200, "answered after the wait", acc0) {
				longOK++
				run.Eval(fmt.Sprintf("long-call|svc%d|%s", lc.svc, lc.t.sentBy))
			}
			lc.conn.Close(false)
		}
		run.Observe("calls_answered_after_ringing_for_more_than_a_minute", longOK)
		run.Observe("seconds_the_long_calls_were_pending", int(time.Since(started).Seconds()))
	}
	if w.Net.Sniffing() {
		// the egress monitor: in this scenario every request reaches the proxy over a connection
		// the client opened, so the proxy has no reason ever to open one towards a client
		// address - wherever that attempt goes, also to a port where nobody listens
		pk, _ := w.Net.EgressSince(0)
		var dials []string
		uaPrefix := fmt.Sprintf("127.%d.100.", w.Plan.B)
		for _, e := range pk {
			if e.Syn && w.FromProxy(e) && strings.HasPrefix(e.DstIP, uaPrefix) {
				dials = append(dials, e.Src+" -> "+e.Dst)
			}
		}
		run.Observe("egress_monitor_running", true)
		run.Observe("packets_seen_by_the_egress_monitor", w.Net.SnifferPackets())
		run.Observe("connection_attempts_of_the_proxy_towards_client_addresses", len(dials))
		if len(dials) > 0 && run.Violations() == 0 {
			if len(dials) > 8 {
				dials = dials[:8]
			}
			run.Violation("the proxy opened a connection towards a client address instead of using the connection the request came on (seen by the egress monitor on the loopback device)", map[string]any{"connection_attempts": dials})
		}
	}
	run.Observe("invites_with_a_cancel_next_to_them", cancels)
	run.Observe("responses_on_the_right_connection", respOK)
	run.Observe("schedules", nsched)
	if respOK < nsched {
		run.Violation("observed-nothing", map[string]any{"responses": respOK})
	}
	return run.Finish(int64(nsched) / 2)
}
