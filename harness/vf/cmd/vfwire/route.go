package main

// Scenario "route": the C03 decision table, judged for C03 (destination) or
// C13 (Route consumption and remainder) depending on -prop.

import (
	"fmt"
	"strings"

	"vf/ev"
	"vf/sip"
	"vf/wire"
)

type routeCase struct {
	id    string
	path  wire.Path
	msg   *sip.Msg
	rreq  wire.RReq
	cell  string
	model wire.Dest
	nobs  int
	// unobservable: the model's destination when no driver socket is there (the socket
	// oracle then treats the case like a drop; the egress monitor knows better)
	unobservable *wire.Dest
}

func scenarioRoute() int {
	prop := *flagProp
	rule := "decision table {Route shape} x {To host kind} x {Request-URI kind} x {keep-next-hop} x {next-hop transport} x {UDP,TCP ingress} on 16 services, each cell instantiated with generated URIs, ports, parameters and layouts; one case - one barrier; "
	if prop == "C13" {
		rule += "oracle = expected Route remainder (own entry consumed iff it designates the receiving listener; next hop kept/stripped by keep-next-hop-route; rest byte-identical); distinct = decision cells observed"
	} else {
		rule += "oracle = routing model (Route > static route > service backend > drop; unsupported transport drops); every observation socket is checked behind the barrier; distinct = decision cells observed"
	}
	run := ev.New(prop, "exploration", rule)
	w, err := wire.NewWorld(*flagBin, *flagDir, wire.Opts{Services: 16, TCPBackend: true, Mutate: func(c *wire.Config, p wire.Plan) {
		// two services listen on neither transport at 5060: a name without port is no way to say them
		for _, s := range []int{6, 14} {
			c.Services[s].Listens[0].UDPPort = 5080
		}
	}})
	if err != nil {
		fmt.Println("HARNESS-ERROR world:", err)
		return 2
	}
	defer w.Close()
	// the highest port there is, at two of the next hops
	for _, h := range w.Hops[:2] {
		if e, err := w.Net.UDP(fmt.Sprintf("nh:%s:65535/udp", h.IP), h.IP+":65535"); err == nil {
			h.UDP[65535] = e
		}
	}
	g := sip.NewGen(shardSeed(run.Seed))
	n := *flagCases
	if n == 0 {
		n = ev.Pick(2500, 40000)
	}
	var cases []*routeCase
	var dialIns []*wire.TCPConn
	hopDialIns := 0
	relayed, dropped := 0, 0
	egressChecked, egressDrops := 0, 0
	cancelPairs := 0
	for i := 0; i < n; i++ {
		if h := w.Health(); h != "" {
			run.Violation("proxy died during the run (belongs to C08; the run cannot continue)", map[string]any{"health": h})
			break
		}
		if i%25 == 0 {
			// a next hop is also a client: it connects to a listener from an ephemeral port and sends
			// a request whose Via names the address it listens on. The connection stays open. What is
			// routed to that address later still has to arrive at its listener.
			h := w.Hops[g.R.Intn(len(w.Hops))]
			sv := w.Svcs[g.R.Intn(len(w.Svcs))]
			if cn, err := w.Net.Dial(fmt.Sprintf("nh/dial-in%d", i), h.IP+":0", fmt.Sprintf("%s:%d", sv.IP, sv.TCP)); err == nil {
				id := fmt.Sprintf("di%d", i)
				via := fmt.Sprintf("%s:%d", []string{h.IP, h.Name}[g.R.Intn(2)], wire.NextHopPortB)
				raw := fmt.Sprintf("OPTIONS sip:sentinel@sentinel.verif.test SIP/2.0\r\nVia: SIP/2.0/TCP %s;branch=z9hG4bKvf%s\r\nRoute: <sip:%s:%d;lr>\r\nMax-Forwards: 70\r\nFrom: <sip:hop@%s>;tag=h\r\nTo: <sip:sentinel@sentinel.verif.test>\r\nCall-ID: %s@vf\r\nCSeq: 1 OPTIONS\r\nX-Vf: %s\r\nContent-Length: 0\r\n\r\n",
					via, id, w.Plan.Sentinel(), wire.SentinelUDP, h.IP, id, id)
				cn.Send([]byte(raw), id)
				w.Net.WaitCase(id, func(o []*wire.Obs) bool { return len(o) >= 1 }, w.BarrierWait)
				w.Net.Forget(id)
				dialIns = append(dialIns, cn)
				if len(dialIns) > 6 {
					dialIns[0].Close(false)
					dialIns = dialIns[1:]
				}
				hopDialIns++
			}
		}
		c := genRouteCase(w, g, i)
		c.model = w.RouteModel(c.path.Svc, c.path.Proto, c.rreq)
		if !c.model.Drop && !c.model.Backend && !w.Observable(c.model.Proto, c.model.IP, c.model.Port) {
			// the model's destination is an address where the driver has no socket
			// (e.g. the proxy's own address with a wrong port): nothing can be seen,
			// and nothing must be seen anywhere else
			c.unobservable = &wire.Dest{Proto: c.model.Proto, IP: c.model.IP, Port: c.model.Port}
			c.model.Drop, c.model.Why = true, "destination "+c.model.String()+" is not observable"
		}
		pairWithCancel := i%7 == 3 && len(c.rreq.Routes) > 0
		if pairWithCancel {
			// this one is an INVITE; a CANCEL with the same Via, Call-ID, sequence number and Route set
			// follows it (same routing, same Route handling)
			if sp := strings.IndexByte(c.msg.Start, ' '); sp > 0 {
				c.msg.Start = "INVITE" + c.msg.Start[sp:]
			}
			for k, h := range c.msg.Headers {
				if sip.Canon(h.Name) == "cseq" {
					if f := strings.Fields(h.Value); len(f) == 2 {
						c.msg.Headers[k].Value = f[0] + " INVITE"
					}
				}
			}
		}
		if err := w.Send(c.path, c.msg.Bytes(), c.id); err != nil {
			w.DropConn(c.path)
			run.Inconclusive(1)
			continue
		}
		if !c.model.Drop {
			w.Net.WaitCase(c.id, func(o []*wire.Obs) bool { return len(o) >= 1 }, w.BarrierWait)
		}
		if !w.Barrier(c.path) {
			run.Inconclusive(1)
			w.DropConn(c.path)
			continue
		}
		obs := w.Net.ForCase(c.id)
		c.nobs = len(obs)
		judgeRoute(run, w, prop, c, obs)
		if prop == "C03" && w.EgressReady {
			egressChecked++
			judgeEgress(run, w, c)
		}
		if pairWithCancel && c.msg != nil && run.Violations() <= 10 {
			c2 := *c
			c2.id = c.id + "k"
			m2 := c.msg.Clone()
			if sp := strings.IndexByte(m2.Start, ' '); sp > 0 {
				m2.Start = "CANCEL" + m2.Start[sp:]
			}
			for k, h := range m2.Headers {
				switch sip.Canon(h.Name) {
				case "cseq":
					if f := strings.Fields(h.Value); len(f) == 2 {
						m2.Headers[k].Value = f[0] + " CANCEL"
					}
				case "x-vf":
					m2.Headers[k].Value = c2.id
				}
			}
			c2.msg = m2
			c2.cell = c.cell + " cancel-after-its-invite"
			if w.Send(c2.path, m2.Bytes(), c2.id) == nil {
				if !c2.model.Drop {
					w.Net.WaitCase(c2.id, func(o []*wire.Obs) bool { return len(o) >= 1 }, w.BarrierWait)
				}
				if w.Barrier(c2.path) {
					obs2 := w.Net.ForCase(c2.id)
					c2.nobs = len(obs2)
					judgeRoute(run, w, prop, &c2, obs2)
					cancelPairs++
					cc := c2
					cc.msg = nil
					cases = append(cases, &cc)
				}
			}
		}
		if i%200 == 199 {
			if d := w.Net.SnifferDrops(); d > 0 {
				egressDrops += d
			}
			w.Net.TrimEgress()
		}
		if len(obs) > 0 {
			relayed++
		} else {
			dropped++
		}
		if run.WantSample() && i > 20 && len(c.rreq.Routes) > 1 {
			run.Sample(map[string]any{"cell": c.cell, "ingress": c.path.Proto, "service": c.path.Svc, "request": string(c.msg.Bytes()), "model": c.model.String(), "expected_route": c.model.Routes})
		}
		c.msg = nil
		cases = append(cases, c)
		if i%500 == 499 {
			w.Net.Trim()
		}
		if run.Violations() > 10 {
			break
		}
	}
	// many destinations: one listener relays to a couple of hundred distinct next hops (one
	// address, a port each), then to every one of them again, twice: each request arrives at
	// the next hop its Route entry names, however many others the listener has sent to before
	manyRelayed := 0
	if prop == "C03" && run.Violations() <= 10 {
		ndst := ev.Pick(150, 700)
		hop := w.Hops[0]
		type dst struct {
			ep   *wire.UDPEndpoint
			port int
		}
		var dsts []dst
		for k := 0; k < ndst; k++ {
			port := 20000 + k
			ep, err := w.Net.UDP(fmt.Sprintf("many%d", k), fmt.Sprintf("%s:%d", hop.IP, port))
			if err != nil {
				continue
			}
			dsts = append(dsts, dst{ep, port})
		}
		p := wire.Path{UA: 0, Svc: g.R.Intn(len(w.Svcs)), Proto: "udp"}
		type mc struct {
			id   string
			want string
		}
		for pass := 0; pass < 3 && run.Violations() <= 10; pass++ {
			var sentCases []mc
			order := g.R.Perm(len(dsts))
			if pass == 0 {
				for i := range order {
					order[i] = i
				}
			}
			for n0, di := range order {
				d := dsts[di]
				id := fmt.Sprintf("many%d-%d", pass, di)
				m := wire.StdRequest(id, "OPTIONS", "sip:x@foreign.example", "udp", w.UAs[0].IP, wire.UDPPort)
				wire.InsertBefore(m, "from", sip.Header{Name: "Route", Value: fmt.Sprintf("<sip:%s:%d;lr>", hop.IP, d.port)})
				w.Send(p, m.Bytes(), id)
				sentCases = append(sentCases, mc{id, fmt.Sprintf("many%d", di)})
				if n0%32 == 31 {
					w.Net.WaitCase(id, func(o []*wire.Obs) bool { return len(o) >= 1 }, w.BarrierWait)
				}
			}
			if !w.Barrier(p) {
				run.Inconclusive(1)
				break
			}
			for _, c := range sentCases {
				obs := w.Net.ForCase(c.id)
				if len(obs) == 0 {
					w.Net.WaitCase(c.id, func(o []*wire.Obs) bool { return len(o) >= 1 }, w.BarrierWait)
					obs = w.Net.ForCase(c.id)
				}
				var at []string
				for _, o := range obs {
					at = append(at, o.Ep)
				}
				if len(obs) != 1 || obs[0].Ep != c.want {
					run.Violation("a request routed to one of many next hops did not arrive exactly once at the hop its Route entry names", map[string]any{"pass": pass, "distinct_next_hops_of_the_listener": len(dsts), "expected_at": c.want, "observed_at": at, "case": c.id})
					break
				}
				manyRelayed++
				run.Eval(fmt.Sprintf("many-destinations|pass%d", pass))
			}
			w.Net.Trim()
		}
		run.Observe("distinct_udp_next_hops_of_one_listener", len(dsts))
		run.Observe("requests_relayed_to_them", manyRelayed)
	}
	// precedence does not depend on dialog state: a call is set up through the proxy (INVITE to a
	// backend, answered by it with both tags), then the callee's side sends a request of that
	// dialog whose To host has a static route - rule 2 still comes before rule 3
	inDialogStatic := 0
	if prop == "C03" && run.Violations() <= 10 {
		for round := 0; round < ev.Pick(12, 120) && run.Violations() <= 10; round++ {
			svc := -1
			for k := 0; k < len(w.Svcs); k++ {
				if s := (round + k) % len(w.Svcs); !w.Svcs[s].HasDef && len(w.Svcs[s].BeUDP) > 0 {
					svc = s
					break
				}
			}
			if svc < 0 {
				break
			}
			sv := w.Svcs[svc]
			p := wire.Path{UA: round % len(w.UAs), Svc: svc, Proto: []string{"udp", "tcp"}[round%2]}
			ua := w.UAs[p.UA]
			id := fmt.Sprintf("ds%d", round)
			aTag, bTag := "a"+g.Alnum(4, 8), "b"+g.Alnum(4, 8)
			inv := wire.StdRequest(id, "INVITE", fmt.Sprintf("sip:svc%d.verif.test", svc), p.Proto, ua.IP, wire.UDPPort)
			wire.SetHeader(inv, "From", "<sip:alice@exact.verif.test>;tag="+aTag)
			wire.SetHeader(inv, "To", "<sip:bob@nomatch.example>")
			if w.Send(p, inv.Bytes(), id) != nil {
				continue
			}
			obs, seen := w.Net.WaitCase(id, func(o []*wire.Obs) bool { return len(o) >= 1 }, w.BarrierWait)
			if !seen || !sv.BackendEndpointNames()[obs[0].Ep] || obs[0].Msg == nil || obs[0].Proto != "udp" {
				w.Barrier(p)
				continue // rotated onto the TCP backend, or not relayed (judged elsewhere)
			}
			rid := id + "x200"
			resp := &sip.Msg{Start: "SIP/2.0 200 OK"}
			for _, h := range obs[0].Msg.Headers {
				switch sip.Canon(h.Name) {
				case "via", "from", "call-id", "cseq":
					resp.Headers = append(resp.Headers, h)
				case "to":
					resp.Headers = append(resp.Headers, sip.Header{Name: h.Name, Value: h.Value + ";tag=" + bTag})
				}
			}
			resp.Headers = append(resp.Headers, sip.Header{Name: "X-Vf", Value: rid}, sip.Header{Name: "Content-Length", Value: "0"})
			for _, e := range sv.BeUDP {
				if e.Name == obs[0].Ep {
					e.Send(fmt.Sprintf("%s:%d", sv.IP, sv.UDP), resp.Bytes(), rid)
				}
			}
			if _, ok := w.Net.WaitCase(rid, func(o []*wire.Obs) bool { return len(o) >= 1 }, w.BarrierWait); !ok {
				continue
			}
			// the callee's side: From / To swapped, To host exact.verif.test has a static route
			for k, method := range []string{"INFO", "BYE"} {
				qid := fmt.Sprintf("%sq%d", id, k)
				q := wire.StdRequest(qid, method, fmt.Sprintf("sip:svc%d.verif.test", svc), p.Proto, ua.IP, wire.UDPPort)
				wire.SetHeader(q, "From", "<sip:bob@nomatch.example>;tag="+bTag)
				wire.SetHeader(q, "To", "<sip:alice@exact.verif.test>;tag="+aTag)
				wire.SetHeader(q, "Call-ID", id+"@vf")
				if w.Send(p, q.Bytes(), qid) != nil {
					break
				}
				w.Net.WaitCase(qid, func(o []*wire.Obs) bool { return len(o) >= 1 }, w.BarrierWait)
				if !w.Barrier(p) {
					break
				}
				qo := w.Net.ForCase(qid)
				want := fmt.Sprintf("%s:%d", w.Hops[0].IP, wire.NextHopPortA)
				var at []string
				for _, o := range qo {
					at = append(at, fmt.Sprintf("%s %s", o.Ep, o.Local))
				}
				if len(qo) != 1 || qo[0].Proto != "udp" || qo[0].Local != want {
					run.Violation("a request of an established dialog whose To host has a static route did not go to that route's next hop", map[string]any{"service": svc, "ingress": p.Proto, "request": string(q.Bytes()), "static_route_next_hop": "udp " + want, "observed_at": at, "dialog": "INVITE relayed to " + obs[0].Ep + " and answered 200 with both tags from there"})
					break
				}
				inDialogStatic++
				run.Eval("in-dialog-request-with-static-route|" + method + "|" + p.Proto)
			}
		}
		run.Observe("requests_of_established_dialogs_routed_by_a_static_route", inDialogStatic)
	}
	// late arrivals: anything that turned up after its case had been judged
	w.Net.Drain()
	for _, c := range cases {
		if k := len(w.Net.ForCase(c.id)); k != c.nobs {
			run.Violation("output arrived after the barrier of its case", map[string]any{"case": c.id, "cell": c.cell, "judged_with": c.nobs, "final": k})
		}
	}
	run.Observe("egress_monitor_running", w.Net.Sniffing())
	run.Observe("cases_whose_every_packet_on_the_loopback_device_was_checked", egressChecked)
	run.Observe("packets_seen_by_the_egress_monitor", w.Net.SnifferPackets())
	run.Observe("packets_dropped_by_the_egress_monitor", egressDrops)
	run.Observe("connections_opened_by_next_hops_towards_the_proxy", hopDialIns)
	run.Observe("invites_followed_by_their_cancel", cancelPairs)
	run.Observe("cases_relayed", relayed)
	run.Observe("cases_dropped", dropped)
	run.Observe("barriers", w.Barriers)
	run.Observe("barrier_timeouts", w.BarrierMisses)
	run.Observe("udp_kernel_drops", wire.UDPDrops())
	if relayed < n/10 {
		run.Violation("observed-nothing", map[string]any{"relayed": relayed, "cases": n})
	}
	return run.Finish(int64(n) / 2)
}

// judgeEgress: every packet the proxy sent for this case, as the egress monitor saw it on
// the loopback device - also towards addresses where no driver socket listens. A request the
// model drops must not leave the proxy at all; a request with a destination must leave for
// that destination only (packets to the proxy's own listeners are the request re-entering).
func judgeEgress(run *ev.Run, w *wire.World, c *routeCase) {
	sv := w.Svcs[c.model.Svc]
	var stray []string
	for _, e := range w.Net.EgressForCase(c.id) {
		if !e.Req || !w.FromProxy(e) || w.ToProxy(e) {
			continue
		}
		ok := false
		switch {
		case c.unobservable != nil:
			// no driver socket there, but the monitor sees what leaves for it
			ok = e.Proto == c.unobservable.Proto && e.Dst == fmt.Sprintf("%s:%d", c.unobservable.IP, c.unobservable.Port)
		case c.model.Drop:
		case c.model.Backend:
			for _, b := range sv.BeUDP {
				if e.Proto == "udp" && e.Dst == b.Addr {
					ok = true
				}
			}
			for _, l := range sv.BeTCP {
				if e.Proto == "tcp" && e.Dst == l.Addr {
					ok = true
				}
			}
		default:
			ok = e.Proto == c.model.Proto && e.Dst == fmt.Sprintf("%s:%d", c.model.IP, c.model.Port)
		}
		if !ok {
			stray = append(stray, fmt.Sprintf("%s %s -> %s (%d bytes)", e.Proto, e.Src, e.Dst, e.Len))
		}
	}
	if len(stray) > 0 {
		why := "the proxy sent the request to a destination other than the one next hop the precedence rules choose (seen by the egress monitor on the loopback device)"
		d := map[string]any{"why": why, "cell": c.cell, "ingress": c.path.Proto, "service": c.path.Svc, "model": c.model.String(), "model_rule": c.model.Rule, "stray_packets": stray}
		if c.msg != nil {
			d["request"] = string(c.msg.Bytes())
		}
		run.Violation(why, d)
	}
}

func judgeRoute(run *ev.Run, w *wire.World, prop string, c *routeCase, obs []*wire.Obs) {
	sv := w.Svcs[c.model.Svc]
	where := func() []string {
		var s []string
		for _, o := range obs {
			s = append(s, fmt.Sprintf("%s %s (from %s)", o.Ep, o.Local, o.Peer))
		}
		return s
	}
	detail := func(why string) map[string]any {
		d := map[string]any{"why": why, "cell": c.cell, "ingress": c.path.Proto, "service": c.path.Svc, "model": c.model.String(), "model_rule": c.model.Rule, "observed_at": where()}
		if c.msg != nil {
			d["request"] = string(c.msg.Bytes())
		}
		if len(obs) > 0 {
			d["first_output"] = string(obs[0].Raw)
		}
		return d
	}
	atModelDest := func(o *wire.Obs) bool {
		if c.model.Backend {
			return sv.BackendEndpointNames()[o.Ep]
		}
		return o.Proto == c.model.Proto && o.Local == fmt.Sprintf("%s:%d", c.model.IP, c.model.Port)
	}
	routeInvolved := len(c.rreq.Routes) > 0
	if prop == "C03" || (prop == "C13" && routeInvolved) {
		switch {
		case c.model.Drop && len(obs) > 0:
			why := "a request the model drops was sent somewhere"
			if prop == "C13" {
				why = "Route consumption differs from the model: request arrived although the model's next hop drops it"
			}
			run.Violation(why, detail(why))
			return
		case !c.model.Drop && len(obs) == 0:
			// confirm by isolated replay before calling it a violation
			if replayRoute(w, c) == 0 {
				why := "request was sent nowhere although the model chooses a destination"
				run.Violation(why, detail(why))
			} else {
				run.Inconclusive(1)
			}
			return
		case !c.model.Drop && len(obs) > 1:
			why := "request observed at more than one socket / more than once"
			run.Violation(why, detail(why))
			return
		case !c.model.Drop && !atModelDest(obs[0]):
			why := "request observed at a socket other than the model's choice"
			run.Violation(why, detail(why))
			return
		}
	}
	if prop == "C13" && len(obs) == 1 && obs[0].Msg != nil {
		got := obs[0].Msg.List("route")
		want := c.model.Routes
		if strings.Join(got, "\x00") != strings.Join(want, "\x00") {
			why := "relayed Route list differs from the expected remainder"
			d := detail(why)
			d["want_route"] = want
			d["got_route"] = got
			run.Violation(why, d)
			return
		}
	}
	if len(obs) > 0 || c.model.Drop {
		run.Eval(c.cell)
	} else {
		run.Eval("")
	}
}

// replayRoute re-sends the case alone (fresh id) and reports how many outputs arrive.
func replayRoute(w *wire.World, c *routeCase) int {
	if c.msg == nil {
		return 0
	}
	id := c.id + "r"
	m := c.msg.Clone()
	for i, h := range m.Headers {
		m.Headers[i].Value = strings.ReplaceAll(h.Value, c.id, id)
	}
	if w.Send(c.path, m.Bytes(), id) != nil {
		return 0
	}
	obs, _ := w.Net.WaitCase(id, func(o []*wire.Obs) bool { return len(o) >= 1 }, w.BarrierWait)
	w.Barrier(c.path)
	return len(obs)
}

// entry builds one Route entry around a forced host/port/transport.
func routeEntry(g *sip.Gen, host string, port int, transport string, decorate bool) wire.RouteEntry {
	u := sip.URI{Scheme: "sip", Host: host}
	if port > 0 {
		u.Port = fmt.Sprint(port)
	}
	if decorate && g.R.Intn(3) == 0 {
		u.User = g.Alnum(1, 8)
	}
	var ps []sip.KV
	if transport != "" {
		ps = append(ps, sip.KV{K: "transport", V: transport, HasVal: true})
	}
	if g.R.Intn(4) != 0 {
		ps = append(ps, sip.KV{K: "lr"})
	}
	if decorate {
		if g.R.Intn(3) == 0 {
			ps = append(ps, sip.KV{K: g.Alnum(2, 6)})
		}
		if g.R.Intn(3) == 0 {
			ps = append(ps, sip.KV{K: "x" + g.Alnum(1, 5), V: g.Alnum(1, 6) + "%41", HasVal: true})
		}
		g.R.Shuffle(len(ps), func(i, j int) { ps[i], ps[j] = ps[j], ps[i] })
	}
	u.Params = ps
	na := sip.NameAddr{Bracket: true, URI: u}
	if decorate && g.R.Intn(4) == 0 {
		na.Display, _ = g.DisplayName()
	}
	if decorate && g.R.Intn(3) == 0 {
		na.Params = append(na.Params, sip.KV{K: "hp" + g.Alnum(1, 3), V: g.Alnum(1, 5), HasVal: true})
		if g.R.Intn(2) == 0 {
			na.Params = append(na.Params, sip.KV{K: "flag" + g.Alnum(1, 3)})
		}
	}
	return wire.RouteEntry{Text: na.String(), Host: host, Port: port, Transport: transport}
}

// route sets seen earlier, per (service, ingress transport): a dialog sends the same lines again
type routeMemoT struct {
	entries []wire.RouteEntry
	values  []string
	name    string
	cell    string
}

var routeMemo = map[string][]routeMemoT{}

func genRouteCase(w *wire.World, g *sip.Gen, i int) *routeCase {
	c := &routeCase{id: fmt.Sprintf("r%d", i)}
	sidx := g.R.Intn(len(w.Svcs))
	sv := w.Svcs[sidx]
	c.path = wire.Path{UA: g.R.Intn(len(w.UAs)), Svc: sidx, Proto: []string{"udp", "tcp"}[g.R.Intn(2)]}
	ua := w.UAs[c.path.UA]
	myPort := sv.UDP
	if c.path.Proto == "tcp" {
		myPort = sv.TCP
	}
	var cell []string
	// --- Route shape
	ownEntry := func() (wire.RouteEntry, string) {
		if g.R.Intn(6) == 0 {
			// the name every service has in its own host table for its own listener
			return routeEntry(g, wire.SelfName, myPort, "", true), "own:self-name"
		}
		switch g.R.Intn(4) {
		case 0:
			return routeEntry(g, sv.IP, myPort, "", true), "own:addr"
		case 1:
			return routeEntry(g, wire.AliasName(sidx), myPort, "", true), "own:alias"
		case 2:
			if myPort == 5060 {
				return routeEntry(g, wire.AliasName(sidx), 0, "", true), "own:alias-noport"
			}
			return routeEntry(g, sv.IP, myPort, "", false), "own:addr"
		default:
			if myPort == 5060 {
				return routeEntry(g, sv.IP, 0, "", true), "own:addr-noport"
			}
			return routeEntry(g, wire.AliasName(sidx), myPort, "", false), "own:alias"
		}
	}
	nextEntry := func() (wire.RouteEntry, string) {
		if g.R.Intn(12) == 0 {
			// a next hop whose URI looks like a name of the service (user and host match one of its
			// patterns, the port is the listener's number): it is a Route entry, not a Request-URI
			port := []int{0, 5060}[g.R.Intn(2)]
			text := fmt.Sprintf("<sip:rx%d-%s@regex.verif.test", sidx, strings.TrimSuffix(onlyLower("-" + g.Alnum(2, 6) + "@")[1:], "@"))
			if port > 0 {
				text += fmt.Sprintf(":%d", port)
			}
			text += ";lr>"
			return wire.RouteEntry{Text: text, Host: "regex.verif.test", Port: port, Transport: ""}, "next:looks-like-a-service-name/none"
		}
		if len(sv.BeUDP) > 0 && g.R.Intn(10) == 0 {
			// the next hop is the address of one of the listener's own backends: still a Route entry
			// like any other (kept or stripped as configured, the request goes there)
			be := sv.BeUDP[g.R.Intn(len(sv.BeUDP))]
			tr := []string{"", "udp", "UDP"}[g.R.Intn(3)]
			return routeEntry(g, be.IP(), wire.BackendPort, tr, true), "next:own-backend-address/" + map[bool]string{true: "none", false: "udp"}[tr == ""]
		}
		h := w.Hops[g.R.Intn(len(w.Hops))]
		host := h.IP
		hs := "ip"
		if g.R.Intn(2) == 0 {
			host, hs = h.Name, "name"
		}
		if g.R.Intn(6) == 0 {
			// the name that means another next hop in every service's own host table
			host, hs = wire.PeerName, "service-name"
		}
		port := []int{0, wire.NextHopPortA, wire.NextHopPortB}[g.R.Intn(3)]
		if _, ok := h.UDP[65535]; ok && g.R.Intn(5) == 0 {
			port = 65535
		}
		tr := []string{"", "udp", "tcp", "TCP", "UDP", "tls", "sctp"}[g.R.Intn(7)]
		if g.R.Intn(3) == 0 {
			tr = []string{"", "tcp"}[g.R.Intn(2)]
		}
		trs := tr
		if trs == "" {
			trs = "none"
		}
		return routeEntry(g, host, port, tr, true), "next:" + hs + "/" + strings.ToLower(trs)
	}
	nearMiss := func() (wire.RouteEntry, string) {
		if myPort != 5060 && g.R.Intn(4) == 0 {
			// the listener's name without a port means port 5060 - where this listener is not
			if g.R.Intn(2) == 0 {
				return routeEntry(g, wire.AliasName(sidx), 0, "", true), "miss:alias-noport-on-other-port"
			}
			return routeEntry(g, wire.SelfName, 0, "", true), "miss:self-name-noport-on-other-port"
		}
		switch g.R.Intn(4) {
		case 0: // right host, wrong port
			return routeEntry(g, sv.IP, myPort+1, "", false), "miss:wrong-port"
		case 1: // alias, wrong port
			return routeEntry(g, wire.AliasName(sidx), 5999, "", false), "miss:alias-wrong-port"
		case 2: // listener of another service (right port there)
			o := w.Svcs[(sidx+1)%len(w.Svcs)]
			tr := ""
			port := o.UDP
			if g.R.Intn(2) == 0 {
				tr, port = "tcp", o.TCP
			}
			return routeEntry(g, fmt.Sprintf("other%d.verif.test", sidx), port, tr, false), "miss:other-service"
		default: // right port, foreign host that is a real next hop
			h := w.Hops[g.R.Intn(len(w.Hops))]
			if myPort == 5060 {
				return routeEntry(g, h.IP, 5060, "", false), "miss:foreign-host-right-port"
			}
			return routeEntry(g, h.Name, wire.NextHopPortB, "", false), "miss:foreign-host"
		}
	}
	foreign := func() wire.RouteEntry {
		return routeEntry(g, g.Hostname()+".invalid", []int{0, 5060, 5090}[g.R.Intn(3)], []string{"", "tcp", "tls"}[g.R.Intn(3)], true)
	}
	var entries []wire.RouteEntry
	memoKey := fmt.Sprintf("%d/%s", sidx, c.path.Proto)
	var reuse *routeMemoT
	if ms := routeMemo[memoKey]; len(ms) > 0 && g.R.Intn(4) == 0 {
		// the route set of a dialog: the very same header lines, byte for byte, as an earlier request
		// through this listener carried
		reuse = &ms[g.R.Intn(len(ms))]
		entries = reuse.entries
		cell = append(cell, reuse.cell+"(same-lines-again)")
	}
	switch pickShape := g.R.Intn(7); {
	case reuse != nil:
	case pickShape == 0:
		cell = append(cell, "route:none")
	case pickShape == 1:
		e, s := ownEntry()
		entries = append(entries, e)
		cell = append(cell, "route:"+s+"-only")
	case pickShape == 2 || pickShape == 3:
		e, s := ownEntry()
		e2, s2 := nextEntry()
		entries = append(entries, e, e2)
		cell = append(cell, "route:"+s+"+"+s2)
	case pickShape == 4:
		e, s := nextEntry()
		entries = append(entries, e)
		cell = append(cell, "route:"+s)
	case pickShape == 5:
		e, s := nearMiss()
		e2, _ := nextEntry()
		entries = append(entries, e, e2)
		cell = append(cell, "route:"+s+"+next")
	default:
		e, s := ownEntry()
		e1, s1 := ownEntry() // own twice: only one may be consumed
		e2, _ := nextEntry()
		entries = append(entries, e, e1, e2)
		cell = append(cell, "route:"+s+"+"+s1+"+next")
	}
	if len(entries) > 0 && reuse == nil {
		for k := g.R.Intn(4); k > 0 && len(entries) < 6; k-- {
			entries = append(entries, foreign())
		}
	}
	// --- To host
	toHost := ""
	to := ""
	switch g.R.Intn(6) {
	case 0:
		toHost = []string{"exact.verif.test", "exact2.verif.test", "tcpx.verif.test"}[g.R.Intn(3)]
		cell = append(cell, "to:exact")
	case 1:
		toHost = g.Alnum(1, 6) + []string{".wild.verif.test", ".wtcp.verif.test", ".x.wild.verif.test"}[g.R.Intn(3)]
		cell = append(cell, "to:wildcard")
	case 2:
		toHost = []string{"tlsx.verif.test", "q.wtls.verif.test"}[g.R.Intn(2)]
		cell = append(cell, "to:unsupported-proto")
	case 3:
		toHost = ""
		to = "<tel:+1555" + g.Alnum(0, 0) + "0100>"
		cell = append(cell, "to:not-sip")
	case 4:
		// look-alikes that must not match: dot is literal, '*' needs the dot
		toHost = []string{"exactXverif.test", "wild.verif.test", "xexact.verif.test", "a.wild.verif.testx"}[g.R.Intn(4)]
		if sv.HasDef {
			cell = append(cell, "to:lookalike->default")
		} else {
			cell = append(cell, "to:lookalike->none")
		}
	default:
		toHost = "nomatch-" + g.Alnum(1, 5) + ".example"
		if sv.HasDef {
			cell = append(cell, "to:default")
		} else {
			cell = append(cell, "to:none")
		}
	}
	if to == "" {
		user := ""
		if g.R.Intn(2) == 0 {
			user = g.Alnum(1, 8) + "@"
		}
		port := ""
		if g.R.Intn(3) == 0 {
			port = fmt.Sprintf(":%d", 1024+g.R.Intn(60000))
		}
		to = fmt.Sprintf("<sip:%s%s%s>", user, toHost, port)
		if g.R.Intn(3) == 0 {
			to = "\"T\" " + to + ";x=1"
		}
	}
	// --- Request-URI
	var ruri string
	rhost, rport, rtr := "", 0, ""
	switch g.R.Intn(11) {
	case 10:
		ruri = []string{fmt.Sprintf("sip:*69@pbx%d.verif.test", sidx), fmt.Sprintf("sip:+1800555%d@ims.verif.test", sidx)}[g.R.Intn(2)]
		cell = append(cell, "ruri:literal-that-is-no-regexp")
	case 0:
		ruri = fmt.Sprintf("sip:svc%d.verif.test", sidx)
		cell = append(cell, "ruri:service-host")
	case 1:
		ruri = fmt.Sprintf("sip:%s@svc%d.verif.test:%d;user=phone", g.Alnum(1, 6), sidx, 1024+g.R.Intn(60000))
		cell = append(cell, "ruri:service-host+user+port")
	case 2:
		ruri = fmt.Sprintf("sip:bob@users%d.verif.test", sidx)
		cell = append(cell, "ruri:user@host")
	case 3:
		ruri = fmt.Sprintf("sip:%s@users%d.verif.test", []string{"alice", "bo", "Bob"}[g.R.Intn(3)], sidx)
		cell = append(cell, "ruri:user@host-wrong-user")
	case 4:
		ruri = fmt.Sprintf("sip:rx%d-%s@regex.verif.test", sidx, strings.ToLower(g.Alnum(1, 6)+"a"))
		ruri = onlyLower(ruri)
		cell = append(cell, "ruri:regex-only")
	case 5:
		if g.R.Intn(2) == 0 {
			ruri = fmt.Sprintf("urn:service:sos.s%d", sidx)
			cell = append(cell, "ruri:urn-service")
		} else {
			ruri = fmt.Sprintf("tel:+99%d%d", sidx, g.R.Intn(100000))
			cell = append(cell, "ruri:tel-regex")
		}
	case 6:
		rhost, rport = sv.IP, myPort
		ruri = fmt.Sprintf("sip:%s@%s:%d", g.Alnum(1, 5), sv.IP, myPort)
		cell = append(cell, "ruri:listener-addr-port")
	case 7:
		rhost, rport = sv.IP, myPort+7
		ruri = fmt.Sprintf("sip:%s:%d", sv.IP, myPort+7)
		cell = append(cell, "ruri:listener-addr-wrong-port")
	case 8:
		o := (sidx + 3) % len(w.Svcs)
		ruri = []string{fmt.Sprintf("sip:svc%d.verif.test", o), fmt.Sprintf("urn:service:sos.s%d", o), fmt.Sprintf("sip:rx%d-A@regex.verif.test", sidx)}[g.R.Intn(3)]
		cell = append(cell, "ruri:other-service")
	default:
		ruri = "sip:" + g.Alnum(1, 6) + "@foreign-" + g.Alnum(1, 4) + ".example"
		cell = append(cell, "ruri:foreign")
	}
	if rhost == "" && strings.HasPrefix(ruri, "sip:") {
		// generic extraction for the "listener address" rule is not needed: hosts above are names
		rhost = ""
	}
	cell = append(cell, "in:"+c.path.Proto)
	if sv.Keep {
		cell = append(cell, "keep")
	} else {
		cell = append(cell, "strip")
	}
	method := []string{"OPTIONS", "MESSAGE", "INVITE", "REGISTER", "INFO", "PUBLISH"}[g.R.Intn(6)]
	m := wire.StdRequest(c.id, method, ruri, c.path.Proto, ua.IP, wire.UDPPort)
	wire.SetHeader(m, "To", to)
	if g.R.Intn(4) == 0 {
		// the request has passed a next hop before: its address (or name) sits in a
		// lower Via entry, which teaches the service how that hop is reached
		h := w.Hops[g.R.Intn(len(w.Hops))]
		host := []string{h.IP, h.IP, h.Name}[g.R.Intn(3)]
		for k, x := range m.Headers {
			if sip.Canon(x.Name) == "via" {
				m.Headers[k].Value += fmt.Sprintf(", SIP/2.0/%s %s:%d;branch=z9hG4bK%s", []string{"UDP", "TCP"}[g.R.Intn(2)], host, wire.NextHopPortA, g.Alnum(6, 10))
				break
			}
		}
		cell = append(cell, "teaches-hop")
	}
	if len(entries) > 0 {
		texts := make([]string, len(entries))
		for k, e := range entries {
			texts[k] = e.Text
		}
		values, _ := g.JoinList(texts)
		name := []string{"Route", "route", "ROUTE", "RoUtE", "route*", "ROUTE*", "RoUtE*"}[g.R.Intn(7)]
		if reuse != nil {
			values, name = reuse.values, reuse.name
		} else {
			routeCell := ""
			for _, x := range cell {
				if strings.HasPrefix(x, "route:") {
					routeCell = x
				}
			}
			ms := append(routeMemo[memoKey], routeMemoT{entries: entries, values: values, name: name, cell: routeCell})
			if len(ms) > 8 {
				ms = ms[1:]
			}
			routeMemo[memoKey] = ms
		}
		var hs []sip.Header
		for k, v := range values {
			ln := name
			if strings.HasSuffix(name, "*") {
				// every line in a spelling of its own, the canonical one never first
				ln = strings.TrimSuffix(name, "*")
				if k > 0 {
					ln = []string{"Route", "rOUTE", "Route", "route"}[(k-1)%4]
				}
			}
			hs = append(hs, sip.Header{Name: ln, Value: v})
		}
		// anywhere: before Via, after Via, at the end
		switch g.R.Intn(3) {
		case 0:
			wire.InsertBefore(m, "via", hs...)
		case 1:
			wire.InsertBefore(m, "max-forwards", hs...)
		default:
			wire.InsertBefore(m, "content-length", hs...)
		}
	}
	if g.R.Intn(6) == 0 {
		// a request well beyond 1300 bytes: the transport of its next hop is still what the
		// Route entry / the static route / the backend URL says
		wire.InsertBefore(m, "content-length", sip.Header{Name: "X-Pad", Value: g.Alnum(1400, 2600)})
		cell = append(cell, "long")
	}
	c.msg = m
	c.rreq = wire.RReq{Routes: entries, ToHost: toHost, RURI: ruri, RHost: rhost, RPort: rport, RTransp: rtr}
	c.cell = strings.Join(cell, " ")
	return c
}

func onlyLower(s string) string {
	// the regex-only service name wants [a-z]+ after the dash
	i := strings.IndexByte(s, '-')
	j := strings.IndexByte(s, '@')
	if i < 0 || j < i {
		return s
	}
	mid := []byte(s[i+1 : j])
	for k, ch := range mid {
		if ch < 'a' || ch > 'z' {
			mid[k] = 'a' + ch%26
		}
	}
	return s[:i+1] + string(mid) + s[j:]
}
