package main

// Scenario "multilisten" (C06 with several listeners of one service): a hop
// learned through one listener and routed to through another; backend path per
// listener; branch freshness across all listeners of the process.

import (
	"fmt"
	"strings"
	"time"

	"vf/ev"
	"vf/sip"
	"vf/wire"
)

type mlListener struct {
	svc, l int
	ip     string
	mustRR bool
	be     *wire.UDPEndpoint
}

func scenarioMultiListen() int {
	run := ev.New("C06", "exploration",
		"services with three listeners each (own backends, must-record-route differing per listener) and one service whose only listener has no UDP port (two TCP backends, callers and backend connections coming and going) on the real -race binary: next hops are taught through one listener (request from the hop's UDP socket or over a TCP connection from its address) and then routed to through the same or another listener, "+
			"with and without existing Record-Route entries; backend path through every listener; oracle = learned-route model shared by the listeners of a service: the pushed Via must name a transport through which the hop was learned (backend path: a transport of the receiving listener), Record-Route by policy, nothing for an unlearned hop; one branch set for the whole process; distinct = (path, learned-through vs. routed-through, policy) cells")
	plan := wire.NewPlan()
	net := wire.NewNet()
	defer net.Close()
	cfg := &wire.Config{}
	var ls []*mlListener
	fail := func(err error) int {
		fmt.Println("HARNESS-ERROR multilisten:", err)
		return 2
	}
	for s := 0; s < 2; s++ {
		svc := &wire.Service{Index: s, Name: fmt.Sprintf("svc%d.verif.test", s)}
		for l := 0; l < 3; l++ {
			ip := plan.Listener(s, l)
			beAddr := fmt.Sprintf("%s:%d", plan.Backend(s, 10*l+1), wire.BackendPort)
			be, err := net.UDP(fmt.Sprintf("be%d.%d/udp", s, l), beAddr)
			if err != nil {
				return fail(err)
			}
			li := wire.Listen{Address: ip, UDPPort: wire.UDPPort, TCPPort: wire.TCPPort, MustRecordRoute: (l+s)%2 == 1, Backends: []string{"udp://" + beAddr}}
			svc.Listens = append(svc.Listens, li)
			ls = append(ls, &mlListener{svc: s, l: l, ip: ip, mustRR: li.MustRecordRoute, be: be})
		}
		cfg.Services = append(cfg.Services, svc)
	}
	// a third service whose only listener has no UDP port at all, in front of two TCP backends
	tcpOnlyIP := plan.Listener(2, 0)
	var tcpOnlyBe []*wire.TCPListener
	{
		svc := &wire.Service{Index: 2, Name: "svc2.verif.test"}
		li := wire.Listen{Address: tcpOnlyIP, TCPPort: wire.TCPPort, MustRecordRoute: true}
		for k := 1; k <= 2; k++ {
			addr := fmt.Sprintf("%s:%d", plan.Backend(2, k), wire.BackendPort)
			l, err := net.Listen(fmt.Sprintf("be2.%d/tcp", k), addr)
			if err != nil {
				return fail(err)
			}
			tcpOnlyBe = append(tcpOnlyBe, l)
			li.Backends = append(li.Backends, "tcp://"+addr)
		}
		svc.Listens = append(svc.Listens, li)
		cfg.Services = append(cfg.Services, svc)
	}
	sentinel, err := net.UDP("sentinel", fmt.Sprintf("%s:%d", plan.Sentinel(), wire.SentinelUDP))
	if err != nil {
		return fail(err)
	}
	_ = sentinel
	var uas []*wire.UDPEndpoint
	for i := 1; i <= 3; i++ {
		e, err := net.UDP(fmt.Sprintf("ua%d", i), fmt.Sprintf("%s:%d", plan.UA(i), wire.UDPPort))
		if err != nil {
			return fail(err)
		}
		uas = append(uas, e)
	}
	type hop struct {
		ip  string
		udp *wire.UDPEndpoint
		tcp *wire.TCPListener
	}
	var hops []*hop
	for i := 1; i <= 6; i++ {
		h := &hop{ip: plan.NextHop(i)}
		if h.udp, err = net.UDP(fmt.Sprintf("nh%d/udp", i), fmt.Sprintf("%s:%d", h.ip, wire.NextHopPortA)); err != nil {
			return fail(err)
		}
		if h.tcp, err = net.Listen(fmt.Sprintf("nh%d/tcp", i), fmt.Sprintf("%s:%d", h.ip, wire.NextHopPortB)); err != nil {
			return fail(err)
		}
		hops = append(hops, h)
	}
	proxy, err := wire.StartProxy(*flagBin, *flagDir+"/proxy", cfg, plan.PprofPort())
	if err != nil {
		return fail(err)
	}
	defer proxy.Stop()
	seq := 0
	sentinelMsg := func(id, fromIP, proto string) []byte {
		return []byte(fmt.Sprintf("OPTIONS sip:sentinel@sentinel.verif.test SIP/2.0\r\nVia: SIP/2.0/%s %s:%d;branch=z9hG4bKvf%s\r\nRoute: <sip:%s:%d;lr>\r\nMax-Forwards: 70\r\nFrom: <sip:b@x>;tag=b\r\nTo: <sip:s@y>\r\nCall-ID: %s@vf\r\nCSeq: 1 OPTIONS\r\nX-Vf: %s\r\nContent-Length: 0\r\n\r\n",
			strings.ToUpper(proto), fromIP, wire.UDPPort, id, plan.Sentinel(), wire.SentinelUDP, id, id))
	}
	barrier := func(li *mlListener, ua *wire.UDPEndpoint) bool {
		seq++
		id := fmt.Sprintf("b%d", seq)
		ua.Send(fmt.Sprintf("%s:%d", li.ip, wire.UDPPort), sentinelMsg(id, ua.IP(), "udp"), id)
		_, ok := net.WaitCase(id, func(o []*wire.Obs) bool { return len(o) > 0 }, 5*time.Second)
		net.Forget(id)
		net.Drain()
		return ok
	}
	// readiness
	for _, li := range ls {
		ok := false
		for try := 0; try < 100 && !ok; try++ {
			if !proxy.Alive() {
				return fail(fmt.Errorf("proxy exited: %s", proxy.StderrHead(2000)))
			}
			seq++
			id := fmt.Sprintf("b%d", seq)
			uas[0].Send(fmt.Sprintf("%s:%d", li.ip, wire.UDPPort), sentinelMsg(id, uas[0].IP(), "udp"), id)
			_, ok = net.WaitCase(id, func(o []*wire.Obs) bool { return len(o) > 0 }, 150*time.Millisecond)
		}
		if !ok {
			return fail(fmt.Errorf("listener %s never relayed", li.ip))
		}
	}
	g := sip.NewGen(shardSeed(run.Seed))
	n := *flagCases
	if n == 0 {
		n = ev.Pick(600, 12000)
	}
	// model: per service, hop ip -> transports it was learned through ("UDP ip:port")
	learned := []map[string]map[string]bool{{}, {}}
	learn := func(svc int, host, tr string) {
		if learned[svc][host] == nil {
			learned[svc][host] = map[string]bool{}
		}
		learned[svc][host][tr] = true
	}
	branches := map[string]string{}
	relayedOK := 0
	tcpConns := map[string]*wire.TCPConn{}
	for i := 0; i < n && run.Violations() <= 6; i++ {
		if !proxy.Alive() || proxy.Crashed() {
			run.Violation("proxy died during the run", map[string]any{"stderr": proxy.StderrHead(3000)})
			break
		}
		li := ls[g.R.Intn(len(ls))]
		ua := uas[g.R.Intn(len(uas))]
		dst := fmt.Sprintf("%s:%d", li.ip, wire.UDPPort)
		switch g.R.Intn(6) {
		case 0: // teach a hop through this listener
			h := hops[g.R.Intn(len(hops))]
			seq++
			id := fmt.Sprintf("t%d", seq)
			if g.R.Intn(2) == 0 {
				h.udp.Send(dst, sentinelMsg(id, h.ip, "udp"), id)
				learn(li.svc, h.ip, fmt.Sprintf("UDP %s:%d", li.ip, wire.UDPPort))
			} else {
				key := h.ip + ">" + li.ip
				c := tcpConns[key]
				if c == nil || c.EOF() {
					c, err = net.Dial("teach/"+key, h.ip+":0", fmt.Sprintf("%s:%d", li.ip, wire.TCPPort))
					if err != nil {
						continue
					}
					tcpConns[key] = c
				}
				c.Send(sentinelMsg(id, h.ip, "tcp"), id)
				learn(li.svc, h.ip, fmt.Sprintf("TCP %s:%d", li.ip, wire.TCPPort))
			}
			net.WaitCase(id, func(o []*wire.Obs) bool { return len(o) > 0 }, 2*time.Second)
			net.Forget(id)
			run.Eval("")
			continue
		case 1: // backend path
			seq++
			id := fmt.Sprintf("k%d", seq)
			m := wire.StdRequest(id, g.Method(), fmt.Sprintf("sip:svc%d.verif.test", li.svc), "udp", ua.IP(), wire.UDPPort)
			wire.SetHeader(m, "To", "<tel:+15550142>")
			nrr := addSomeRR(g, m)
			ua.Send(dst, m.Bytes(), id)
			learn(li.svc, ua.IP(), fmt.Sprintf("UDP %s:%d", li.ip, wire.UDPPort))
			net.WaitCase(id, func(o []*wire.Obs) bool { return len(o) > 0 }, 300*time.Millisecond)
			if !barrier(li, ua) {
				run.Inconclusive(1)
				continue
			}
			obs := net.ForCase(id)
			if len(obs) != 1 || obs[0].Ep != li.be.Name || obs[0].Msg == nil {
				var where []string
				for _, o := range obs {
					where = append(where, o.Ep)
				}
				run.Violation("request through one listener did not reach exactly that listener's backend", map[string]any{"listener": li.ip, "observed_at": where})
				continue
			}
			allowed := map[string]bool{fmt.Sprintf("UDP %s:%d", li.ip, wire.UDPPort): true, fmt.Sprintf("TCP %s:%d", li.ip, wire.TCPPort): true}
			if why := mlJudge(obs[0].Msg, m, allowed, true, nrr > 0 || li.mustRR, false, branches, id); why != "" {
				run.Violation("backend path through one of several listeners: "+why, map[string]any{"listener": li.ip, "must_record_route": li.mustRR, "input": string(m.Bytes()), "output": string(obs[0].Raw)})
				continue
			}
			relayedOK++
			run.Eval(fmt.Sprintf("backend|l%d|mrr%v|rr%d", li.l, li.mustRR, vfMin(nrr, 1)))
		default: // routed to a hop (learned or not, through this or another listener)
			h := hops[g.R.Intn(len(hops))]
			egress := []string{"udp", "tcp"}[g.R.Intn(2)]
			seq++
			id := fmt.Sprintf("r%d", seq)
			m := wire.StdRequest(id, g.Method(), "sip:x@foreign.example", "udp", ua.IP(), wire.UDPPort)
			port, tr := wire.NextHopPortA, ""
			if egress == "tcp" {
				port, tr = wire.NextHopPortB, ";transport=tcp"
			}
			wire.InsertBefore(m, "max-forwards", sip.Header{Name: "Route", Value: fmt.Sprintf("<sip:%s:%d%s;lr>", h.ip, port, tr)})
			nrr := addSomeRR(g, m)
			before := map[string]bool{}
			for k := range learned[li.svc][h.ip] {
				before[k] = true
			}
			ua.Send(dst, m.Bytes(), id)
			learn(li.svc, ua.IP(), fmt.Sprintf("UDP %s:%d", li.ip, wire.UDPPort))
			net.WaitCase(id, func(o []*wire.Obs) bool { return len(o) > 0 }, 300*time.Millisecond)
			if !barrier(li, ua) {
				run.Inconclusive(1)
				continue
			}
			obs := net.ForCase(id)
			want := h.udp.Name
			if egress == "tcp" {
				want = h.tcp.Name
			}
			if len(obs) != 1 || obs[0].Ep != want || obs[0].Msg == nil {
				run.Inconclusive(1) // destination questions belong to C03
				continue
			}
			// policy: the receiving listener's; where the learned-through listeners differ in policy, either is accepted
			polSet := map[bool]bool{li.mustRR: true}
			for k := range before {
				for _, o := range ls {
					if o.svc == li.svc && strings.Contains(k, " "+o.ip+":") {
						polSet[o.mustRR] = true
					}
				}
			}
			ambiguous := len(polSet) > 1
			if why := mlJudge(obs[0].Msg, m, before, len(before) > 0, nrr > 0 || li.mustRR, ambiguous && nrr == 0, branches, id); why != "" {
				var through []string
				for k := range before {
					through = append(through, k)
				}
				run.Violation("routed through one of several listeners: "+why, map[string]any{"receiving_listener": li.ip, "receiving_must_record_route": li.mustRR, "hop": h.ip, "hop_learned_through": through, "input": string(m.Bytes()), "output": string(obs[0].Raw)})
				continue
			}
			relayedOK++
			state := "not-learned"
			if len(before) > 0 {
				state = "learned-other-listener"
				for k := range before {
					if strings.Contains(k, " "+li.ip+":") {
						state = "learned-same-listener"
					}
				}
			}
			run.Eval(fmt.Sprintf("route|%s|%s|mrr%v|rr%d", state, egress, li.mustRR, vfMin(nrr, 1)))
			if run.WantSample() && state == "learned-other-listener" {
				run.Sample(map[string]any{"receiving_listener": li.ip, "hop": h.ip, "input": string(m.Bytes()), "output": string(obs[0].Raw)})
			}
		}
		if i%300 == 299 {
			net.Trim()
		}
	}
	// --- the TCP-only listener: callers come and go, backend connections are opened and re-opened
	// in between; every request handed to a backend must name the listener in the pushed Via
	tcpRounds := ev.Pick(10, 150)
	tcpJudged := 0
	for r := 0; r < tcpRounds && run.Violations() <= 6; r++ {
		if !proxy.Alive() || proxy.Crashed() {
			run.Violation("proxy died during the run", map[string]any{"stderr": proxy.StderrHead(3000)})
			break
		}
		var c *wire.TCPConn
		for try := 0; try < 100 && c == nil; try++ {
			if c, err = net.Dial(fmt.Sprintf("caller%d", r), uas[r%len(uas)].IP()+":0", fmt.Sprintf("%s:%d", tcpOnlyIP, wire.TCPPort)); err != nil {
				c = nil
				time.Sleep(20 * time.Millisecond)
			}
		}
		if c == nil {
			run.Inconclusive(1)
			continue
		}
		for k := 0; k < 1+g.R.Intn(3); k++ {
			seq++
			id := fmt.Sprintf("o%d", seq)
			m := wire.StdRequest(id, g.Method(), "sip:svc2.verif.test", "tcp", uas[r%len(uas)].IP(), wire.UDPPort)
			wire.SetHeader(m, "To", "<tel:+15550143>")
			nrr := addSomeRR(g, m)
			c.Send(m.Bytes(), id)
			obs, ok := net.WaitCase(id, func(o []*wire.Obs) bool { return len(o) > 0 }, 5*time.Second)
			if !ok || obs[0].Msg == nil {
				run.Inconclusive(1)
				continue
			}
			allowed := map[string]bool{fmt.Sprintf("TCP %s:%d", tcpOnlyIP, wire.TCPPort): true}
			if why := mlJudge(obs[0].Msg, m, allowed, true, true, false, branches, id); why != "" {
				run.Violation("backend path through a listener without UDP port: "+why, map[string]any{"listener": tcpOnlyIP, "round": r, "seen_at": obs[0].Ep, "input": string(m.Bytes()), "output": string(obs[0].Raw)})
				continue
			}
			tcpJudged++
			relayedOK++
			run.Eval(fmt.Sprintf("tcp-only|backend|rr%d|round-kind%d", vfMin(nrr, 1), r%4))
		}
		// the caller hangs up; every other round the backends drop their connections too, so that the
		// next request makes the proxy open a backend connection after a caller has gone
		c.Close(r%4 >= 2)
		if r%2 == 0 {
			for _, l := range tcpOnlyBe {
				for _, bc := range l.Conns() {
					if !bc.EOF() {
						bc.Close(false)
					}
				}
			}
		}
		time.Sleep(30 * time.Millisecond)
		net.Trim()
	}
	run.Observe("requests_through_the_tcp_only_listener_judged", tcpJudged)
	run.Observe("relayed_and_judged", relayedOK)
	run.Observe("distinct_proxy_branches", len(branches))
	run.Observe("race_reports_during_run", len(wire.RaceReports(proxy.Dir, "sipproxy")))
	if relayedOK < n/4 {
		run.Violation("observed-nothing", map[string]any{"relayed": relayedOK})
	}
	return run.Finish(int64(n) / 2)
}

func addSomeRR(g *sip.Gen, m *sip.Msg) int {
	if g.R.Intn(2) == 0 {
		return 0
	}
	n := 1 + g.R.Intn(3)
	var hs []sip.Header
	for k := 0; k < n; k++ {
		hs = append(hs, sip.Header{Name: "Record-Route", Value: routeEntry(g, g.Hostname()+".invalid", 0, "", true).Text})
	}
	wire.InsertBefore(m, "from", hs...)
	return n
}

// mlJudge checks the Via / Record-Route lists of one relayed request.
// allowed: the transports ("UDP ip:port") the pushed Via may name; mustInsert: a
// Via must have been pushed (false = none may be); wantRR: policy demands an
// entry if a Via was pushed; rrEither: policy is ambiguous, either is accepted.
func mlJudge(out, in *sip.Msg, allowed map[string]bool, mustInsert, wantRR, rrEither bool, branches map[string]string, id string) string {
	inV, outV := in.List("via"), out.List("via")
	inRR, outRR := in.List("record-route"), out.List("record-route")
	inserted := len(outV) == len(inV)+1
	if mustInsert && !inserted {
		return fmt.Sprintf("no own Via pushed (Via in %d, out %d)", len(inV), len(outV))
	}
	if !mustInsert && len(outV) != len(inV) {
		return "own Via pushed although the next hop was never learned by this service"
	}
	rest := outV
	rrWant := ""
	if inserted {
		rest = outV[1:]
		v, err := sip.ParseVia(outV[0])
		if err != nil {
			return "pushed Via undecodable"
		}
		key := fmt.Sprintf("%s %s:%s", strings.ToUpper(v.Transport), v.Host, v.Port)
		if !allowed[key] {
			return fmt.Sprintf("pushed Via names %q, which is none of the allowed transports", key)
		}
		b, ok := v.Param("branch")
		if !ok || !strings.HasPrefix(b.V, "z9hG4bK") {
			return "pushed Via without RFC 3261 branch"
		}
		if prev, dup := branches[b.V]; dup {
			return "branch " + b.V + " was already used (case " + prev + ")"
		}
		branches[b.V] = id
		rrWant = fmt.Sprintf("<sip:%s:%s;lr>", v.Host, v.Port)
	}
	for i := range inV {
		if stripStamp(inV[i]) != stripStamp(rest[i]) {
			return "an existing Via entry changed"
		}
	}
	gotAdded := len(outRR) == len(inRR)+1
	if !gotAdded && len(outRR) != len(inRR) {
		return "Record-Route list has the wrong length"
	}
	if !rrEither {
		if inserted && wantRR && !gotAdded {
			return "Record-Route entry missing although policy requires it"
		}
		if (!inserted || !wantRR) && gotAdded {
			return "Record-Route entry added although policy does not ask for it"
		}
	}
	tail := outRR
	if gotAdded {
		if !inserted || outRR[0] != rrWant {
			return fmt.Sprintf("added Record-Route entry %q is not %q", outRR[0], rrWant)
		}
		tail = outRR[1:]
	}
	if strings.Join(tail, "\x00") != strings.Join(inRR, "\x00") {
		return "existing Record-Route entries changed"
	}
	return ""
}
