package main

// Scenario "pinfault" (C06 under a backend fault): a dialog is answered by the
// TCP backend of a service, then that backend goes away (connections reset,
// listener closed) while the other backends stay. An in-dialog request follows.
// Whatever the proxy does with it - drop it, or hand it to another backend -
// anything that leaves the proxy must carry the proxy's Via exactly once on top
// of the Via list received, with one fresh branch, and at most the one
// Record-Route entry the listener's policy asks for.

import (
	"fmt"
	"strings"
	"time"

	"vf/ev"
	"vf/sip"
	"vf/wire"
)

func scenarioPinFault() int {
	prop := *flagProp
	oracle := map[string]string{
		"C06": "oracle = every copy of these requests seen at any socket carries exactly one more Via entry than was sent (the listener's, fresh branch, on top) and a Record-Route list that grew by at most the policy's one entry; the sentinel still passes",
		"C15": "oracle = once the backend is back, three further in-dialog requests (still well inside the 1200 s lifetime, no BYE answered, no NOTIFY terminated) arrive exactly once each at the backend the dialog is pinned to",
	}[prop]
	if oracle == "" {
		fmt.Println("HARNESS-ERROR pinfault: -prop must be C06 or C15")
		return 2
	}
	run := ev.New(prop, "fault_enumeration",
		"per round: INVITE rotated onto the TCP backend of a service and answered by it (dialog pinned there), the TCP backend then disappears {connections reset / closed, listener closed / kept}, 1-3 in-dialog requests and one new request follow, the backend comes back, three more in-dialog requests follow; "+
			oracle+"; distinct = (fault, service configuration, method) cells")
	w, err := wire.NewWorld(*flagBin, *flagDir, wire.Opts{Services: 4, Backends: 2, TCPBackend: true})
	if err != nil {
		fmt.Println("HARNESS-ERROR world:", err)
		return 2
	}
	defer w.Close()
	g := sip.NewGen(shardSeed(run.Seed))
	rounds := *flagCases
	if rounds == 0 {
		rounds = ev.Pick(24, 600)
	}
	seq := 0
	next := func(p string) string { seq++; return fmt.Sprintf("%s%d", p, seq) }
	branches := map[string]string{}
	seenOut, pinned, afterOK := 0, 0, 0
	send := func(svc int, m *sip.Msg, id string) []*wire.Obs {
		p := wire.Path{UA: 0, Svc: svc, Proto: "udp"}
		w.Send(p, m.Bytes(), id)
		w.Net.WaitCase(id, func(o []*wire.Obs) bool { return len(o) >= 1 }, 300*time.Millisecond)
		w.Barrier(p)
		return w.Net.ForCase(id)
	}
	judge := func(svc int, in *sip.Msg, id, what, fault string) bool {
		sv := w.Svcs[svc]
		ok := true
		for _, o := range w.Net.ForCase(id) {
			seenOut++
			if o.Msg == nil {
				run.Violation("unreadable output after a backend fault", map[string]any{"at": o.Ep, "raw": clip(string(o.Raw), 600)})
				return false
			}
			inV, outV := in.List("via"), o.Msg.List("via")
			inRR, outRR := in.List("record-route"), o.Msg.List("record-route")
			why := ""
			switch {
			case len(outV) != len(inV)+1:
				why = fmt.Sprintf("%d Via entries sent, %d relayed (exactly one more is required)", len(inV), len(outV))
			case len(outRR) > len(inRR)+1:
				why = fmt.Sprintf("Record-Route list grew from %d to %d entries", len(inRR), len(outRR))
			case (sv.MustRR || len(inRR) > 0) && len(outRR) != len(inRR)+1:
				why = fmt.Sprintf("the request carries %d Record-Route entries (listener always records: %v) and was handed on with %d: the listener's own entry is required", len(inRR), sv.MustRR, len(outRR))
			case (sv.MustRR || len(inRR) > 0) && !(strings.Contains(outRR[0], sv.IP) && strings.Contains(strings.ToLower(outRR[0]), ";lr")):
				why = "the first Record-Route entry is not the listener's <sip:address:port;lr>"
			case !sv.MustRR && len(inRR) == 0 && len(outRR) != 0:
				why = "Record-Route entry added although neither policy nor an existing entry asks for it"
			default:
				v, err := sip.ParseVia(outV[0])
				if err != nil || v.Host != sv.IP {
					why = "top Via entry is not the listener's"
				} else if b, okb := v.Param("branch"); !okb || !strings.HasPrefix(b.V, "z9hG4bK") {
					why = "own Via without RFC 3261 branch"
				} else if prev, dup := branches[b.V]; dup {
					why = "branch " + b.V + " was used before (case " + prev + ")"
				} else {
					branches[b.V] = id
				}
				for i := range inV {
					if why == "" && stripStamp(inV[i]) != stripStamp(outV[i+1]) {
						why = "an existing Via entry changed"
					}
				}
			}
			if why != "" {
				run.Violation("after its pinned backend failed a request left the proxy with a wrong Via / Record-Route stack", map[string]any{"why": why, "step": what, "fault": fault, "service": svc, "must_record_route": sv.MustRR, "seen_at": o.Ep, "input": string(in.Bytes()), "output": clip(string(o.Raw), 1500)})
				ok = false
			}
		}
		return ok
	}
	for r := 0; r < rounds && run.Violations() <= 4; r++ {
		if h := w.Health(); h != "" {
			run.Violation("proxy died during the run (belongs to C08/C20; the run cannot continue)", map[string]any{"health": h})
			break
		}
		svc := g.R.Intn(len(w.Svcs))
		sv := w.Svcs[svc]
		if len(sv.BeTCP) == 0 {
			continue
		}
		l := sv.BeTCP[0]
		callID := next("pf") + "@vf"
		aTag, bTag := g.Alnum(4, 8), g.Alnum(4, 8)
		mk := func(id, method, toTag string) *sip.Msg {
			m := wire.StdRequest(id, method, fmt.Sprintf("sip:svc%d.verif.test", svc), "udp", w.UAs[0].IP, wire.UDPPort)
			wire.SetHeader(m, "From", "<sip:alice@caller.example>;tag="+aTag)
			to := "<sip:bob@callee.example>"
			if sv.HasDef {
				to = "<tel:+15550155>"
			}
			if toTag != "" {
				to += ";tag=" + toTag
			}
			wire.SetHeader(m, "To", to)
			wire.SetHeader(m, "Call-ID", callID)
			if g.R.Intn(2) == 0 {
				wire.InsertBefore(m, "from", sip.Header{Name: "Record-Route", Value: "<sip:edge.invalid;lr>"})
			}
			return m
		}
		// rotate an INVITE onto the TCP backend
		var inv *wire.Obs
		for k := 0; k < 8 && inv == nil; k++ {
			callID = next("pf") + "@vf"
			id := next("i")
			obs := send(svc, mk(id, "INVITE", ""), id)
			if len(obs) == 1 && obs[0].Ep == l.Name && obs[0].Msg != nil {
				inv = obs[0]
			}
		}
		if inv == nil {
			run.Inconclusive(1)
			continue
		}
		dw := &dialogWorld{World: w}
		if !dw.respondFromBackend(svc, inv, inv.CaseID, 200, bTag) {
			run.Inconclusive(1)
			continue
		}
		pinned++
		// the fault
		fault := []string{"reset+closed-listener", "fin+closed-listener", "reset+listening", "fin+listening"}[r%4]
		for _, c := range l.Conns() {
			if !c.EOF() {
				c.Close(strings.HasPrefix(fault, "reset"))
			}
		}
		addr := l.Addr
		if strings.HasSuffix(fault, "closed-listener") {
			l.Close()
		}
		time.Sleep(10 * time.Millisecond)
		good := true
		n := 1 + g.R.Intn(3)
		for k := 0; k < n && good; k++ {
			id := next("d")
			method := []string{"INFO", "BYE", "UPDATE", "INVITE", "MESSAGE"}[g.R.Intn(5)]
			m := mk(id, method, bTag)
			send(svc, m, id)
			if prop == "C06" {
				good = judge(svc, m, id, "in-dialog "+method, fault)
			}
			if good {
				run.Eval(fmt.Sprintf("%s|svc%d|%s|copies%d", fault, svc, method, len(w.Net.ForCase(id))))
			}
		}
		if good {
			id := next("n")
			dialogCallID := callID
			callID = next("pf") + "@vf"
			m := mk(id, "OPTIONS", "")
			callID = dialogCallID
			send(svc, m, id)
			if prop != "C06" || judge(svc, m, id, "new request", fault) {
				run.Eval(fmt.Sprintf("%s|svc%d|new-request", fault, svc))
			}
		}
		// the backend comes back
		if strings.HasSuffix(fault, "closed-listener") {
			var nl *wire.TCPListener
			for try := 0; try < 50 && nl == nil; try++ {
				nl, err = w.Net.Listen(l.Name, addr)
				if err != nil {
					nl = nil
					time.Sleep(20 * time.Millisecond)
				}
			}
			if nl == nil {
				fmt.Println("HARNESS-ERROR cannot re-open the backend listener:", err)
				return 2
			}
			sv.BeTCP[0] = nl
		}
		if !w.Barrier(wire.Path{UA: 0, Svc: svc, Proto: "udp"}) {
			run.Violation("the proxy stopped relaying after a backend failed", map[string]any{"service": svc, "fault": fault})
		}
		// the dialog goes on after the outage
		for k := 0; k < 3 && good; k++ {
			id := next("a")
			method := []string{"INFO", "UPDATE", "MESSAGE", "OPTIONS"}[g.R.Intn(4)]
			m := mk(id, method, bTag)
			obs := send(svc, m, id)
			if prop == "C06" {
				good = judge(svc, m, id, "in-dialog "+method+" after the backend came back", fault)
				continue
			}
			var at []string
			for _, o := range obs {
				at = append(at, o.Ep)
			}
			if len(obs) != 1 || obs[0].Ep != sv.BeTCP[0].Name {
				run.Violation("after its backend had been unreachable for a moment the dialog is no longer pinned to it although its lifetime has not passed", map[string]any{"service": svc, "fault": fault, "pinned_to": sv.BeTCP[0].Name, "request_seen_at": at, "requests_sent_during_the_outage": n, "request": string(m.Bytes())})
				good = false
				continue
			}
			afterOK++
			run.Eval(fmt.Sprintf("%s|svc%d|after|%s", fault, svc, method))
		}
		w.Net.Trim()
	}
	run.Observe("dialogs_pinned_to_a_backend_that_then_failed", pinned)
	run.Observe("copies_of_later_requests_seen_and_judged", seenOut)
	run.Observe("in_dialog_requests_after_the_outage_at_the_pinned_backend", afterOK)
	if pinned < rounds/3 {
		run.Violation("observed-nothing", map[string]any{"pinned": pinned})
	}
	run.Exhaustive(false)
	return run.Finish(int64(rounds) / 3)
}
