package main

// Scenario "dialog": interleaved dialog histories through backends. Judged for
// C04 (in-dialog requests stick to the backend that answered), for the wire
// half of C05 (unpinned requests follow the strict rotation) or, in its timed
// variant "pintime", for C15 (pin lifetime and forgetting on the real binary).

import (
	"fmt"
	"strings"
	"sync"
	"time"

	"vf/ev"
	"vf/sip"
	"vf/wire"
)

type dparty struct{ uri, tag string }

type dlg struct {
	pinStart time.Time
	n        int
	svc      int
	kind     string // invite | subscribe
	callID   string
	a, b     dparty // a = the party that sent the initial request
	backend  int    // index into the service's backend list (config order), -1 unknown
	pinned   bool
	ended    bool
	steps    int
	// subExpires: the Expires header of the answer that establishes a subscription
	// ("" = 600, "-" = no such header, otherwise the value)
	subExpires string
}

type dialogWorld struct {
	*wire.World
	run      *ev.Run
	prop     string
	g        *sip.Gen
	seq      int
	lastRot  []int // per service: index of the backend that got the last unpinned request (-1 unknown)
	rotOrder [][]int
	stats    map[string]int
	// linger: dialogs on short-timeout services that outlive their history and are probed
	// again at the start of later ones, while provably inside their lifetime (periodic
	// sweeps of the pin table pass in between)
	linger       []*dlg
	lastStraddle time.Time
	probeCount   int
	byeCount     int
	cseqStyle    int
	// noWaitForAnswer: respondFromBackend returns as soon as the answer is sent
	noWaitForAnswer bool
}

// backendIndex maps an endpoint name "be<s>.<k>/udp" to k-1.
func backendIndex(ep string) int {
	i := strings.IndexByte(ep, '.')
	j := strings.IndexByte(ep, '/')
	if i < 0 || j < i {
		return -1
	}
	var k int
	fmt.Sscanf(ep[i+1:j], "%d", &k)
	return k - 1
}

func (w *dialogWorld) nBackends(svc int) int { return len(w.Svcs[svc].BeUDP) + len(w.Svcs[svc].BeTCP) }

func (w *dialogWorld) nextID(prefix string) string {
	w.seq++
	return fmt.Sprintf("%s%d", prefix, w.seq)
}

func (w *dialogWorld) request(id, method string, svc int, from, to dparty, callID string, extra ...sip.Header) *sip.Msg {
	ruri := []string{fmt.Sprintf("sip:svc%d.verif.test", svc), fmt.Sprintf("sip:bob@users%d.verif.test", svc), fmt.Sprintf("urn:service:sos.s%d", svc)}[w.g.R.Intn(3)]
	m := &sip.Msg{Start: method + " " + ruri + " SIP/2.0"}
	f := "<" + from.uri + ">"
	if from.tag != "" {
		f += ";tag=" + from.tag
	}
	t := "<" + to.uri + ">"
	if w.g.R.Intn(3) == 0 {
		t = "\"Callee\" " + t
	}
	if to.tag != "" {
		t += ";tag=" + to.tag
	}
	names := [][]string{{"From", "To", "Call-ID"}, {"f", "t", "i"}, {"FROM", "to", "Call-Id"}}[w.g.R.Intn(3)]
	m.Headers = append(m.Headers,
		sip.Header{Name: "Via", Value: ""}, // filled by the sender
		sip.Header{Name: "Max-Forwards", Value: "70"},
		sip.Header{Name: names[0], Value: f},
		sip.Header{Name: names[1], Value: t},
		sip.Header{Name: names[2], Value: callID},
		sip.Header{Name: "CSeq", Value: fmt.Sprintf("%d %s", 1+w.g.R.Intn(9000), method)},
		sip.Header{Name: "X-Vf", Value: id})
	m.Headers = append(m.Headers, extra...)
	m.Headers = append(m.Headers, sip.Header{Name: "Content-Length", Value: "0"})
	return m
}

// sendFromUA sends m from UA u over proto and returns the backend endpoint observations.
func (w *dialogWorld) sendFromUA(m *sip.Msg, id string, u int, svc int, proto string) ([]*wire.Obs, wire.Path, bool) {
	path := wire.Path{UA: u, Svc: svc, Proto: proto}
	wire.SetHeader(m, "Via", fmt.Sprintf("SIP/2.0/%s %s:%d;branch=z9hG4bKvf%s", strings.ToUpper(proto), w.UAs[u].IP, wire.UDPPort, id))
	if err := w.Send(path, m.Bytes(), id); err != nil {
		w.DropConn(path)
		return nil, path, false
	}
	w.Net.WaitCase(id, func(o []*wire.Obs) bool { return len(o) >= 1 }, 400*time.Millisecond)
	if !w.Barrier(path) {
		w.DropConn(path)
		return nil, path, false
	}
	if len(w.Net.ForCase(id)) == 0 {
		// every request of these histories has a destination: not there yet means the
		// driver's readers are behind (loaded machine) - wait under the watchdog
		w.Net.WaitCase(id, func(o []*wire.Obs) bool { return len(o) >= 1 }, w.BarrierWait)
	}
	return w.Net.ForCase(id), path, true
}

func (w *dialogWorld) atBackends(svc int, obs []*wire.Obs) []*wire.Obs {
	names := w.Svcs[svc].BackendEndpointNames()
	var r []*wire.Obs
	for _, o := range obs {
		if names[o.Ep] && o.Msg != nil && o.Msg.IsRequest() {
			r = append(r, o)
		}
	}
	return r
}

// respondFromBackend lets the backend that received o answer with status; the
// response is awaited at the UA side so that it has provably passed the proxy.
func (w *dialogWorld) respondFromBackend(svc int, o *wire.Obs, id string, status int, toTag string, extra ...sip.Header) bool {
	sv := w.Svcs[svc]
	resp := &sip.Msg{Start: fmt.Sprintf("SIP/2.0 %d %s", status, map[bool]string{true: "OK", false: "Answer"}[status == 200])}
	rid := id + "x" + fmt.Sprint(status)
	for _, h := range o.Msg.Headers {
		switch sip.Canon(h.Name) {
		case "cseq":
			// the answering side writes number and method with blanks of its own
			if f := strings.Fields(h.Value); len(f) == 2 {
				w.cseqStyle++
				h.Value = f[0] + []string{" ", "  ", "\t", " \t "}[w.cseqStyle%4] + f[1]
			}
			resp.Headers = append(resp.Headers, h)
		case "via", "from", "call-id":
			resp.Headers = append(resp.Headers, h)
		case "to":
			v := h.Value
			if toTag != "" && !strings.Contains(v, ";tag=") {
				v += ";tag=" + toTag
			}
			resp.Headers = append(resp.Headers, sip.Header{Name: h.Name, Value: v})
		}
	}
	resp.Headers = append(resp.Headers, sip.Header{Name: "X-Vf", Value: rid})
	resp.Headers = append(resp.Headers, extra...)
	resp.Headers = append(resp.Headers, sip.Header{Name: "Content-Length", Value: "0"})
	if o.Proto == "udp" {
		for _, e := range sv.BeUDP {
			if e.Name == o.Ep {
				e.Send(fmt.Sprintf("%s:%d", sv.IP, sv.UDP), resp.Bytes(), rid)
			}
		}
	} else {
		for _, l := range sv.BeTCP {
			if c := l.ConnByID(o.Conn); c != nil {
				c.Send(resp.Bytes(), rid)
			}
		}
	}
	if w.noWaitForAnswer {
		return true
	}
	_, ok := w.Net.WaitCase(rid, func(x []*wire.Obs) bool { return len(x) >= 1 }, w.BarrierWait)
	return ok
}

// unrelated sends one out-of-dialog request and records where the rotation is.
func (w *dialogWorld) unrelated(svc int) bool {
	id := w.nextID("u")
	m := w.request(id, "OPTIONS", svc, dparty{"sip:probe@ua.verif.test", "p" + id}, dparty{"sip:nobody@callee.example", ""}, id+"@vf")
	obs, _, ok := w.sendFromUA(m, id, w.g.R.Intn(len(w.UAs)), svc, []string{"udp", "tcp"}[w.g.R.Intn(2)])
	if !ok {
		w.run.Inconclusive(1)
		return false
	}
	return w.noteUnpinned(svc, id, obs, "unrelated OPTIONS")
}

// noteUnpinned checks (C05) and records the rotation position after an unpinned dispatch.
func (w *dialogWorld) noteUnpinned(svc int, id string, obs []*wire.Obs, what string) bool {
	be := w.atBackends(svc, obs)
	if len(be) != 1 {
		if w.prop == "C05" {
			var where []string
			for _, o := range obs {
				where = append(where, o.Ep)
			}
			w.run.Violation("an unpinned request did not reach exactly one backend", map[string]any{"what": what, "service": svc, "observed_at": where})
		}
		w.lastRot[svc] = -1
		return false
	}
	k := backendIndex(be[0].Ep)
	n := w.nBackends(svc)
	if w.lastRot[svc] >= 0 {
		want := (w.lastRot[svc] + 1) % n
		w.stats["rotation_steps_checked"]++
		if k != want && w.prop == "C05" {
			w.run.Violation("unpinned requests do not follow the strict rotation over the configured backends", map[string]any{"service": svc, "previous_backend": w.lastRot[svc] + 1, "expected_backend": want + 1, "got_backend": k + 1, "backends": n, "what": what})
			w.lastRot[svc] = k
			return false
		}
	}
	w.lastRot[svc] = k
	w.rotOrder[svc] = append(w.rotOrder[svc], k)
	if w.prop == "C05" {
		w.run.Eval(fmt.Sprintf("rot|svc%d|n%d|%d", svc, n, k))
	}
	return true
}

// avoidCoincidence makes sure the next rotation slot is not the pinned backend,
// so that "stuck to the pin" cannot happen by chance.
func (w *dialogWorld) avoidCoincidence(d *dlg) {
	n := w.nBackends(d.svc)
	for tries := 0; tries < 3; tries++ {
		if w.lastRot[d.svc] < 0 {
			w.unrelated(d.svc)
			continue
		}
		if (w.lastRot[d.svc]+1)%n != d.backend {
			return
		}
		w.unrelated(d.svc)
	}
}

func (w *dialogWorld) genParty(i int, role string) dparty {
	g := w.g
	var uri string
	switch g.R.Intn(6) {
	case 0:
		uri = fmt.Sprintf("tel:+1555%04d", g.R.Intn(10000))
	case 1:
		uri = "urn:service:sos." + strings.ToLower(g.Alnum(2, 5))
	case 2:
		uri = fmt.Sprintf("sip:%s%d@%s.example:%d", role, i, strings.ToLower(g.Alnum(2, 6)), 5060+g.R.Intn(5))
	default:
		uri = fmt.Sprintf("sip:%s%d@%s.example", role, i, strings.ToLower(g.Alnum(2, 6)))
	}
	tag := g.Alnum(3, 10)
	if g.R.Intn(3) == 0 {
		tag += "-" + g.Alnum(1, 4)
	}
	return dparty{uri: uri, tag: tag}
}

func scenarioDialog() int {
	prop := *flagProp
	rule := "interleaved histories of 1-50 dialogs over services with 2-6 UDP/TCP backends of the real binary: initial INVITE / backend-issued SUBSCRIBE, provisional and final answers from the chosen backend's configured address, in-dialog requests of every method in both orientations, unrelated traffic in between, generated Call-IDs / tags (with '-') / URIs (equal on both sides, tel:, urn:); "
	switch prop {
	case "C05":
		rule += "oracle = every unpinned dispatch must land on the backend that follows the previous unpinned one in configuration order (strict rotation), exactly once; distinct = (service, backend) rotation positions observed"
	default:
		rule += "oracle = dialog model (pin created when the answer with both tags has passed the proxy); every in-dialog request must be seen exactly once, at the pinned backend, with the rotation provably pointing elsewhere; distinct = (dialog kind, method, orientation, transport) cells"
	}
	run := ev.New(prop, "exploration", rule)
	w0, err := wire.NewWorld(*flagBin, *flagDir, wire.Opts{Services: 8, Backends: 5, TCPBackend: true, Mutate: func(c *wire.Config, p wire.Plan) {
		for _, s := range c.Services {
			be := s.Listens[0].Backends
			switch s.Index % 5 {
			case 0:
				s.Listens[0].Backends = be[:2] // 2 UDP
			case 1:
				s.Listens[0].Backends = append(append([]string{}, be[:2]...), be[5]) // 2 UDP + TCP
			case 2:
				s.Listens[0].Backends = be[:4]
			case 3:
				s.Listens[0].Backends = append(append([]string{}, be[:3]...), be[5])
			}
			_ = p
			if s.Index%4 == 3 {
				// sweeps of the pin table happen every 3 s here: stickiness must survive the
				// sweeps, for dialogs kept alive by the Expires of their establishing answer
				// (service 7) and for plain dialogs inside their 3 s lifetime (service 3)
				s.DialogTimeout = 3
			}
		}
	}})
	if err != nil {
		fmt.Println("HARNESS-ERROR world:", err)
		return 2
	}
	defer w0.Close()
	w := &dialogWorld{World: w0, run: run, prop: prop, g: sip.NewGen(shardSeed(run.Seed)), stats: map[string]int{}}
	for range w.Svcs {
		w.lastRot = append(w.lastRot, -1)
		w.rotOrder = append(w.rotOrder, nil)
	}
	nh := *flagCases
	if nh == 0 {
		nh = ev.Pick(30, 600)
	}
	for h := 0; h < nh && run.Violations() <= 6; h++ {
		if hl := w.Health(); hl != "" {
			run.Violation("proxy died during the run (belongs to C08; the run cannot continue)", map[string]any{"health": hl})
			break
		}
		w.history(h)
		w.Net.Trim()
		if h == 1 && prop == "C04" {
			w.longLived()
			w.Net.Trim()
		}
	}
	for k, v := range w.stats {
		run.Observe(k, v)
	}
	run.Observe("barriers", w.Barriers)
	run.Observe("barrier_timeouts", w.BarrierMisses)
	if prop == "C04" && w.stats["in_dialog_probes_pinned"] < 100 {
		run.Violation("observed-nothing", map[string]any{"in_dialog_probes": w.stats["in_dialog_probes_pinned"]})
	}
	if prop == "C05" && w.stats["rotation_steps_checked"] < 100 {
		run.Violation("observed-nothing", map[string]any{"rotation_steps": w.stats["rotation_steps_checked"]})
	}
	return run.Finish(50)
}

// concurrentSetup: many calls are set up one after the other, then all their backends
// answer at the same moment (datagrams from different backends queue back to back on
// the proxy's socket); afterwards every dialog must stick to its own backend.
func (w *dialogWorld) concurrentSetup(h int) {
	g := w.g
	svc := g.R.Intn(len(w.Svcs))
	if w.Svcs[svc].DialogTimeout > 0 {
		svc = (svc + 1) % len(w.Svcs)
	}
	sv := w.Svcs[svc]
	type call struct {
		d   *dlg
		be  *wire.Obs
		id  string
		rid string
	}
	var calls []*call
	for i := 0; i < 6+g.R.Intn(15); i++ {
		d := &dlg{n: i, svc: svc, backend: -1, kind: "invite"}
		d.callID = g.Alnum(8, 14) + "@" + g.Hostname()
		d.a, d.b = w.genParty(h*100+i, "alice"), w.genParty(h*100+i, "bob")
		id := w.nextID("i")
		m := w.request(id, "INVITE", svc, d.a, dparty{d.b.uri, ""}, d.callID)
		obs, _, ok := w.sendFromUA(m, id, g.R.Intn(len(w.UAs)), svc, "udp")
		be := w.atBackends(svc, obs)
		if !ok || len(be) != 1 {
			continue
		}
		w.noteUnpinned(svc, id, obs, "initial INVITE")
		d.backend = backendIndex(be[0].Ep)
		calls = append(calls, &call{d: d, be: be[0], id: id, rid: id + "x200"})
	}
	// all answers at once
	var wg sync.WaitGroup
	for _, c := range calls {
		wg.Add(1)
		go func(c *call) {
			defer wg.Done()
			resp := &sip.Msg{Start: "SIP/2.0 200 OK"}
			for _, hd := range c.be.Msg.Headers {
				switch sip.Canon(hd.Name) {
				case "via", "from", "call-id", "cseq":
					resp.Headers = append(resp.Headers, hd)
				case "to":
					resp.Headers = append(resp.Headers, sip.Header{Name: hd.Name, Value: hd.Value + ";tag=" + c.d.b.tag})
				}
			}
			resp.Headers = append(resp.Headers, sip.Header{Name: "X-Vf", Value: c.rid}, sip.Header{Name: "Content-Length", Value: "0"})
			if c.be.Proto == "udp" {
				for _, e := range sv.BeUDP {
					if e.Name == c.be.Ep {
						e.Send(fmt.Sprintf("%s:%d", sv.IP, sv.UDP), resp.Bytes(), c.rid)
					}
				}
			} else {
				for _, l := range sv.BeTCP {
					if cn := l.ConnByID(c.be.Conn); cn != nil {
						cn.Send(resp.Bytes(), c.rid)
					}
				}
			}
		}(c)
	}
	wg.Wait()
	for _, c := range calls {
		if _, ok := w.Net.WaitCase(c.rid, func(o []*wire.Obs) bool { return len(o) >= 1 }, w.BarrierWait); ok {
			c.d.pinned = true
			w.stats["dialogs_established_concurrently"]++
		}
	}
	for _, c := range calls {
		if c.d.pinned {
			w.probe(c.d)
			if !c.d.ended {
				w.probe(c.d)
			}
		}
	}
}

// history runs one interleaved history on one service.
func (w *dialogWorld) history(h int) {
	g := w.g
	var keep []*dlg
	touched := map[int]bool{}
	for _, d := range w.linger {
		age := time.Since(d.pinStart)
		if d.ended || !d.pinned || age > time.Duration(w.Svcs[d.svc].DialogTimeout)*time.Second-800*time.Millisecond {
			continue
		}
		if age > 250*time.Millisecond && w.run.Violations() <= 6 {
			if !touched[d.svc] {
				// other traffic through the service first: whatever the proxy does to its table of
				// pins when new entries arrive has happened before the probe
				touched[d.svc] = true
				w.unrelated(d.svc)
			}
			w.probe(d)
			w.stats["probes_of_dialogs_that_outlived_their_history"]++
		}
		keep = append(keep, d)
	}
	w.linger = keep
	if time.Since(w.lastStraddle) > 900*time.Millisecond && len(w.linger) < 16 {
		// about once a second a plain call is set up on a short-timeout service and left alone:
		// every periodic sweep of that service's pins falls into the lifetime of two of them
		w.lastStraddle = time.Now()
		for s, sv := range w.Svcs {
			if sv.DialogTimeout > 0 && s%8 != 7 {
				d := &dlg{n: 900 + h, svc: s, backend: -1, kind: "invite"}
				d.callID = g.Alnum(8, 14) + "@" + g.Hostname()
				d.a, d.b = w.genParty(h*100+90, "alice"), w.genParty(h*100+90, "bob")
				w.stepDialog(d)
				if d.pinned && !d.ended {
					w.linger = append(w.linger, d)
					w.stats["calls_set_up_to_straddle_a_sweep"]++
				}
			}
		}
	}
	if h%5 == 4 {
		w.concurrentSetup(h)
		return
	}
	svc := g.R.Intn(len(w.Svcs))
	nd := 1 + g.R.Intn(10)
	if g.R.Intn(5) == 0 {
		nd = 20 + g.R.Intn(31)
	}
	var ds []*dlg
	for i := 0; i < nd; i++ {
		d := &dlg{n: i, svc: svc, backend: -1, kind: "invite"}
		if g.R.Intn(4) == 0 && len(w.Svcs[svc].BeUDP) > 0 {
			d.kind = "subscribe"
			// the establishing answer promises 600 s, 0 s, 1 s, or says nothing: with the default
			// dialog timeout of 1200 s the pin outlives the run in every case
			d.subExpires = []string{"", "", "0", "-", "1"}[g.R.Intn(5)]
		}
		d.callID = g.Alnum(6, 16)
		if g.R.Intn(3) == 0 {
			d.callID += "-" + g.Alnum(2, 5)
		}
		d.callID += "@" + g.Hostname()
		d.a = w.genParty(h*100+i, "alice")
		d.b = w.genParty(h*100+i, "bob")
		if g.R.Intn(6) == 0 {
			d.b.uri = d.a.uri // equal From and To URIs
		}
		if i > 0 && g.R.Intn(4) == 0 {
			// a dialog related to an earlier one of this history without being the same: its
			// Call-ID extends the other's, or it is another leg of the same call (same Call-ID
			// and caller tag, another callee tag). Ending one must not touch the other.
			o := ds[g.R.Intn(len(ds))]
			if g.R.Intn(2) == 0 {
				d.callID = o.callID + g.Alnum(1, 3)
			} else {
				d.callID, d.a = o.callID, o.a
			}
		}
		ds = append(ds, d)
	}
	// schedule: repeatedly pick a dialog that still has something to do
	budget := nd * 8
	for step := 0; step < budget && w.run.Violations() <= 6; step++ {
		d := ds[g.R.Intn(len(ds))]
		if d.ended {
			continue
		}
		for k := g.R.Intn(3); k > 0 && g.R.Intn(2) == 0; k-- {
			w.unrelated(svc)
		}
		w.stepDialog(d)
	}
	for _, d := range ds {
		if sv := w.Svcs[d.svc]; sv.DialogTimeout > 0 && d.svc%8 != 7 && d.kind == "invite" && d.pinned && !d.ended && len(w.linger) < 16 {
			w.linger = append(w.linger, d)
		}
	}
}

// longLived: a few dialogs are set up on a service with the default lifetime, then thousands of
// unrelated requests pass through the same service (each of them is relayed and answered by
// nobody), then the dialogs go on: they must still stick to their backends, however much
// other traffic the proxy has seen in between.
func (w *dialogWorld) longLived() {
	g := w.g
	svc := 0
	for s, sv := range w.Svcs {
		if sv.DialogTimeout == 0 && len(sv.BeUDP) >= 2 {
			svc = s
			break
		}
	}
	var ds []*dlg
	for i := 0; i < 4; i++ {
		d := &dlg{n: 800 + i, svc: svc, backend: -1, kind: "invite"}
		d.callID = g.Alnum(8, 14) + "@" + g.Hostname()
		d.a, d.b = w.genParty(88000+i, "alice"), w.genParty(88000+i, "bob")
		for try := 0; try < 3 && !d.pinned && !d.ended; try++ {
			w.stepDialog(d)
		}
		if d.pinned && !d.ended {
			ds = append(ds, d)
		}
	}
	if len(ds) == 0 {
		w.run.Inconclusive(1)
		return
	}
	n := ev.Pick(9500, 40000)
	u := g.R.Intn(len(w.UAs))
	path := wire.Path{UA: u, Svc: svc, Proto: "udp"}
	sentN := 0
	for sentN < n && w.run.Violations() <= 6 {
		var last string
		for k := 0; k < 48; k++ {
			id := w.nextID("fl")
			m := w.request(id, "OPTIONS", svc, dparty{"sip:flood@ua.verif.test", "f" + id}, dparty{"sip:nobody@callee.example", ""}, id+"@vf")
			wire.SetHeader(m, "Via", fmt.Sprintf("SIP/2.0/UDP %s:%d;branch=z9hG4bKvf%s", w.UAs[u].IP, wire.UDPPort, id))
			if w.Send(path, m.Bytes(), id) != nil {
				break
			}
			last = id
			sentN++
		}
		if last != "" {
			w.Net.WaitCase(last, func(o []*wire.Obs) bool { return len(o) >= 1 }, w.BarrierWait)
		}
		if !w.Barrier(path) {
			w.run.Inconclusive(1)
			break
		}
		w.Net.Trim()
	}
	w.stats["unrelated_requests_relayed_while_dialogs_were_alive"] += sentN
	w.lastRot[svc] = -1
	for round := 0; round < 3; round++ {
		for _, d := range ds {
			if !d.ended && w.run.Violations() <= 6 {
				w.probe(d)
				w.stats["probes_of_dialogs_after_thousands_of_unrelated_requests"]++
			}
		}
	}
}

// oversized: an in-dialog request that the proxy can receive but cannot pass on to the UDP
// backend of the dialog (with the proxy's own Via it no longer fits a datagram). Whatever
// happens to that request, the dialog goes on at its backend.
func (w *dialogWorld) oversized(d *dlg) {
	id := w.nextID("big")
	m := w.request(id, "INFO", d.svc, d.a, d.b, d.callID)
	u := w.g.R.Intn(len(w.UAs))
	wire.SetHeader(m, "Via", fmt.Sprintf("SIP/2.0/UDP %s:%d;branch=z9hG4bKvf%s", w.UAs[u].IP, wire.UDPPort, id))
	wire.WithBody(m, []byte{})
	room := 65507 - len(m.Bytes()) - 5 // Content-Length grows from "0" to five digits
	if room < 1000 {
		return
	}
	body := make([]byte, room-w.g.R.Intn(12))
	for i := range body {
		body[i] = byte('a' + i%26)
	}
	wire.WithBody(m, body)
	path := wire.Path{UA: u, Svc: d.svc, Proto: "udp"}
	if w.Send(path, m.Bytes(), id) != nil {
		return
	}
	w.Barrier(path)
	w.stats["in_dialog_requests_too_big_for_the_datagram_to_the_backend"]++
	w.Net.Forget(id)
}

// every class of final answer a BYE can get
var finalStatuses = []int{401, 200, 407, 481, 302, 500, 603, 404, 408, 486, 202, 301, 400, 403, 480, 487, 503, 504, 600, 604}
var byeStatusCursor int

// nextByeStatus walks through the classes so that a run covers them all, not a random few
func nextByeStatus() int {
	byeStatusCursor++
	return finalStatuses[(byeStatusCursor-1)%len(finalStatuses)]
}

var inDialogMethods = []string{"ACK", "BYE", "INVITE", "UPDATE", "INFO", "PRACK", "MESSAGE", "REFER", "NOTIFY", "SUBSCRIBE", "OPTIONS"}

func (w *dialogWorld) stepDialog(d *dlg) {
	g := w.g
	d.steps++
	switch {
	case d.backend < 0 && d.kind == "invite":
		// initial INVITE
		id := w.nextID("i")
		m := w.request(id, "INVITE", d.svc, d.a, dparty{d.b.uri, ""}, d.callID)
		obs, _, ok := w.sendFromUA(m, id, g.R.Intn(len(w.UAs)), d.svc, []string{"udp", "tcp"}[g.R.Intn(2)])
		if !ok {
			w.run.Inconclusive(1)
			d.ended = true
			return
		}
		if !w.noteUnpinned(d.svc, id, obs, "initial INVITE") {
			d.ended = true
			return
		}
		be := w.atBackends(d.svc, obs)[0]
		d.backend = backendIndex(be.Ep)
		// answers from the chosen backend
		if g.R.Intn(2) == 0 {
			w.respondFromBackend(d.svc, be, id, 100, "") // no To-tag: no dialog yet
		}
		status := []int{180, 183, 200, 200, 486}[g.R.Intn(5)]
		var lifetime []sip.Header
		if w.Svcs[d.svc].DialogTimeout > 0 && d.svc%8 == 7 {
			lifetime = append(lifetime, sip.Header{Name: "Expires", Value: "900"})
		}
		d.pinStart = time.Now()
		if !w.respondFromBackend(d.svc, be, id, status, d.b.tag, lifetime...) {
			w.run.Inconclusive(1)
			d.ended = true
			return
		}
		d.pinned = true
		w.stats["dialogs_established_by_invite"]++
	case d.backend < 0 && d.kind == "subscribe":
		w.establishSubscribe(d)
	default:
		if !d.pinned {
			d.ended = true
			return
		}
		if sv := w.Svcs[d.svc]; sv.DialogTimeout > 0 && d.svc%8 != 7 && d.kind == "invite" {
			// a plain dialog on a short-timeout service: judged only while provably inside its lifetime
			if time.Since(d.pinStart) > time.Duration(sv.DialogTimeout)*time.Second-700*time.Millisecond {
				d.ended = true
				return
			}
		}
		w.probe(d)
	}
}

// establishSubscribe: a backend issues a SUBSCRIBE, the notifier answers.
func (w *dialogWorld) establishSubscribe(d *dlg) {
	g := w.g
	sv := w.Svcs[d.svc]
	k := g.R.Intn(len(sv.BeUDP))
	be := sv.BeUDP[k]
	hop := w.Hops[g.R.Intn(len(w.Hops))]
	id := w.nextID("sub")
	m := &sip.Msg{Start: "SUBSCRIBE sip:notifier@ext.example SIP/2.0"}
	m.Headers = []sip.Header{
		{Name: "Via", Value: fmt.Sprintf("SIP/2.0/UDP %s:%d;branch=z9hG4bKvf%s", be.IP(), wire.BackendPort, id)},
		{Name: "Route", Value: fmt.Sprintf("<sip:%s:%d;lr>", hop.IP, wire.NextHopPortA)},
		{Name: "Max-Forwards", Value: "70"},
		{Name: "From", Value: "<" + d.a.uri + ">;tag=" + d.a.tag},
		{Name: "To", Value: "<" + d.b.uri + ">"},
		{Name: "Call-ID", Value: d.callID},
		{Name: "CSeq", Value: "1 SUBSCRIBE"},
		{Name: "Event", Value: "presence"},
		{Name: "Expires", Value: "600"},
		{Name: "X-Vf", Value: id},
		{Name: "Content-Length", Value: "0"}}
	be.Send(fmt.Sprintf("%s:%d", sv.IP, sv.UDP), m.Bytes(), id)
	obs, ok := w.Net.WaitCase(id, func(o []*wire.Obs) bool { return len(o) >= 1 }, w.BarrierWait)
	if !ok || obs[0].Msg == nil {
		w.run.Inconclusive(1)
		d.ended = true
		return
	}
	// the notifier answers; the response travels proxy -> backend
	rid := id + "ok"
	resp := &sip.Msg{Start: "SIP/2.0 200 OK"}
	vias := obs[0].Msg.List("via")
	if len(vias) == 1 {
		// the proxy did not insert itself (hop not learned): the notifier still
		// answers through the proxy
		vias = append([]string{fmt.Sprintf("SIP/2.0/UDP %s:%d;branch=z9hG4bKnotifier%s", sv.IP, sv.UDP, id)}, vias...)
	}
	for _, v := range vias {
		resp.Headers = append(resp.Headers, sip.Header{Name: "Via", Value: v})
	}
	resp.Headers = append(resp.Headers,
		sip.Header{Name: "From", Value: "<" + d.a.uri + ">;tag=" + d.a.tag},
		sip.Header{Name: "To", Value: "<" + d.b.uri + ">;tag=" + d.b.tag},
		sip.Header{Name: "Call-ID", Value: d.callID},
		sip.Header{Name: "CSeq", Value: "1 SUBSCRIBE"})
	switch d.subExpires {
	case "":
		resp.Headers = append(resp.Headers, sip.Header{Name: "Expires", Value: "600"})
	case "-":
	default:
		resp.Headers = append(resp.Headers, sip.Header{Name: "Expires", Value: d.subExpires})
	}
	resp.Headers = append(resp.Headers,
		sip.Header{Name: "X-Vf", Value: rid},
		sip.Header{Name: "Content-Length", Value: "0"})
	hop.UDP[wire.NextHopPortA].Send(fmt.Sprintf("%s:%d", sv.IP, sv.UDP), resp.Bytes(), rid)
	robs, ok := w.Net.WaitCase(rid, func(o []*wire.Obs) bool { return len(o) >= 1 }, w.BarrierWait)
	if !ok || robs[0].Ep != be.Name {
		w.run.Inconclusive(1)
		d.ended = true
		return
	}
	d.backend = k
	d.pinned = true
	w.stats["dialogs_established_by_backend_subscribe"]++
}

// refreshSubscribe: the backend that holds the subscription refreshes it (in-dialog SUBSCRIBE,
// both tags) and the notifier answers. Returns the times before the answer was sent and after
// it was seen at the backend, or ok = false.
func (w *dialogWorld) refreshSubscribe(d *dlg) (t0, t1 time.Time, ok bool) {
	g := w.g
	sv := w.Svcs[d.svc]
	if d.backend < 0 || d.backend >= len(sv.BeUDP) {
		return
	}
	be := sv.BeUDP[d.backend]
	hop := w.Hops[g.R.Intn(len(w.Hops))]
	id := w.nextID("rsub")
	m := &sip.Msg{Start: "SUBSCRIBE sip:notifier@ext.example SIP/2.0"}
	m.Headers = []sip.Header{
		{Name: "Via", Value: fmt.Sprintf("SIP/2.0/UDP %s:%d;branch=z9hG4bKvf%s", be.IP(), wire.BackendPort, id)},
		{Name: "Route", Value: fmt.Sprintf("<sip:%s:%d;lr>", hop.IP, wire.NextHopPortA)},
		{Name: "Max-Forwards", Value: "70"},
		{Name: "From", Value: "<" + d.a.uri + ">;tag=" + d.a.tag},
		{Name: "To", Value: "<" + d.b.uri + ">;tag=" + d.b.tag},
		{Name: "Call-ID", Value: d.callID},
		{Name: "CSeq", Value: "2 SUBSCRIBE"},
		{Name: "Event", Value: "presence"},
		{Name: "X-Vf", Value: id},
		{Name: "Content-Length", Value: "0"}}
	be.Send(fmt.Sprintf("%s:%d", sv.IP, sv.UDP), m.Bytes(), id)
	obs, seen := w.Net.WaitCase(id, func(o []*wire.Obs) bool { return len(o) >= 1 }, w.BarrierWait)
	if !seen || obs[0].Msg == nil {
		return
	}
	rid := id + "ok"
	resp := &sip.Msg{Start: "SIP/2.0 200 OK"}
	vias := obs[0].Msg.List("via")
	if len(vias) == 1 {
		vias = append([]string{fmt.Sprintf("SIP/2.0/UDP %s:%d;branch=z9hG4bKnotifier%s", sv.IP, sv.UDP, id)}, vias...)
	}
	for _, v := range vias {
		resp.Headers = append(resp.Headers, sip.Header{Name: "Via", Value: v})
	}
	resp.Headers = append(resp.Headers,
		sip.Header{Name: "From", Value: "<" + d.a.uri + ">;tag=" + d.a.tag},
		sip.Header{Name: "To", Value: "<" + d.b.uri + ">;tag=" + d.b.tag},
		sip.Header{Name: "Call-ID", Value: d.callID},
		sip.Header{Name: "CSeq", Value: "2 SUBSCRIBE"})
	if d.subExpires != "-" && d.subExpires != "" {
		resp.Headers = append(resp.Headers, sip.Header{Name: "Expires", Value: d.subExpires})
	}
	resp.Headers = append(resp.Headers, sip.Header{Name: "X-Vf", Value: rid}, sip.Header{Name: "Content-Length", Value: "0"})
	t0 = time.Now()
	hop.UDP[wire.NextHopPortA].Send(fmt.Sprintf("%s:%d", sv.IP, sv.UDP), resp.Bytes(), rid)
	robs, seen := w.Net.WaitCase(rid, func(o []*wire.Obs) bool { return len(o) >= 1 }, w.BarrierWait)
	t1 = time.Now()
	if !seen || robs[0].Ep != be.Name {
		return
	}
	return t0, t1, true
}

// probe sends one in-dialog request and judges where it lands.
func (w *dialogWorld) probe(d *dlg) {
	g := w.g
	method := inDialogMethods[g.R.Intn(len(inDialogMethods))]
	swapped := g.R.Intn(2) == 0
	from, to := d.a, d.b
	if swapped {
		from, to = d.b, d.a
	}
	var extra []sip.Header
	terminate := false
	if method == "NOTIFY" {
		st := []string{"active", "active;expires=300", "pending", "terminated"}[g.R.Intn(4)]
		if d.kind != "subscribe" && st == "terminated" {
			st = "active"
		}
		extra = append(extra, sip.Header{Name: "Subscription-State", Value: st}, sip.Header{Name: "Event", Value: "presence"})
		terminate = st == "terminated"
	}
	if w.prop == "C04" && d.backend >= 0 && d.backend < len(w.Svcs[d.svc].BeUDP) {
		w.probeCount++
		if w.probeCount%15 == 7 {
			w.oversized(d)
		}
	}
	w.avoidCoincidence(d)
	id := w.nextID("p")
	m := w.request(id, method, d.svc, from, to, d.callID, extra...)
	proto := []string{"udp", "tcp"}[g.R.Intn(2)]
	obs, _, ok := w.sendFromUA(m, id, g.R.Intn(len(w.UAs)), d.svc, proto)
	if !ok {
		w.run.Inconclusive(1)
		return
	}
	be := w.atBackends(d.svc, obs)
	cell := fmt.Sprintf("%s|%s|swapped=%v|%s|be%d/%d", d.kind, method, swapped, proto, d.backend+1, w.nBackends(d.svc))
	if w.prop == "C04" {
		bad := len(be) != 1 || backendIndex(be[0].Ep) != d.backend
		if bad {
			var where []string
			for _, o := range obs {
				where = append(where, o.Ep)
			}
			key := "in-dialog request not delivered to the backend that answered the dialog"
			if len(be) > 1 {
				key = "in-dialog request delivered to more than one backend"
			}
			w.run.Violation(key, map[string]any{"cell": cell, "service": d.svc, "pinned_backend": d.backend + 1, "observed_at": where, "request": string(m.Bytes()), "dialog": map[string]string{"call_id": d.callID, "a": d.a.uri + ";tag=" + d.a.tag, "b": d.b.uri + ";tag=" + d.b.tag, "established_by": d.kind}})
			// the rotation has moved if it was load-balanced
			if len(be) == 1 {
				w.lastRot[d.svc] = backendIndex(be[0].Ep)
			}
			d.ended = true
			return
		}
		w.run.Eval(cell)
		if w.run.WantSample() && d.steps > 2 {
			w.run.Sample(map[string]any{"cell": cell, "request": string(m.Bytes()), "arrived_at": be[0].Ep})
		}
	} else if len(be) == 1 && backendIndex(be[0].Ep) != d.backend {
		w.lastRot[d.svc] = backendIndex(be[0].Ep)
	}
	w.stats["in_dialog_probes_pinned"]++
	if terminate {
		d.ended = true
		w.stats["dialogs_ended_by_notify_terminated"]++
		return
	}
	if method == "BYE" && len(be) == 1 {
		// the backend answers the BYE: the dialog is over
		w.respondFromBackend(d.svc, be[0], id, finalStatuses[g.R.Intn(len(finalStatuses))], "")
		d.ended = true
		w.stats["dialogs_ended_by_bye"]++
	}
}

// ---------------------------------------------------------------- C15 on the wire

type ptEvent struct {
	at   time.Duration
	d    *ptDialog
	what string // establish | probe | bye | notify
	arg  string
}

type ptDialog struct {
	dlg
	expires  int // Expires of the establishing response (0 = absent)
	life     time.Duration
	pinDone  time.Time
	be       *wire.Obs
	dissolve string // "", bye, terminated, dontcare
	invID    string
	// ringFirst: a 180 with the To-tag precedes the 200 that carries the Expires
	ringFirst bool
	// expText: how the Expires value is written ("" = plain decimal)
	expText string
}

// scenarioPinTime: dialogTimeout 2 s on the real binary; lifetimes 2-4 s.
func scenarioPinTime() int {
	run := ev.New("C15", "exploration",
		"timed histories on the real binary (dialogTimeout 2 s in the YAML of every service, DEFAULT_DIALOG_TIMEOUT=1 in the environment; Expires of the establishing answer absent / smaller / larger): every dialog is probed with 3 back-to-back in-dialog requests over >= 3 backends - one socket means pinned, three distinct sockets mean forgotten; "+
			"probes no later than 60% and no earlier than 100%+margin of the lifetime, BYE answered with any final status, NOTIFY active / terminated / terminated;reason (don't-care), unrelated requests carrying Expires up to 2^31-1 in between; verdicts only where the measured brackets prove inside/outside; distinct = (plan, phase) cells")
	const timeout = 2 * time.Second
	// the environment carries another default (1 s): it is only the fall-back for services whose
	// configuration names no dialogTimeout, and every service here names 2 s
	w0, err := wire.NewWorld(*flagBin, *flagDir, wire.Opts{Services: 8, Backends: 3, TCPBackend: true, DialogTimeout: 2, PreStart: func(w *wire.World) error {
		w.ExtraEnv = append(w.ExtraEnv, "DEFAULT_DIALOG_TIMEOUT=1")
		return nil
	}})
	if err != nil {
		fmt.Println("HARNESS-ERROR world:", err)
		return 2
	}
	defer w0.Close()
	w := &dialogWorld{World: w0, run: run, prop: "C15", g: sip.NewGen(shardSeed(run.Seed)), stats: map[string]int{}}
	for range w.Svcs {
		w.lastRot = append(w.lastRot, -1)
		w.rotOrder = append(w.rotOrder, nil)
	}
	g := w.g
	batches := *flagCases
	if batches == 0 {
		batches = ev.Pick(1, 30)
	}
	perBatch := 60
	for b := 0; b < batches && run.Violations() <= 6; b++ {
		if hl := w.Health(); hl != "" {
			run.Violation("proxy died during the run (belongs to C08; the run cannot continue)", map[string]any{"health": hl})
			break
		}
		var evs []ptEvent
		plans := []string{"early+late", "early+late", "ringing-then-expires", "bye", "bye", "bye", "notify-terminated", "notify-active", "notify-reason", "expires-larger", "expires-smaller", "early+late", "subscribe-refresh", "subscribe-refresh", "expires-much-larger", "expires-much-larger"}
		for i := 0; i < perBatch; i++ {
			d := &ptDialog{}
			d.n, d.svc, d.backend, d.kind = i, g.R.Intn(len(w.Svcs)), -1, "invite"
			d.callID = g.Alnum(8, 14) + "@" + g.Hostname()
			d.a, d.b = w.genParty(b*1000+i, "alice"), w.genParty(b*1000+i, "bob")
			if i%7 == 3 {
				d.b.uri = d.a.uri // both parties under one URI (a subscription to oneself): only the tags tell them apart
			}
			plan := plans[g.R.Intn(len(plans))]
			d.life = timeout
			switch plan {
			case "expires-larger", "ringing-then-expires":
				d.expires = 4 + g.R.Intn(2)
				d.life = time.Duration(d.expires) * time.Second
				d.ringFirst = plan == "ringing-then-expires"
			case "expires-much-larger":
				// two probes more than one dialog timeout apart, both well inside the promised lifetime
				// (written with leading zeros now and then: a decimal number all the same)
				d.expires = 8
				d.life = 8 * time.Second
				d.expText = []string{"8", "08", "0008"}[g.R.Intn(3)]
			case "expires-smaller":
				d.expires = 1
			}
			if plan == "subscribe-refresh" {
				// a subscription whose answers promise nothing: lifetime = dialog timeout, renewed by
				// the answer to the refresh
				d.kind, d.subExpires, d.expires, d.life = "subscribe", []string{"-", "0"}[g.R.Intn(2)], 0, timeout
			}
			if strings.HasPrefix(plan, "notify") {
				d.kind = "subscribe"
				// the answer to the backend's SUBSCRIBE carries Expires: 600 (establishSubscribe):
				// that is the promised lifetime of these pins
				d.expires = 600
				d.life = 600 * time.Second
				switch g.R.Intn(3) {
				case 1: // the answer says Expires: 0 - the promised lifetime is the dialog timeout
					d.expires, d.life, d.subExpires = 0, timeout, "0"
				case 2: // the answer carries no Expires at all
					d.expires, d.life, d.subExpires = 0, timeout, "-"
				}
			}
			t0 := time.Duration(g.R.Intn(1200)) * time.Millisecond
			evs = append(evs, ptEvent{at: t0, d: d, what: "establish", arg: plan})
			frac := func(lo, hi int) time.Duration {
				span := d.life
				if span > 10*time.Second {
					span = timeout // subscribe pins live 600 s: their steps are scheduled on the scale of the run
				}
				return time.Duration(int64(span) * int64(lo+g.R.Intn(hi-lo+1)) / 100)
			}
			switch plan {
			case "bye":
				evs = append(evs, ptEvent{at: t0 + frac(10, 40), d: d, what: "bye", arg: fmt.Sprint(nextByeStatus())})
				evs = append(evs, ptEvent{at: t0 + frac(45, 60), d: d, what: "probe", arg: plan})
			case "expires-much-larger":
				evs = append(evs, ptEvent{at: t0 + frac(8, 14), d: d, what: "probe", arg: plan + "/first"})
				evs = append(evs, ptEvent{at: t0 + frac(50, 57), d: d, what: "probe", arg: plan + "/second, more than a timeout later"})
			case "subscribe-refresh":
				rf := frac(50, 60)
				evs = append(evs, ptEvent{at: t0 + rf, d: d, what: "refresh"})
				// beyond the lifetime the first answer gave, inside the one the refresh gave
				evs = append(evs, ptEvent{at: t0 + rf + frac(50, 57), d: d, what: "probe", arg: plan + "/renewed"})
				evs = append(evs, ptEvent{at: t0 + rf + d.life + time.Duration(500+g.R.Intn(500))*time.Millisecond, d: d, what: "probe", arg: plan + "/late"})
			case "notify-terminated":
				evs = append(evs, ptEvent{at: t0 + frac(10, 40), d: d, what: "notify", arg: "terminated"})
				evs = append(evs, ptEvent{at: t0 + frac(45, 60), d: d, what: "probe", arg: plan})
			case "notify-active":
				evs = append(evs, ptEvent{at: t0 + frac(10, 40), d: d, what: "notify", arg: []string{"active", "pending", "active;expires=60"}[g.R.Intn(3)]})
				evs = append(evs, ptEvent{at: t0 + frac(45, 60), d: d, what: "probe", arg: plan})
			case "notify-reason":
				evs = append(evs, ptEvent{at: t0 + frac(10, 40), d: d, what: "notify", arg: "terminated;reason=timeout"})
				evs = append(evs, ptEvent{at: t0 + frac(45, 60), d: d, what: "probe", arg: plan})
			default:
				early := frac(20, 60)
				if plan == "expires-larger" || plan == "ringing-then-expires" {
					early = frac(56, 60) // beyond the plain dialog timeout, inside the promised lifetime
				}
				evs = append(evs, ptEvent{at: t0 + early, d: d, what: "probe", arg: plan + "/early"})
				evs = append(evs, ptEvent{at: t0 + d.life + time.Duration(400+g.R.Intn(600))*time.Millisecond, d: d, what: "probe", arg: plan + "/late"})
			}
		}
		// unrelated traffic with absurd Expires values all along
		for t := time.Duration(0); t < 9*time.Second; t += time.Duration(150+g.R.Intn(200)) * time.Millisecond {
			evs = append(evs, ptEvent{at: t, what: "unrelated"})
		}
		// time order
		for i := 1; i < len(evs); i++ {
			for j := i; j > 0 && evs[j-1].at > evs[j].at; j-- {
				evs[j-1], evs[j] = evs[j], evs[j-1]
			}
		}
		start := time.Now()
		for _, e := range evs {
			if d := time.Until(start.Add(e.at)); d > 0 {
				time.Sleep(d)
			}
			if run.Violations() > 6 {
				break
			}
			w.ptExec(e)
		}
		w.Net.Trim()
	}
	for k, v := range w.stats {
		run.Observe(k, v)
	}
	run.Observe("barriers", w.Barriers)
	run.Observe("barrier_timeouts", w.BarrierMisses)
	if w.stats["probes_must_be_pinned"] < 5 || w.stats["probes_must_be_gone_by_lifetime"] < 5 || w.stats["probes_must_be_gone_by_bye"] < 1 {
		run.Violation("observed-nothing", w.stats)
	}
	run.Assume("verdicts only where the measured send/receive brackets prove the probe to lie inside or outside the lifetime; everything else is a counted don't-care")
	return run.Finish(20)
}

func (w *dialogWorld) ptExec(e ptEvent) {
	g := w.g
	if e.what == "unrelated" {
		svc := g.R.Intn(len(w.Svcs))
		id := w.nextID("u")
		var extra []sip.Header
		if g.R.Intn(2) == 0 {
			extra = append(extra, sip.Header{Name: "Expires", Value: []string{"2147483647", "1000000", "0", "7200"}[g.R.Intn(4)]})
		}
		m := w.request(id, []string{"OPTIONS", "REGISTER", "MESSAGE"}[g.R.Intn(3)], svc, dparty{"sip:probe@ua.verif.test", "p" + id}, dparty{"sip:nobody@callee.example", ""}, id+"@vf", extra...)
		w.sendFromUA(m, id, g.R.Intn(len(w.UAs)), svc, "udp")
		w.stats["unrelated_requests"]++
		return
	}
	d := e.d
	switch e.what {
	case "establish":
		if d.kind == "subscribe" {
			d.pinStart = time.Now()
			w.establishSubscribe(&d.dlg)
			d.pinDone = time.Now()
			if d.backend < 0 {
				d.ended = true
			}
			return
		}
		id := w.nextID("i")
		m := w.request(id, "INVITE", d.svc, d.a, dparty{d.b.uri, ""}, d.callID)
		obs, _, ok := w.sendFromUA(m, id, g.R.Intn(len(w.UAs)), d.svc, []string{"udp", "tcp"}[g.R.Intn(2)])
		be := w.atBackends(d.svc, obs)
		if !ok || len(be) != 1 {
			d.ended = true
			w.run.Inconclusive(1)
			return
		}
		d.backend = backendIndex(be[0].Ep)
		d.be = be[0]
		var extra []sip.Header
		if d.expires > 0 {
			v := fmt.Sprint(d.expires)
			if d.expText != "" {
				v = d.expText
			}
			extra = append(extra, sip.Header{Name: "Expires", Value: v})
		}
		if d.ringFirst {
			w.respondFromBackend(d.svc, be[0], id, 180, d.b.tag)
		}
		d.pinStart = time.Now()
		if !w.respondFromBackend(d.svc, be[0], id, 200, d.b.tag, extra...) {
			d.ended = true
			w.run.Inconclusive(1)
			return
		}
		d.pinDone = time.Now()
		d.pinned = true
	case "bye":
		if d.ended || d.backend < 0 {
			return
		}
		id := w.nextID("bye")
		m := w.request(id, "BYE", d.svc, d.a, d.b, d.callID)
		w.byeCount++
		byeProto, byeUA := "udp", g.R.Intn(len(w.UAs))
		if w.byeCount%3 == 2 && d.backend < len(w.Svcs[d.svc].BeUDP) {
			byeProto = "tcp"
		}
		obs, byePath, ok := w.sendFromUA(m, id, byeUA, d.svc, byeProto)
		be := w.atBackends(d.svc, obs)
		if !ok || len(be) != 1 {
			d.ended = true
			return
		}
		var status int
		fmt.Sscanf(e.arg, "%d", &status)
		if byeProto == "tcp" && be[0].Proto == "udp" {
			// the caller hangs up its connection right after the BYE: the backend's answer can no
			// longer be passed on to it - the backend has answered the BYE all the same. The answer
			// enters through the listener's UDP socket; a sentinel through the same socket proves
			// that the proxy has dealt with it.
			w.DropConn(byePath)
			time.Sleep(30 * time.Millisecond)
			w.noWaitForAnswer = true
			w.respondFromBackend(d.svc, be[0], id, status, "")
			w.noWaitForAnswer = false
			if w.Barrier(wire.Path{UA: byeUA, Svc: d.svc, Proto: "udp"}) {
				d.dissolve = "bye"
				w.stats["byes_answered_after_the_caller_hung_up_its_connection"]++
			} else {
				d.ended = true
			}
			return
		}
		if be[0].Proto == "udp" {
			w.stats["byes_to_udp_backends"]++
		}
		if be[0].Proto == "udp" && w.stats["byes_to_udp_backends"]%2 == 1 {
			// the backend answers the BYE from another socket than the one it listens on (a worker
			// process, a fresh ephemeral port): it is still the answer of that backend
			sv := w.Svcs[d.svc]
			var beIP string
			for _, x := range sv.BeUDP {
				if x.Name == be[0].Ep {
					beIP = x.IP()
				}
			}
			alt, err := w.Net.UDP(fmt.Sprintf("%s/alt%s", be[0].Ep, id), beIP+":0")
			if err != nil {
				d.ended = true
				return
			}
			rid := id + "x" + fmt.Sprint(status)
			resp := &sip.Msg{Start: fmt.Sprintf("SIP/2.0 %d Answer", status)}
			for _, h := range be[0].Msg.Headers {
				switch sip.Canon(h.Name) {
				case "via", "from", "to", "call-id", "cseq":
					resp.Headers = append(resp.Headers, h)
				}
			}
			resp.Headers = append(resp.Headers, sip.Header{Name: "X-Vf", Value: rid}, sip.Header{Name: "Content-Length", Value: "0"})
			alt.Send(fmt.Sprintf("%s:%d", sv.IP, sv.UDP), resp.Bytes(), rid)
			if _, ok := w.Net.WaitCase(rid, func(x []*wire.Obs) bool { return len(x) >= 1 }, w.BarrierWait); ok {
				d.dissolve = "bye"
				w.stats["byes_answered_from_another_socket"]++
			} else {
				d.ended = true
			}
			return
		}
		if w.respondFromBackend(d.svc, be[0], id, status, "") {
			d.dissolve = "bye"
		} else {
			d.ended = true
		}
	case "refresh":
		if d.ended || d.backend < 0 {
			return
		}
		if time.Since(d.pinDone) > d.life*8/10 {
			d.ended = true // too late to refresh safely inside the first lifetime (loaded machine)
			return
		}
		a, b, ok := w.refreshSubscribe(&d.dlg)
		if !ok {
			d.ended = true
			w.run.Inconclusive(1)
			return
		}
		d.pinStart, d.pinDone = a, b
		w.stats["subscriptions_refreshed"]++
	case "notify":
		if d.ended || d.backend < 0 {
			return
		}
		id := w.nextID("ntf")
		m := w.request(id, "NOTIFY", d.svc, d.b, d.a, d.callID, sip.Header{Name: "Subscription-State", Value: e.arg}, sip.Header{Name: "Event", Value: "presence"})
		_, _, ok := w.sendFromUA(m, id, g.R.Intn(len(w.UAs)), d.svc, "udp")
		if !ok {
			d.ended = true
			return
		}
		switch {
		case e.arg == "terminated":
			d.dissolve = "terminated"
		case strings.HasPrefix(e.arg, "terminated"):
			d.dissolve = "dontcare"
		}
	case "probe":
		if d.ended || d.backend < 0 {
			return
		}
		// three back-to-back in-dialog requests
		var hit []int
		tSend := time.Now()
		for k := 0; k < 3; k++ {
			id := w.nextID("q")
			from, to := d.a, d.b
			if k%2 == 1 {
				from, to = d.b, d.a
			}
			m := w.request(id, []string{"INFO", "UPDATE", "MESSAGE", "OPTIONS"}[g.R.Intn(4)], d.svc, from, to, d.callID)
			obs, _, ok := w.sendFromUA(m, id, g.R.Intn(len(w.UAs)), d.svc, "udp")
			be := w.atBackends(d.svc, obs)
			if !ok || len(be) != 1 {
				w.run.Inconclusive(1)
				return
			}
			hit = append(hit, backendIndex(be[0].Ep))
		}
		tDone := time.Now()
		allPinned := hit[0] == d.backend && hit[1] == d.backend && hit[2] == d.backend
		distinct := hit[0] != hit[1] && hit[1] != hit[2] && hit[0] != hit[2]
		detail := map[string]any{"plan": e.arg, "service": d.svc, "pinned_backend": d.backend + 1, "probes_hit_backends": []int{hit[0] + 1, hit[1] + 1, hit[2] + 1},
			"lifetime_s": d.life.Seconds(), "expires_in_answer": d.expires, "age_at_most_s": tDone.Sub(d.pinStart).Seconds(), "age_at_least_s": tSend.Sub(d.pinDone).Seconds(), "dissolved_by": d.dissolve,
			"dialog": map[string]string{"call_id": d.callID, "a": d.a.uri + ";tag=" + d.a.tag, "b": d.b.uri + ";tag=" + d.b.tag, "kind": d.kind}}
		switch {
		case d.dissolve == "dontcare":
			w.stats["probes_dont_care"]++
		case d.dissolve == "bye" || d.dissolve == "terminated":
			w.stats["probes_must_be_gone_by_"+d.dissolve]++
			if !distinct {
				w.run.Violation("pin survives the end of its dialog ("+d.dissolve+")", detail)
				return
			}
			w.run.Eval(e.arg + "|gone-by-" + d.dissolve)
		case tDone.Sub(d.pinStart) < d.life:
			w.stats["probes_must_be_pinned"]++
			if !allPinned {
				w.run.Violation("pin not honoured inside its lifetime", detail)
				return
			}
			w.run.Eval(e.arg + "|pinned")
		case tSend.Sub(d.pinDone) > d.life:
			w.stats["probes_must_be_gone_by_lifetime"]++
			if !distinct {
				w.run.Violation("pin honoured after its lifetime elapsed", detail)
				return
			}
			w.run.Eval(e.arg + "|gone")
		default:
			w.stats["probes_dont_care"]++
		}
		if w.run.WantSample() {
			w.run.Sample(detail)
		}
	}
}
