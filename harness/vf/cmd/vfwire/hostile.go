package main

// Scenario "hostile" (C08, wire part): hostile bytes to the UDP and TCP
// listeners of the real binary. After every batch a probe set checks that the
// proxy still serves traffic on every relaying path; process health, memory
// (through the binary's own pprof port) and descriptors are sampled.

import (
	"encoding/base64"
	"fmt"
	"strconv"
	"strings"
	"time"

	"vf/ev"
	"vf/sip"
	"vf/wire"
)

type hostileInput struct {
	raw   []byte
	proto string // udp | tcp
	svc   int
	mut   string
}

type probe struct {
	name string
	run  func(w *wire.World, n int) bool
}

func hostileSeeds(w *wire.World, g *sip.Gen, svc int) [][]byte {
	sv := w.Svcs[svc]
	nh1 := w.Hops[0]
	nh2 := w.Hops[1]
	ua := w.UAs[1]
	var seeds [][]byte
	mk := func(i int, start string, extra ...sip.Header) {
		id := fmt.Sprintf("h%d", i)
		m := &sip.Msg{Start: start}
		m.Headers = append(m.Headers, extra...)
		if m.IsRequest() {
			m.Headers = append(m.Headers, sip.Header{Name: "Via", Value: fmt.Sprintf("SIP/2.0/UDP %s:5060;branch=z9hG4bK%s;rport", ua.IP, id)})
		}
		to := "<sip:bob@nomatch.example>"
		if sv.HasDef {
			to = "<tel:+15550000>"
		}
		for _, h := range extra {
			if sip.Canon(h.Name) == "to" {
				to = ""
			}
		}
		m.Headers = append(m.Headers, sip.Header{Name: "Max-Forwards", Value: "70"},
			sip.Header{Name: "From", Value: "\"A\" <sip:alice@ua.verif.test>;tag=" + g.Tag()})
		if to != "" {
			m.Headers = append(m.Headers, sip.Header{Name: "To", Value: to})
		}
		m.Headers = append(m.Headers, sip.Header{Name: "Call-ID", Value: id + "@hostile"},
			sip.Header{Name: "CSeq", Value: fmt.Sprintf("%d %s", 1+g.R.Intn(50), []string{"INVITE", "BYE", "SUBSCRIBE", "NOTIFY", "OPTIONS"}[g.R.Intn(5)])})
		body, _ := g.Body(2000)
		m.Body = body
		m.Headers = append(m.Headers, sip.Header{Name: "Content-Length", Value: fmt.Sprint(len(body))})
		seeds = append(seeds, m.Bytes())
	}
	for i := 0; i < 40; i++ {
		switch i % 6 {
		case 0:
			mk(i, fmt.Sprintf("%s sip:%s@svc%d.verif.test SIP/2.0", g.Method(), g.Alnum(1, 5), svc))
		case 1:
			mk(i, g.Method()+" sip:x@foreign.example SIP/2.0", sip.Header{Name: "Route", Value: fmt.Sprintf("<sip:%s:%d;lr>", nh1.IP, wire.NextHopPortA)})
		case 2:
			mk(i, g.Method()+" sip:x@foreign.example SIP/2.0", sip.Header{Name: "Route", Value: fmt.Sprintf("<sip:%s:%d;transport=tcp;lr>", nh2.IP, wire.NextHopPortB)})
		case 3:
			mk(i, g.Method()+" sip:x@foreign.example SIP/2.0", sip.Header{Name: "To", Value: "<sip:carol@exact.verif.test>"})
		case 4:
			mk(i, fmt.Sprintf("SIP/2.0 %d %s", 100+g.R.Intn(600), g.Reason()),
				sip.Header{Name: "Via", Value: fmt.Sprintf("SIP/2.0/UDP %s:%d;branch=z9hG4bKtop", sv.IP, sv.UDP)},
				sip.Header{Name: "Via", Value: fmt.Sprintf("SIP/2.0/UDP %s:%d;branch=z9hG4bKh%d", nh1.IP, wire.NextHopPortA, i)})
		default:
			mk(i, fmt.Sprintf("SIP/2.0 %d %s", 100+g.R.Intn(600), g.Reason()),
				sip.Header{Name: "Via", Value: fmt.Sprintf("SIP/2.0/UDP %s:%d;branch=z9hG4bKtop", sv.IP, sv.UDP)},
				sip.Header{Name: "Via", Value: fmt.Sprintf("SIP/2.0/TCP %s:%d;branch=z9hG4bKh%d", nh2.IP, wire.NextHopPortB, i)})
		}
	}
	return seeds
}

func scenarioHostile() int {
	run := ev.New("C08", "exploration",
		"hostile inputs (the structure-aware mutators of the in-package part plus messages that arrive over TCP and are too large for the UDP hop they are routed to) sent to UDP listeners and over fresh TCP connections of the real -race binary; after every batch a probe set "+
			"(sentinel + one valid message per relaying path over UDP and over a fresh TCP connection, aimed at the destinations the batch was aimed at) must be relayed; process exit / panic / fatal error on stderr; TotalAlloc, HeapSys (pprof port), VmHWM and descriptor count sampled per batch; "+
			"a missed probe or a dead process is narrowed down to one input by replay on fresh proxies; distinct = (mutator, transport) cells")
	w, err := wire.NewWorld(*flagBin, *flagDir, wire.Opts{Services: 4, TCPBackend: true})
	if err != nil {
		fmt.Println("HARNESS-ERROR world:", err)
		return 2
	}
	defer w.Close()
	g := sip.NewGen(shardSeed(run.Seed))
	total := *flagCases
	if total == 0 {
		total = ev.Pick(12000, 300000)
	}
	const B = 200
	var seeds [][][]byte
	for s := range w.Svcs {
		seeds = append(seeds, hostileSeeds(w, g, s))
	}
	probes := hostileProbes()
	// everything must work before the first hostile byte
	for s := range w.Svcs {
		for _, p := range probes {
			if !p.run(w, s) {
				fmt.Printf("HARNESS-ERROR probe %s fails on the untouched proxy (service %d)\n", p.name, s)
				return 2
			}
		}
	}
	base, err := w.Proxy.MemStats()
	if err != nil {
		fmt.Println("HARNESS-ERROR pprof:", err)
		return 2
	}
	var maxRatio float64
	var maxHeapSys uint64
	var maxFds int
	var maxHWM int64
	sent, sentBytes, closedOK, closedChecked := 0, int64(0), 0, 0
	slowBatches := 0
	sinceRestart := 0
	answered := 0
	flooded := false
	floodInputs := 0
	for sent < total && run.Violations() <= 4 {
		var batch []hostileInput
		mark := w.Net.Count()
		m0, _ := w.Proxy.MemStats()
		var bbytes int64
		if !flooded && sent >= B {
			// once per proxy process: thousands of datagrams that are no messages at all (keep-alives,
			// stray bytes) at one listener - it goes on serving like every other
			flooded = true
			fsvc := g.R.Intn(len(w.Svcs))
			for k := 0; k < 6000; k++ {
				in := hostileInput{svc: fsvc, proto: "udp", mut: "keep-alive-flood", raw: [][]byte{[]byte("\r\n\r\n"), []byte("\r\n"), []byte("jaK\n"), {0}, []byte("SIP/2.0")}[k%5]}
				batch = append(batch, in)
				hostileSend(w, in)
				bbytes += int64(len(in.raw))
				if k%20 == 19 {
					time.Sleep(time.Millisecond) // paced: they are meant to arrive, not to be dropped by the kernel
				}
			}
			floodInputs += 6000
			run.Eval("keep-alive-flood|udp")
		}
		for k := 0; k < B; k++ {
			svc := g.R.Intn(len(w.Svcs))
			in := hostileInput{svc: svc, proto: []string{"udp", "tcp"}[g.R.Intn(2)]}
			seed := seeds[svc][g.R.Intn(len(seeds[svc]))]
			if g.R.Intn(25) == 0 {
				// arrives over TCP, far too large for the UDP hop it is routed to
				m, _ := sip.Read(seeds[svc][1])
				wire.WithBody(m, []byte(strings.Repeat("B", 66000+g.R.Intn(3000))))
				in.raw, in.mut, in.proto = m.Bytes(), "oversize-for-udp-hop", "tcp"
			} else if g.R.Intn(150) == 0 {
				// a well-formed request whose To host is tens of thousands of dots (and one that
				// nearly matches the pattern with several wildcards): looked up in the route table
				m := wire.StdRequest(fmt.Sprintf("dots%d", sent+k), "OPTIONS", "sip:x@foreign.example", in.proto, w.UAs[0].IP, wire.UDPPort)
				host := strings.Repeat(".", 20000+g.R.Intn(20000))
				if g.R.Intn(2) == 0 {
					host = strings.Repeat("a.", 15000) + "multi.verif.tesx"
				}
				wire.SetHeader(m, "To", "<sip:bob@"+host+">")
				in.raw, in.mut = m.Bytes(), "to-host-of-dots"
			} else {
				in.raw, in.mut = g.Mutate(seed)
			}
			if in.proto == "udp" && len(in.raw) > 65000 {
				in.raw = in.raw[:65000]
			}
			batch = append(batch, in)
			hostileSend(w, in)
			bbytes += int64(len(in.raw))
			run.Eval(strings.SplitN(in.mut, "=", 2)[0] + "|" + in.proto)
		}
		// whatever of the batch got through to a backend is answered by it: the answers travel back
		// towards clients of which most have hung up long ago (every TCP input came over a
		// connection of its own that was closed right after the write)
		time.Sleep(20 * time.Millisecond)
		nans := 0
		for _, o := range w.Net.Since(mark) {
			if nans >= 60 {
				break
			}
			if o.Msg != nil && o.Msg.IsRequest() && hostileAnswer(w, o, []int{200, 180, 404, 100}[nans%4]) {
				nans++
				answered++
			}
		}
		// connections that deliver only the beginning of a message and then stay silent
		// (still open while the probe set runs): they must not hold up anybody else
		var dangling []*wire.TCPConn
		for k := 0; k < 12; k++ {
			sv := w.Svcs[g.R.Intn(len(w.Svcs))]
			c, err := w.Net.Dial("dangling", w.UAs[3].IP+":0", fmt.Sprintf("%s:%d", sv.IP, sv.TCP))
			if err != nil {
				continue
			}
			seed := seeds[sv.Index][g.R.Intn(len(seeds[sv.Index]))]
			cut := 1 + g.R.Intn(len(seed)-1)
			if k%3 == 0 {
				// complete header section announcing a body that never comes
				m, _ := sip.Read(seed)
				wire.SetHeader(m, "Content-Length", "5000")
				m.Body = []byte("only-a-few-bytes")
				seed = m.Bytes()
				cut = len(seed)
			}
			c.Send(seed[:cut], "")
			dangling = append(dangling, c)
			run.Eval("dangling-partial|tcp")
		}
		sent += len(batch)
		sinceRestart += len(batch)
		if n := len(batch); n > B {
			sent -= n - B // the flood does not count against the number of inputs of the run
		}
		sentBytes += bbytes
		// health, probes. A probe that is missed is retried under a generous watchdog:
		// a proxy that is merely busy with the backlog of a heavy batch on a loaded
		// machine is slow, not stalled - only a probe that still fails after the
		// watchdog counts
		failed := ""
		failedSvc := 0
		firstProbes := func() (string, int) {
			if h := w.Health(); h != "" {
				return "process", 0
			}
			for s := range w.Svcs {
				for _, p := range probes {
					if !p.run(w, s) {
						if w.Health() != "" {
							return "process", 0
						}
						return p.name, s
					}
				}
			}
			return "", 0
		}
		watchdog := time.Now().Add(90 * time.Second)
		for {
			failed, failedSvc = firstProbes()
			if failed == "" || failed == "process" || time.Now().After(watchdog) {
				break
			}
			slowBatches++
		}
		// a TCP connection carrying undecodable input must be closed (checked with the loop idle)
		if failed == "" {
			if c, err := w.Net.Dial("garbage", w.UAs[2].IP+":0", fmt.Sprintf("%s:%d", w.Svcs[0].IP, w.Svcs[0].TCP)); err == nil {
				c.Send([]byte("THIS IS NOT SIP\r\n\r\n"), "")
				closedChecked++
				deadline := time.Now().Add(60 * time.Second)
				for time.Now().Before(deadline) && !c.EOF() {
					time.Sleep(2 * time.Millisecond)
				}
				if c.EOF() {
					closedOK++
				} else if w.Health() == "" {
					run.Violation("a TCP connection carrying undecodable input was not closed within 60 s although the proxy is idle", map[string]any{"sent": "THIS IS NOT SIP\\r\\n\\r\\n"})
				}
				c.Close(false)
			}
		}
		for _, c := range dangling {
			c.Close(false)
		}
		if failed != "" {
			hostileNarrow(run, w, batch, probes, failed, failedSvc)
			if err := w.StartProxy(); err != nil {
				fmt.Println("HARNESS-ERROR restart:", err)
				break
			}
			sinceRestart = 0
			flooded = false
			continue
		}
		// memory
		if m1, err := w.Proxy.MemStats(); err == nil {
			delta := float64(m1.TotalAlloc - m0.TotalAlloc)
			bound := float64(16<<20) + 1024*float64(bbytes)
			if r := delta / float64(bbytes+1); r > maxRatio {
				maxRatio = r
			}
			if m1.HeapSys > maxHeapSys {
				maxHeapSys = m1.HeapSys
			}
			if delta > bound || m1.HeapSys > base.HeapSys+256<<20 {
				run.Violation("memory out of proportion to the bytes received", map[string]any{"batch_bytes": bbytes, "totalalloc_delta": delta, "bound": bound, "heapsys_mib": m1.HeapSys >> 20, "baseline_heapsys_mib": base.HeapSys >> 20, "mutators_in_batch": hostileMutators(batch)})
			}
		}
		hwm, _, fds := w.Proxy.ProcStatus()
		if fds > maxFds {
			maxFds = fds
		}
		if hwm > maxHWM {
			maxHWM = hwm
		}
		w.Net.Trim()
		if sinceRestart >= 40000 {
			// the binary keeps one UDP socket per destination it ever sent to; stay far from the descriptor limit
			if err := w.StartProxy(); err != nil {
				fmt.Println("HARNESS-ERROR restart:", err)
				break
			}
			sinceRestart = 0
			flooded = false
		}
	}
	run.Observe("inputs_sent", sent)
	run.Observe("bytes_sent", sentBytes)
	run.Observe("probe_sets_passed", sent/B)
	run.Observe("hostile_requests_that_reached_a_backend_and_were_answered", answered)
	run.Observe("probe_sets_that_needed_a_retry_slow_not_stalled", slowBatches)
	run.Observe("max_totalalloc_per_received_byte", maxRatio)
	run.Observe("max_heapsys_mib", maxHeapSys>>20)
	run.Observe("max_vmhwm_kib", maxHWM)
	run.Observe("max_open_descriptors", maxFds)
	run.Observe("garbage_tcp_connections_closed_by_proxy", fmt.Sprintf("%d/%d", closedOK, closedChecked))
	run.Observe("datagrams_that_are_no_messages_sent_in_floods", floodInputs)
	run.Observe("memory_bound", "per batch: delta TotalAlloc <= 16 MiB + 1024 x bytes sent; HeapSys <= baseline + 256 MiB")
	run.Observe("race_reports_during_run", len(wire.RaceReports(w.Proxy.Dir, "sipproxy")))
	run.Assume("peers that stop reading a TCP connection and tar-pit destinations are outside the stated domain (bytes delivered to a listener)")
	return run.Finish(int64(total) / 2)
}

// hostileAnswer lets the backend that received o answer it (no waiting: the client may be gone).
func hostileAnswer(w *wire.World, o *wire.Obs, status int) bool {
	for _, sv := range w.Svcs {
		if !sv.BackendEndpointNames()[o.Ep] {
			continue
		}
		resp := &sip.Msg{Start: fmt.Sprintf("SIP/2.0 %d Answer", status)}
		for _, h := range o.Msg.Headers {
			switch sip.Canon(h.Name) {
			case "via", "from", "call-id", "cseq", "to":
				resp.Headers = append(resp.Headers, h)
			}
		}
		resp.Headers = append(resp.Headers, sip.Header{Name: "Content-Length", Value: "0"})
		if o.Proto == "udp" {
			for _, e := range sv.BeUDP {
				if e.Name == o.Ep {
					e.Send(fmt.Sprintf("%s:%d", sv.IP, sv.UDP), resp.Bytes(), "")
					return true
				}
			}
		} else {
			for _, l := range sv.BeTCP {
				if c := l.ConnByID(o.Conn); c != nil {
					c.Send(resp.Bytes(), "")
					return true
				}
			}
		}
	}
	return false
}

func hostileMutators(b []hostileInput) map[string]int {
	r := map[string]int{}
	for _, in := range b {
		r[strings.SplitN(in.mut, "=", 2)[0]]++
	}
	return r
}

func hostileSend(w *wire.World, in hostileInput) {
	sv := w.Svcs[in.svc]
	if in.proto == "udp" {
		w.UAs[1].UDP.Send(fmt.Sprintf("%s:%d", sv.IP, sv.UDP), in.raw, "")
		return
	}
	c, err := w.Net.Dial("hostile", w.UAs[1].IP+":0", fmt.Sprintf("%s:%d", sv.IP, sv.TCP))
	if err != nil {
		return
	}
	c.Send(in.raw, "")
	c.Close(false)
}

var hostileSeq int

func hostileProbes() []probe {
	expectAt := func(w *wire.World, id string, pred func(o *wire.Obs) bool) bool {
		obs, ok := w.Net.WaitCase(id, func(o []*wire.Obs) bool {
			for _, x := range o {
				if pred(x) {
					return true
				}
			}
			return false
		}, w.BarrierWait)
		_ = obs
		w.Net.Forget(id)
		return ok
	}
	req := func(w *wire.World, svc int, proto string, build func(id string, m *sip.Msg), pred func(o *wire.Obs) bool) bool {
		hostileSeq++
		id := fmt.Sprintf("pr%d", hostileSeq)
		sv := w.Svcs[svc]
		m := wire.StdRequest(id, "OPTIONS", "sip:x@foreign.example", proto, w.UAs[1].IP, wire.UDPPort)
		if sv.HasDef {
			wire.SetHeader(m, "To", "<tel:+15550001>")
		}
		build(id, m)
		path := wire.Path{UA: 1, Svc: svc, Proto: proto}
		if proto == "tcp" {
			w.DropConn(path) // a fresh connection
		}
		if w.Send(path, m.Bytes(), id) != nil {
			return false
		}
		return expectAt(w, id, pred)
	}
	return []probe{
		{"sentinel over UDP", func(w *wire.World, s int) bool { return w.Barrier(wire.Path{UA: 1, Svc: s, Proto: "udp"}) }},
		{"request to a backend", func(w *wire.World, s int) bool {
			names := w.Svcs[s].BackendEndpointNames()
			return req(w, s, "udp", func(id string, m *sip.Msg) { m.Start = fmt.Sprintf("OPTIONS sip:svc%d.verif.test SIP/2.0", s) }, func(o *wire.Obs) bool { return names[o.Ep] })
		}},
		{"request by Route to the UDP next hop", func(w *wire.World, s int) bool {
			h := w.Hops[0]
			return req(w, s, "udp", func(id string, m *sip.Msg) {
				wire.InsertBefore(m, "max-forwards", sip.Header{Name: "Route", Value: fmt.Sprintf("<sip:%s:%d;lr>", h.IP, wire.NextHopPortA)})
			}, func(o *wire.Obs) bool { return o.Ep == h.UDP[wire.NextHopPortA].Name })
		}},
		{"request by Route to the TCP next hop", func(w *wire.World, s int) bool {
			h := w.Hops[1]
			return req(w, s, "udp", func(id string, m *sip.Msg) {
				wire.InsertBefore(m, "max-forwards", sip.Header{Name: "Route", Value: fmt.Sprintf("<sip:%s:%d;transport=tcp;lr>", h.IP, wire.NextHopPortB)})
			}, func(o *wire.Obs) bool { return o.Ep == h.TCP[wire.NextHopPortB].Name })
		}},
		{"request by static route", func(w *wire.World, s int) bool {
			h := w.Hops[0]
			return req(w, s, "udp", func(id string, m *sip.Msg) { wire.SetHeader(m, "To", "<sip:carol@exact.verif.test>") }, func(o *wire.Obs) bool { return o.Ep == h.UDP[wire.NextHopPortA].Name })
		}},
		{"response by Via to the UDP next hop", func(w *wire.World, s int) bool {
			hostileSeq++
			id := fmt.Sprintf("pr%d", hostileSeq)
			sv, h := w.Svcs[s], w.Hops[0]
			m := fmt.Sprintf("SIP/2.0 200 OK\r\nVia: SIP/2.0/UDP %s:%d;branch=z9hG4bKtop\r\nVia: SIP/2.0/UDP %s:%d;branch=z9hG4bKvf%s\r\nFrom: <sip:a@x>;tag=1\r\nTo: <sip:b@y>;tag=2\r\nCall-ID: %s@vf\r\nCSeq: 1 OPTIONS\r\nX-Vf: %s\r\nContent-Length: 0\r\n\r\n", sv.IP, sv.UDP, h.IP, wire.NextHopPortA, id, id, id)
			w.UAs[1].UDP.Send(fmt.Sprintf("%s:%d", sv.IP, sv.UDP), []byte(m), id)
			return expectAt(w, id, func(o *wire.Obs) bool { return o.Ep == h.UDP[wire.NextHopPortA].Name })
		}},
		{"response by Via to the TCP next hop", func(w *wire.World, s int) bool {
			hostileSeq++
			id := fmt.Sprintf("pr%d", hostileSeq)
			sv, h := w.Svcs[s], w.Hops[1]
			m := fmt.Sprintf("SIP/2.0 200 OK\r\nVia: SIP/2.0/UDP %s:%d;branch=z9hG4bKtop\r\nVia: SIP/2.0/TCP %s:%d;branch=z9hG4bKvf%s\r\nFrom: <sip:a@x>;tag=1\r\nTo: <sip:b@y>;tag=2\r\nCall-ID: %s@vf\r\nCSeq: 1 OPTIONS\r\nX-Vf: %s\r\nContent-Length: 0\r\n\r\n", sv.IP, sv.UDP, h.IP, wire.NextHopPortB, id, id, id)
			w.UAs[1].UDP.Send(fmt.Sprintf("%s:%d", sv.IP, sv.UDP), []byte(m), id)
			return expectAt(w, id, func(o *wire.Obs) bool { return o.Ep == h.TCP[wire.NextHopPortB].Name })
		}},
		{"sentinel over a fresh TCP connection", func(w *wire.World, s int) bool {
			p := wire.Path{UA: 1, Svc: s, Proto: "tcp"}
			w.DropConn(p)
			return w.Barrier(p)
		}},
		{"request to a backend over TCP", func(w *wire.World, s int) bool {
			names := w.Svcs[s].BackendEndpointNames()
			return req(w, s, "tcp", func(id string, m *sip.Msg) { m.Start = fmt.Sprintf("OPTIONS sip:svc%d.verif.test SIP/2.0", s) }, func(o *wire.Obs) bool { return names[o.Ep] })
		}},
	}
}

// hostileNarrow replays the batch input by input on a fresh proxy to find the
// one input after which the failing observation first appears, then confirms
// it alone on another fresh proxy.
func hostileNarrow(run *ev.Run, w *wire.World, batch []hostileInput, probes []probe, failed string, svc int) {
	first := w.Health()
	stderr := w.Proxy.StderrHead(2500)
	check := func() bool {
		if failed == "process" {
			time.Sleep(3 * time.Millisecond)
			return w.Health() == ""
		}
		for _, p := range probes {
			if p.name == failed {
				return p.run(w, svc) && w.Health() == ""
			}
		}
		return true
	}
	once := check
	check = func() bool {
		// three tries: a slow answer is not a failure
		for try := 0; try < 3; try++ {
			if once() {
				return true
			}
			if w.Health() != "" {
				return false
			}
		}
		return false
	}
	if w.StartProxy() != nil {
		run.Violation("proxy cannot be restarted", map[string]any{"after": failed})
		return
	}
	culprit := -1
	for i, in := range batch {
		hostileSend(w, in)
		if in.proto == "tcp" {
			time.Sleep(30 * time.Millisecond) // its connection is served by a goroutine of its own
		}
		if !check() {
			culprit = i
			break
		}
	}
	detail := map[string]any{"failed": failed, "service": svc, "first_health": first, "stderr": stderr, "mutators_in_batch": hostileMutators(batch)}
	if culprit < 0 {
		// the whole batch replayed cleanly: not reproduced
		if failed == "process" {
			// a dead process is self-certifying even if the replay survives (e.g. a scheduling-dependent crash)
			run.Violation("the proxy process died during a hostile batch (input not isolated by replay)", detail)
			return
		}
		run.Inconclusive(1)
		fmt.Printf("INCONCLUSIVE probe %q missed after a batch but the batch replays cleanly\n", failed)
		return
	}
	in := batch[culprit]
	detail["culprit_mutator"] = in.mut
	detail["culprit_transport"] = in.proto
	detail["culprit_b64"] = base64.StdEncoding.EncodeToString(in.raw)
	txt := in.raw
	if len(txt) > 1500 {
		txt = append(append([]byte{}, txt[:1500]...), []byte(fmt.Sprintf("...(%d bytes)", len(in.raw)))...)
	}
	detail["culprit_text"] = strconv.QuoteToASCII(string(txt))
	detail["stderr_on_replay"] = w.Proxy.StderrHead(2500)
	// confirm alone
	if w.StartProxy() != nil {
		return
	}
	hostileSend(w, in)
	time.Sleep(30 * time.Millisecond)
	if check() {
		detail["confirmed_alone"] = false
		// needs its predecessors: still a reproduced violation of the batch prefix
	} else {
		detail["confirmed_alone"] = true
		detail["stderr_alone"] = w.Proxy.StderrHead(2500)
	}
	key := "one hostile input stops the proxy from serving the traffic that follows: " + failed
	if failed == "process" {
		key = "one hostile input kills the proxy process"
	}
	run.Violation(key, detail)
}
