package main

// Scenario "concurrent" (C01 and C03 under load on several listeners): a
// process with two services of three listeners each - every listener has its
// own message loop, all loops of a service share the static route table, all
// loops of the process share whatever is package-level. Several senders drive
// different listeners at the same time with messages of very different sizes;
// TCP next hops read slowly or reset between rounds so that writes block and
// connections are re-dialled while other loops keep serialising.
//
// Every message is self-describing (headers and body derive from its id) and
// knows the one endpoint it has to reach. After the senders are done and one
// sentinel per used ingress has come through, each message is judged:
//   C03: seen exactly once, at the endpoint its Route / To host / R-URI selects;
//   C01: what arrived is the image of what was sent (start line, untouched
//        headers, body bytes).

import (
	"bytes"
	"fmt"
	"math/rand"
	"strings"
	"sync"
	"time"

	"vf/ev"
	"vf/sip"
	"vf/wire"
)

type ccListener struct {
	svc, l int
	ip     string
	be     *wire.UDPEndpoint
}

type ccHop struct {
	ip  string
	udp *wire.UDPEndpoint
	tcp *wire.TCPListener
}

type ccMsg struct {
	id     string
	in     *sip.Msg
	raw    []byte
	wantEp string
	kind   string
	egress string
	li     *ccListener
	proto  string
}

type ccJudged struct {
	id string
	n  int
}

type ccSender struct {
	li    *ccListener
	proto string
	ua    *wire.UDPEndpoint
	conn  *wire.TCPConn
	msgs  []*ccMsg
}

// lostAfterReset counts messages for TCP hops that vanished in a round right after the hops had
// reset their connections (not judged, see the comment where it is incremented).
var lostAfterReset int

func scenarioConcurrent() int {
	prop := *flagProp
	what := map[string]string{
		"C01": "oracle = every relayed message is the image of the one message carrying its id (start line, all non-managed headers, body bytes), whatever the other listeners were serialising at the same time",
		"C03": "oracle = every request is seen exactly once and at the endpoint selected by its Route entry / the wildcard or exact static route of its To host / the receiving listener's backend, whatever the other listeners were looking up at the same time",
	}[prop]
	if what == "" {
		fmt.Println("HARNESS-ERROR concurrent: -prop must be C01 or C03")
		return 2
	}
	run := ev.New(prop, "exploration",
		"two services x three listeners (own message loop each; the loops of a service share one static route table with four wildcard and one exact entry) on the real -race binary at GOMAXPROCS 2 and 4; rounds of 2-8 concurrent senders on different listeners and transports, 1-12 messages each back to back, bodies 0 B - 50 KiB, destinations mixed per message (backend of the listener, four wildcard static routes, exact static route, Route to UDP/TCP hops); TCP hops read slowly with an 8 KiB window in a third of the rounds and reset their connections between rounds (re-dial under load); "+
			what+"; absence judged behind one sentinel per used ingress and a drained network; distinct = (destination kind, ingress, egress, size class, concurrency class) cells")
	total := *flagCases
	if total == 0 {
		total = ev.Pick(2500, 60000)
		if prop == "C03" {
			total = ev.Pick(8000, 160000)
		}
	}
	g := sip.NewGen(shardSeed(run.Seed))
	judged, relayedOK, retries := 0, 0, 0
	procs := []int{2, 4}
	for pi, gmp := range procs {
		if run.Violations() > 6 {
			break
		}
		rc := concurrentProcess(run, g, prop, gmp, pi, total/len(procs), &judged, &relayedOK, &retries)
		if rc != 0 {
			return rc
		}
	}
	run.Observe("messages_for_tcp_hops_lost_right_after_the_hops_reset_their_connections", lostAfterReset)
	run.Observe("messages_judged", judged)
	run.Observe("sentinels_repeated", retries)
	run.Observe("messages_relayed_to_the_right_place_intact", relayedOK)
	if relayedOK < total/2 {
		run.Violation("observed-nothing", map[string]any{"judged": judged, "ok": relayedOK})
	}
	return run.Finish(int64(total) / 2)
}

func concurrentProcess(run *ev.Run, g *sip.Gen, prop string, gmp, pi, quota int, judged, relayedOK, barrierRetries *int) int {
	plan := wire.NewPlan()
	net := wire.NewNet()
	defer net.Close()
	cfg := &wire.Config{}
	fail := func(err error) int {
		fmt.Println("HARNESS-ERROR concurrent:", err)
		return 2
	}
	var err error
	var hops []*ccHop
	for i := 1; i <= 10; i++ {
		h := &ccHop{ip: plan.NextHop(i)}
		if h.udp, err = net.UDP(fmt.Sprintf("nh%d/udp", i), fmt.Sprintf("%s:%d", h.ip, wire.NextHopPortA)); err != nil {
			return fail(err)
		}
		if h.tcp, err = net.Listen(fmt.Sprintf("nh%d/tcp", i), fmt.Sprintf("%s:%d", h.ip, wire.NextHopPortB)); err != nil {
			return fail(err)
		}
		hops = append(hops, h)
	}
	// static routes of service s: wildcard a..d and one exact entry -> hops 5s .. 5s+4
	wild := []string{"wa", "wb", "wc", "wd"}
	routeHop := func(s, k int) *ccHop { return hops[5*s+k] }
	routeProto := func(k int) string { return []string{"udp", "tcp", "udp", "tcp", "udp"}[k] }
	var ls []*ccListener
	for s := 0; s < 2; s++ {
		svc := &wire.Service{Index: s, Name: fmt.Sprintf("svc%d.verif.test", s)}
		for l := 0; l < 3; l++ {
			ip := plan.Listener(s, l)
			beAddr := fmt.Sprintf("%s:%d", plan.Backend(s, 10*l+1), wire.BackendPort)
			be, err := net.UDP(fmt.Sprintf("be%d.%d/udp", s, l), beAddr)
			if err != nil {
				return fail(err)
			}
			svc.Listens = append(svc.Listens, wire.Listen{Address: ip, UDPPort: wire.UDPPort, TCPPort: wire.TCPPort, Backends: []string{"udp://" + beAddr}})
			ls = append(ls, &ccListener{svc: s, l: l, ip: ip, be: be})
		}
		for k := 0; k < 5; k++ {
			dest := fmt.Sprintf("exact.s%d.test", s)
			if k < 4 {
				dest = fmt.Sprintf("*.%s.s%d.test", wild[k], s)
			}
			port := wire.NextHopPortA
			if routeProto(k) == "tcp" {
				port = wire.NextHopPortB
			}
			svc.Routes = append(svc.Routes, wire.Route{Dests: []string{dest}, Protocol: routeProto(k), NextHop: fmt.Sprintf("%s:%d", routeHop(s, k).ip, port)})
		}
		cfg.Services = append(cfg.Services, svc)
	}
	if _, err = net.UDP("sentinel", fmt.Sprintf("%s:%d", plan.Sentinel(), wire.SentinelUDP)); err != nil {
		return fail(err)
	}
	var uas []*wire.UDPEndpoint
	for i := 1; i <= 8; i++ {
		e, err := net.UDP(fmt.Sprintf("ua%d", i), fmt.Sprintf("%s:%d", plan.UA(1+i%3), 5060+i))
		if err != nil {
			return fail(err)
		}
		uas = append(uas, e)
	}
	proxy, err := wire.StartProxy(*flagBin, fmt.Sprintf("%s/proxy%d", *flagDir, pi), cfg, plan.PprofPort(), fmt.Sprintf("GOMAXPROCS=%d", gmp))
	if err != nil {
		return fail(err)
	}
	defer proxy.Stop()
	seq := 0
	sentinelMsg := func(id, fromIP string, port int, proto string) []byte {
		return []byte(fmt.Sprintf("OPTIONS sip:sentinel@sentinel.verif.test SIP/2.0\r\nVia: SIP/2.0/%s %s:%d;branch=z9hG4bKvf%s\r\nRoute: <sip:%s:%d;lr>\r\nMax-Forwards: 70\r\nFrom: <sip:b@x>;tag=b\r\nTo: <sip:s@y>\r\nCall-ID: %s@vf\r\nCSeq: 1 OPTIONS\r\nX-Vf: %s\r\nContent-Length: 0\r\n\r\n",
			strings.ToUpper(proto), fromIP, port, id, plan.Sentinel(), wire.SentinelUDP, id, id))
	}
	for _, li := range ls {
		ok := false
		for try := 0; try < 100 && !ok; try++ {
			if !proxy.Alive() {
				return fail(fmt.Errorf("proxy exited: %s", proxy.StderrHead(2000)))
			}
			seq++
			id := fmt.Sprintf("b%d", seq)
			uas[0].Send(fmt.Sprintf("%s:%d", li.ip, wire.UDPPort), sentinelMsg(id, uas[0].IP(), uas[0].Port(), "udp"), id)
			_, ok = net.WaitCase(id, func(o []*wire.Obs) bool { return len(o) > 0 }, 150*time.Millisecond)
		}
		if !ok {
			return fail(fmt.Errorf("listener %s never relayed", li.ip))
		}
	}
	net.Drain()
	build := func(id string, li *ccListener, proto, srcIP string, srcPort int) *ccMsg {
		r := rand.New(rand.NewSource(hashStr(id)))
		m := &ccMsg{id: id, li: li, proto: proto}
		s := li.svc
		method := []string{"MESSAGE", "OPTIONS", "INFO", "PUBLISH", "INVITE", "NOTIFY"}[r.Intn(6)]
		msg := wire.StdRequest(id, method, "sip:u"+id+"@foreign.example", proto, srcIP, srcPort)
		egressUDP := true
		switch k := r.Intn(8); {
		case k < 5: // static route by To host: wildcard a-d or exact
			host := fmt.Sprintf("exact.s%d.test", s)
			if k < 4 {
				// mostly a handful of recurring hosts per entry (the same host looked up again right
				// after another loop looked up a different one), sometimes a host never seen before
				host = fmt.Sprintf("h%d.%s.s%d.test", r.Intn(3), wild[k], s)
				if r.Intn(4) == 0 {
					host = fmt.Sprintf("%s%s.%s.s%d.test", randLetters(r, 1+r.Intn(6)), id, wild[k], s)
				}
			}
			wire.SetHeader(msg, "To", "<sip:bob"+id+"@"+strings.ToLower(host)+">")
			h := routeHop(s, k)
			m.kind = "static-" + []string{"wa", "wb", "wc", "wd", "exact"}[k]
			if routeProto(k) == "tcp" {
				m.wantEp, egressUDP = h.tcp.Name, false
			} else {
				m.wantEp = h.udp.Name
			}
		case k == 5: // Route to a hop of the other service's set (no static route involved)
			h := hops[r.Intn(len(hops))]
			if r.Intn(2) == 0 {
				wire.InsertBefore(msg, "max-forwards", sip.Header{Name: "Route", Value: fmt.Sprintf("<sip:%s:%d;lr>", h.ip, wire.NextHopPortA)})
				m.wantEp = h.udp.Name
			} else {
				wire.InsertBefore(msg, "max-forwards", sip.Header{Name: "Route", Value: fmt.Sprintf("<sip:%s:%d;transport=tcp;lr>", h.ip, wire.NextHopPortB)})
				m.wantEp, egressUDP = h.tcp.Name, false
			}
			m.kind = "route"
		default: // the receiving listener's own backend
			msg.Start = fmt.Sprintf("%s sip:u%s@svc%d.verif.test SIP/2.0", method, id, s)
			wire.SetHeader(msg, "To", "<tel:+1555"+fmt.Sprint(100000+r.Intn(899999))+">")
			m.wantEp, m.kind = li.be.Name, "backend"
		}
		m.egress = "udp"
		if !egressUDP {
			m.egress = "tcp"
		}
		for k := r.Intn(7); k > 0; k-- {
			wire.InsertBefore(msg, "content-length", sip.Header{Name: fmt.Sprintf("X-%s-%d", id, k), Value: id + "-" + randLetters(r, r.Intn(120))})
		}
		var size int
		switch sz := r.Intn(8); {
		case prop == "C03" && sz > 2:
			// (for the routing projection many short messages interleave more lookups than few long ones)
			size = r.Intn(300)
		case sz == 0:
			size = 0
		case sz == 1 || sz == 2:
			size = 1 + r.Intn(400)
		case sz == 3 || sz == 4:
			size = 1500 + r.Intn(7000)
		default:
			size = 12000 + r.Intn(40000)
		}
		body := []byte(randLetters(r, size))
		for i := 0; i+len(id)+2 <= len(body); i += 64 {
			copy(body[i:], "<"+id+">")
		}
		msg.Body = body
		wire.SetHeader(msg, "Content-Length", fmt.Sprint(len(body)))
		m.in = msg
		m.raw = msg.Bytes()
		return m
	}
	sizeClass := func(n int) string {
		switch {
		case n == 0:
			return "empty"
		case n < 1000:
			return "small"
		case n < 10000:
			return "medium"
		}
		return "large"
	}
	done := 0
	barrierFails := 0
	var forgetQ [][]ccJudged
	for round := 0; done < quota && run.Violations() <= 6; round++ {
		if !proxy.Alive() || proxy.Crashed() {
			run.Violation("proxy died during the run (belongs to C08/C09; the run cannot continue)", map[string]any{"stderr": proxy.StderrHead(3000), "gomaxprocs": gmp})
			break
		}
		// TCP hops: slow readers in a third of the rounds; connections reset before every other round
		slow := g.R.Intn(3) == 0
		for _, h := range hops {
			if slow {
				h.tcp.SlowRead(time.Duration(200+g.R.Intn(1500))*time.Microsecond, true)
			} else {
				h.tcp.SlowRead(0, false)
			}
			if round%2 == 1 {
				for _, c := range h.tcp.Conns() {
					if !c.EOF() {
						c.Close(g.R.Intn(2) == 0)
					}
				}
			}
		}
		if round%2 == 1 {
			time.Sleep(5 * time.Millisecond)
		}
		nsend := 2 + g.R.Intn(7)
		var senders []*ccSender
		perm := g.R.Perm(len(ls))
		for k := 0; k < nsend; k++ {
			li := ls[perm[k%len(perm)]]
			sd := &ccSender{li: li, proto: "udp", ua: uas[k%len(uas)]}
			srcIP, srcPort := sd.ua.IP(), sd.ua.Port()
			if g.R.Intn(2) == 0 {
				c, err := net.Dial(fmt.Sprintf("cc%d/tcp", k), sd.ua.IP()+":0", fmt.Sprintf("%s:%d", li.ip, wire.TCPPort))
				if err == nil {
					sd.proto, sd.conn = "tcp", c
				}
			}
			nm := 1 + g.R.Intn(12)
			bytesUDP := 0
			for j := 0; j < nm; j++ {
				seq++
				m := build(fmt.Sprintf("m%dp%d", seq, pi), li, sd.proto, srcIP, srcPort)
				if sd.proto == "udp" {
					// keep a UDP burst inside what the listener's socket buffer holds
					if bytesUDP+len(m.raw) > 150*1024 {
						continue
					}
					bytesUDP += len(m.raw)
				}
				sd.msgs = append(sd.msgs, m)
			}
			senders = append(senders, sd)
		}
		drops0 := wire.UDPDrops()
		keepAlive := round%2 == 0
		gate := make(chan struct{})
		var wg sync.WaitGroup
		for _, sd := range senders {
			wg.Add(1)
			go func(sd *ccSender) {
				defer wg.Done()
				<-gate
				dst := fmt.Sprintf("%s:%d", sd.li.ip, wire.UDPPort)
				if keepAlive {
					// clients behind NATs send CRLF CRLF keep-alives: no message, nothing to relay
					if sd.conn != nil {
						sd.conn.Send([]byte("\r\n\r\n"), "")
					} else {
						sd.ua.Send(dst, []byte("\r\n\r\n"), "")
					}
				}
				for _, m := range sd.msgs {
					if sd.conn != nil {
						sd.conn.Send(m.raw, m.id)
					} else {
						sd.ua.Send(dst, m.raw, m.id)
						if len(m.raw) > 8000 {
							time.Sleep(300 * time.Microsecond)
						}
					}
				}
			}(sd)
		}
		close(gate)
		wg.Wait()
		// one sentinel per sender through the same ingress; a UDP sentinel may itself be dropped
		// by the kernel behind a burst, so it is repeated (any later one is behind the burst too)
		// until one comes through or the 30 s watchdog expires
		okBarrier := true
		for k, sd := range senders {
			seen := false
			for try := 0; try < 8 && !seen; try++ {
				bid := fmt.Sprintf("b%dr%dk%dt%d", pi, round, k, try)
				if sd.conn != nil {
					sd.conn.Send(sentinelMsg(bid, sd.ua.IP(), sd.ua.Port(), "tcp"), bid)
				} else {
					sd.ua.Send(fmt.Sprintf("%s:%d", sd.li.ip, wire.UDPPort), sentinelMsg(bid, sd.ua.IP(), sd.ua.Port(), "udp"), bid)
				}
				_, seen = net.WaitCase(bid, func(o []*wire.Obs) bool { return len(o) > 0 }, 1500*time.Millisecond)
				net.Forget(bid)
				if !seen {
					*barrierRetries++
				}
			}
			if !seen {
				okBarrier = false
			}
		}
		net.Drain()
		for _, h := range hops {
			h.tcp.SlowRead(0, false)
		}
		if !okBarrier {
			// a sentinel that does not come through: the loops are stuck, datagrams are being lost or
			// the run is hopelessly overloaded. Nothing can be concluded about absence (C03); what did
			// arrive can still be compared with what was sent (C01). After a few such rounds the
			// process is given up.
			barrierFails++
			if prop == "C03" || barrierFails > 4 {
				for _, sd := range senders {
					run.Inconclusive(int64(len(sd.msgs)))
					done += len(sd.msgs)
					if sd.conn != nil {
						sd.conn.Close(false)
					}
				}
				if barrierFails > 4 {
					run.Observe(fmt.Sprintf("given_up_after_barrier_failures_gomaxprocs_%d", gmp), barrierFails)
					break
				}
				continue
			}
		}
		dropped := wire.UDPDrops() > drops0
		roundDeadline := time.Now().Add(5 * time.Second)
		conc := "2-3"
		if nsend > 3 {
			conc = "4-8"
		}
		for _, sd := range senders {
			for _, m := range sd.msgs {
				done++
				*judged++
				obs := net.ForCase(m.id)
				if len(obs) == 0 {
					// (one watchdog for all the messages of a round that are still missing)
					if left := time.Until(roundDeadline); left > 0 {
						net.WaitCase(m.id, func(o []*wire.Obs) bool { return len(o) >= 1 }, left)
						obs = net.ForCase(m.id)
					}
				}
				detail := func(why string) map[string]any {
					d := map[string]any{"why": why, "gomaxprocs": gmp, "round": round, "concurrent_senders": nsend, "slow_tcp_hops": slow, "receiving_listener": fmt.Sprintf("svc%d/l%d %s", m.li.svc, m.li.l, m.li.ip), "ingress": m.proto,
						"kind": m.kind, "expected_at": m.wantEp, "bytes": len(m.raw), "input_head": clip(string(m.raw), 900)}
					var at []string
					for _, o := range obs {
						at = append(at, fmt.Sprintf("%s conn#%d (%d bytes)", o.Ep, o.Conn, len(o.Raw)))
					}
					d["observed_at"] = at
					if len(obs) > 0 {
						d["output_head"] = clip(string(obs[0].Raw), 1200)
					}
					return d
				}
				if prop == "C03" {
					if len(obs) == 0 && dropped && (m.proto == "udp" || m.egress == "udp") {
						run.Inconclusive(1) // the kernel dropped datagrams in this round
						continue
					}
					if len(obs) == 0 && round%2 == 1 && strings.HasPrefix(m.wantEp, "nh") && strings.HasSuffix(m.wantEp, "/tcp") {
						// the TCP hops reset their connections right before this round: a message the proxy
						// wrote into a connection whose reset it had not seen yet is lost by TCP, not by the
						// routing (the stated don't-care of C20) - counted, not judged
						run.Inconclusive(1)
						lostAfterReset++
						continue
					}
					if len(obs) != 1 || obs[0].Ep != m.wantEp {
						key := "under concurrent load on several listeners a request did not arrive exactly once at the destination its routing inputs select"
						run.Violation(key, detail(fmt.Sprintf("%d observations", len(obs))))
						continue
					}
				} else {
					if len(obs) == 0 {
						run.Eval("") // not relayed: nothing for C01 to compare
						continue
					}
					bad := ""
					for _, o := range obs {
						if o.Msg == nil {
							bad = "relayed bytes are not a readable message"
							break
						}
						if o.Msg.Start != m.in.Start {
							bad = fmt.Sprintf("start line changed: %q", clip(o.Msg.Start, 200))
							break
						}
						var a, b []sip.Header
						for _, h := range m.in.Headers {
							if !managed(h.Name) {
								a = append(a, h)
							}
						}
						for _, h := range o.Msg.Headers {
							if !managed(h.Name) {
								b = append(b, h)
							}
						}
						same := len(a) == len(b)
						for i := 0; same && i < len(a); i++ {
							same = a[i].Name == b[i].Name && strings.Trim(a[i].Value, " \t") == strings.Trim(b[i].Value, " \t")
						}
						if !same {
							bad = "headers the proxy does not manage changed"
							break
						}
						if !bytes.Equal(o.Msg.Body, m.in.Body) {
							bad = fmt.Sprintf("body changed: %d bytes out, %d in, first difference at %d", len(o.Msg.Body), len(m.in.Body), firstDiff(string(o.Msg.Body), string(m.in.Body)))
							break
						}
						if n := len(o.Msg.Get("content-length")); n != 1 {
							bad = fmt.Sprintf("%d Content-Length fields", n)
							break
						}
					}
					if bad != "" {
						run.Violation("under concurrent load on several listeners a relayed message is not the image of the message sent", detail(bad))
						continue
					}
				}
				*relayedOK++
				run.Eval(fmt.Sprintf("%s|%s>%s|%s|conc%s|gmp%d", m.kind, m.proto, m.egress, sizeClass(len(m.in.Body)), conc, gmp))
				if run.WantSample() && len(m.raw) < 1500 && nsend > 4 {
					run.Sample(detail("arrived once, at the right place, intact"))
				}
			}
			if sd.conn != nil {
				sd.conn.Close(false)
			}
		}
		// the ids of a round are forgotten two rounds later; a copy that arrived in between is a duplicate
		var ids []ccJudged
		for _, sd := range senders {
			for _, m := range sd.msgs {
				ids = append(ids, ccJudged{m.id, len(net.ForCase(m.id))})
			}
		}
		forgetQ = append(forgetQ, ids)
		if len(forgetQ) > 2 {
			for _, j := range forgetQ[0] {
				if n := len(net.ForCase(j.id)); n != j.n && prop == "C03" {
					run.Violation("a further copy of a request arrived after it had been judged", map[string]any{"id": j.id, "copies_at_judgement": j.n, "copies_later": n, "gomaxprocs": gmp})
				}
				net.Forget(j.id)
			}
			forgetQ = forgetQ[1:]
		}
		if un := net.ForCase(""); len(un) > 0 {
			run.Violation("an output that belongs to no message appeared", map[string]any{"count": len(un), "first": clip(string(un[0].Raw), 900), "at": un[0].Ep, "gomaxprocs": gmp})
			net.Forget("")
		}
		net.Trim()
	}
	run.Observe(fmt.Sprintf("race_reports_gomaxprocs_%d", gmp), len(wire.RaceReports(proxy.Dir, "sipproxy")))
	return 0
}
