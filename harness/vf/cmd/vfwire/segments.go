package main

// Scenario "segments" (C11, wire part): concatenations of well-formed messages
// written to a real TCP connection of the binary in scripted segments
// (TCP_NODELAY, pauses between writes, down to 1-byte dribble). Exactly those
// messages must come out at the backends, each with its headers and body.

import (
	"bytes"
	"fmt"
	"sort"
	"strings"
	"time"

	"vf/ev"
	"vf/sip"
	"vf/wire"
)

func scenarioSegments() int {
	run := ev.New("C11", "exploration",
		"streams of 1-8 generated requests (header lines up to 20 KiB straddling the 4096-byte read window, bodies that look like SIP text, CRLF keep-alives in between) written to a real TCP connection of the -race binary in scripted segments with TCP_NODELAY and pauses "+
			"(cuts at structural boundaries, around offsets 4095-4097/8192, random multi-cuts, 1-byte dribble); oracle = every message of the stream arrives exactly once at a backend with identical start line, non-managed headers and body, and nothing else arrives; distinct = (stream shape, split kind) cells")
	w, err := wire.NewWorld(*flagBin, *flagDir, wire.Opts{Services: 4, TCPBackend: true})
	if err != nil {
		fmt.Println("HARNESS-ERROR world:", err)
		return 2
	}
	defer w.Close()
	g := sip.NewGen(shardSeed(run.Seed))
	nstreams := *flagCases
	if nstreams == 0 {
		nstreams = ev.Pick(300, 6000)
	}
	seq, msgsOK, segsWritten := 0, 0, 0
	repeats := 0
	orderedStreams := 0
	// meanwhile, on connections of their own: a client gets an answer written to its connection,
	// then sends its next two messages with a pause of 6.5 s in the middle of the first one's body
	// (time that passes between two segments is no part of the framing)
	type slowTrack struct {
		ids  []string
		done chan string
	}
	var tracks []*slowTrack
	for k := 0; k < 3; k++ {
		svc := k % len(w.Svcs)
		sv := w.Svcs[svc]
		u := w.UAs[k%len(w.UAs)]
		tr := &slowTrack{done: make(chan string, 1)}
		tracks = append(tracks, tr)
		mk := func(id string, body string) []byte {
			m := wire.StdRequest(id, "MESSAGE", fmt.Sprintf("sip:svc%d.verif.test", svc), "tcp", u.IP, wire.UDPPort)
			if sv.HasDef {
				wire.SetHeader(m, "To", "<tel:+15550167>")
			}
			wire.WithBody(m, []byte(body))
			return m.Bytes()
		}
		tr.ids = []string{fmt.Sprintf("slow%da", k), fmt.Sprintf("slow%db", k), fmt.Sprintf("slow%dc", k)}
		go func(k int) {
			cn, err := w.Net.Dial(fmt.Sprintf("ua%d/pause%d", u.Index, k), u.IP+":0", fmt.Sprintf("%s:%d", sv.IP, sv.TCP))
			if err != nil {
				tr.done <- "harness: dial failed"
				return
			}
			defer cn.Close(false)
			cn.Send(mk(tr.ids[0], "first"), tr.ids[0])
			obs, ok := w.Net.WaitCase(tr.ids[0], func(o []*wire.Obs) bool { return len(o) >= 1 }, w.BarrierWait)
			if !ok || obs[0].Msg == nil || !sv.BackendEndpointNames()[obs[0].Ep] {
				tr.done <- "harness: first message not seen at a backend"
				return
			}
			dw := &dialogWorld{World: w}
			if !dw.respondFromBackend(svc, obs[0], tr.ids[0], 200, "t") {
				tr.done <- "harness: answer did not come back"
				return
			}
			b := mk(tr.ids[1], strings.Repeat("0123456789", 40))
			cut := len(b) - 150 - 50*k
			cn.Send(b[:cut], "")
			time.Sleep(6500 * time.Millisecond)
			cn.Send(append(b[cut:], mk(tr.ids[2], "third")...), "")
			tr.done <- ""
		}(k)
	}
	for s := 0; s < nstreams && run.Violations() <= 6; s++ {
		if h := w.Health(); h != "" {
			run.Violation("proxy died during the run (belongs to C08; the run cannot continue)", map[string]any{"health": h})
			break
		}
		svc := g.R.Intn(len(w.Svcs))
		sv := w.Svcs[svc]
		path := wire.Path{UA: g.R.Intn(len(w.UAs)), Svc: svc, Proto: "tcp"}
		w.DropConn(path)
		conn, err := w.Conn(path)
		if err != nil {
			run.Inconclusive(1)
			continue
		}
		n := 1 + g.R.Intn(8)
		ordered := g.R.Intn(3) == 0
		if ordered {
			n = 4 + g.R.Intn(9)
		}
		var msgs []*sip.Msg
		var ids []string
		expectN := map[string]int{}
		var stream bytes.Buffer
		long, look := 0, 0
		for k := 0; k < n; k++ {
			seq++
			id := fmt.Sprintf("f%d", seq)
			method := g.Method()
			if ordered {
				method = []string{"MESSAGE", "INVITE", "CANCEL", "OPTIONS", "ACK", "INFO", "INVITE", "ACK"}[(k+seq)%8]
			}
			m := wire.StdRequest(id, method, fmt.Sprintf("sip:svc%d.verif.test", svc), "tcp", w.UAs[path.UA].IP, wire.UDPPort)
			if sv.HasDef {
				wire.SetHeader(m, "To", "<tel:+15550166>")
			}
			if ordered {
				// every message of this stream is routed to one next hop over TCP: they arrive there on
				// one connection, in the order the proxy took them from the stream
				wire.InsertBefore(m, "max-forwards", sip.Header{Name: "Route", Value: fmt.Sprintf("<sip:%s:%d;transport=tcp;lr>", w.Hops[0].IP, wire.NextHopPortB)})
			}
			budget := 40000
			for h := g.R.Intn(5); h > 0; h-- {
				name, _ := g.ExtName()
				var val string
				switch g.R.Intn(6) {
				case 0:
					l := 4096 - len(name) - 6 + g.R.Intn(12) + g.R.Intn(3)*4096
					val = g.Alnum(l, l)
					long++
				case 1:
					l := 4000 + g.R.Intn(16000)
					val = g.Alnum(l, l)
					long++
				default:
					val = g.Alnum(0, 60)
				}
				if len(val) > budget {
					val = val[:budget]
				}
				budget -= len(val)
				wire.InsertBefore(m, "content-length", sip.Header{Name: name, Value: val})
			}
			var body []byte
			switch g.R.Intn(5) {
			case 0:
				body = []byte("BYE sip:x@y SIP/2.0\r\nContent-Length: 3\r\n\r\nabc\r\n\r\nSIP/2.0 200 OK\r\nl: 0\r\n\r\n")
				look++
			case 1:
				body = make([]byte, g.R.Intn(vfMin(budget, 12000)+1))
				g.R.Read(body)
			case 2:
				body = []byte(g.Alnum(0, 300))
			}
			wire.WithBody(m, body)
			if g.R.Intn(3) == 0 {
				for i, h := range m.Headers {
					if sip.Canon(h.Name) == "content-length" {
						m.Headers[i].Name = []string{"l", "content-length", "L"}[g.R.Intn(3)]
					}
				}
			}
			for kk := g.R.Intn(4); kk > 0 && g.R.Intn(2) == 0; kk-- {
				stream.WriteString("\r\n")
			}
			stream.Write(m.Bytes())
			msgs = append(msgs, m)
			ids = append(ids, id)
			expectN[id] = 1
			if g.R.Intn(6) == 0 && len(m.Bytes()) < 8000 {
				// the same message a second time on the connection, byte for byte (a repeated ACK, an
				// application-level retransmission): two messages for the framing
				stream.Write(m.Bytes())
				expectN[id] = 2
				repeats++
			}
		}
		raw := stream.Bytes()
		// segmentation
		var cuts []int
		kind := ""
		switch g.R.Intn(5) {
		case 0:
			kind = "few"
			for k := 1 + g.R.Intn(4); k > 0; k-- {
				cuts = append(cuts, 1+g.R.Intn(len(raw)-1))
			}
		case 1:
			kind = "boundary"
			for _, needle := range []string{"\r\n\r\n", "Content-Length", "\r\n", ":", "SIP/2.0"} {
				off := 0
				for c := 0; c < 3; c++ {
					i := bytes.Index(raw[off:], []byte(needle))
					if i < 0 {
						break
					}
					cuts = append(cuts, off+i+g.R.Intn(len(needle)+1))
					off += i + 1
				}
			}
		case 2:
			kind = "window"
			for _, off := range []int{4095, 4096, 4097, 8191, 8192, 8193, 12288} {
				if off < len(raw) {
					cuts = append(cuts, off)
				}
			}
		case 3:
			kind = "many"
			for k := 10 + g.R.Intn(40); k > 0; k-- {
				cuts = append(cuts, 1+g.R.Intn(len(raw)-1))
			}
		default:
			kind = "dribble"
			st := g.R.Intn(len(raw))
			for k := st; k < len(raw) && k < st+60; k++ {
				if k > 0 {
					cuts = append(cuts, k)
				}
			}
		}
		cuts = normCuts(cuts, len(raw))
		// every third stream shares the listener with other connections that are opened,
		// used and closed while this one is in the middle of its stream
		var others []*wire.TCPConn
		var otherIDs []string
		interleave := s%3 == 2
		if interleave {
			kind += "+other-connections"
		}
		prev := 0
		for ci, c := range append(cuts, len(raw)) {
			conn.Send(raw[prev:c], "")
			segsWritten++
			prev = c
			time.Sleep(time.Duration(300+g.R.Intn(900)) * time.Microsecond)
			if interleave && (ci == 0 || g.R.Intn(4) == 0) && len(others) < 4 {
				if oc, err := w.Net.Dial(fmt.Sprintf("ua%d/other", w.UAs[path.UA].Index), w.UAs[path.UA].IP+":0", w.ListenerAddr(path)); err == nil {
					seq++
					oid := fmt.Sprintf("f%d", seq)
					om := wire.StdRequest(oid, "OPTIONS", fmt.Sprintf("sip:svc%d.verif.test", svc), "tcp", w.UAs[path.UA].IP, wire.UDPPort)
					if sv.HasDef {
						wire.SetHeader(om, "To", "<tel:+15550167>")
					}
					ob := om.Bytes()
					oc.Send(ob[:len(ob)/2], "")
					time.Sleep(300 * time.Microsecond)
					oc.Send(ob[len(ob)/2:], "")
					others = append(others, oc)
					otherIDs = append(otherIDs, oid)
					msgs = append(msgs, om)
					ids = append(ids, oid)
				}
			}
		}
		for _, oc := range others {
			// each of the other connections must have delivered its message as well
			defer oc.Close(false)
		}
		// everything must have been processed once the sentinel on the same connection is through
		if !w.Barrier(path) {
			run.Violation("the connection stopped delivering after a segmented stream (sentinel on the same connection not relayed)", map[string]any{"stream_bytes": len(raw), "cuts": cuts, "split": kind, "messages": n, "stream_head": clip(string(raw), 1200)})
			continue
		}
		// the other connections are served by goroutines of their own: the sentinel of this
		// connection says nothing about them, so their messages are awaited (bounded)
		for _, oid := range otherIDs {
			w.Net.WaitCase(oid, func(o []*wire.Obs) bool { return len(o) >= 1 }, w.BarrierWait)
		}
		// the sentinel says the proxy has processed the stream; the driver's own readers
		// (large messages over TCP to a backend) may still be behind on a loaded machine:
		// expected messages are awaited under the watchdog before they count as missing
		for _, id := range ids {
			need := expectN[id]
			if need == 0 {
				need = 1
			}
			w.Net.WaitCase(id, func(o []*wire.Obs) bool { return len(o) >= need }, w.BarrierWait)
		}
		sig := fmt.Sprintf("n%d|long%v|look%v|%s", vfMin(n, 4), long > 0, look > 0, kind)
		bad := false
		for k, id := range ids {
			obs := w.Net.ForCase(id)
			detail := map[string]any{"split": kind, "cuts": cuts, "stream_bytes": len(raw), "message_index": k, "messages_in_stream": n, "message_head": clip(string(msgs[k].Bytes()), 800)}
			need := expectN[id]
			if need == 0 {
				need = 1
			}
			if len(obs) != need {
				detail["outputs"] = len(obs)
				detail["times_in_the_stream"] = need
				run.Violation(fmt.Sprintf("message %d of a segmented stream arrived %d times", k, len(obs)), detail)
				bad = true
				break
			}
			out := obs[len(obs)-1].Msg
			if out == nil || out.Start != msgs[k].Start {
				run.Violation("message of a segmented stream arrived with another start line", detail)
				bad = true
				break
			}
			var a, b []sip.Header
			for _, h := range msgs[k].Headers {
				if !managed(h.Name) {
					a = append(a, h)
				}
			}
			for _, h := range out.Headers {
				if !managed(h.Name) {
					b = append(b, h)
				}
			}
			same := len(a) == len(b)
			for i := 0; same && i < len(a); i++ {
				same = a[i].Name == b[i].Name && a[i].Value == b[i].Value
			}
			if !same || !bytes.Equal(out.Body, msgs[k].Body) {
				detail["output_head"] = clip(string(obs[0].Raw), 800)
				run.Violation("message of a segmented stream arrived with other headers or body", detail)
				bad = true
				break
			}
			msgsOK++
		}
		if ordered && !bad {
			// the order of arrival on the one connection to the next hop is the order in the stream
			type arr struct {
				seq  int64
				conn int
				k    int
			}
			var arrs []arr
			for k, id := range ids[:n] {
				for _, o := range w.Net.ForCase(id) {
					if o.Proto == "tcp" {
						arrs = append(arrs, arr{o.Seq, o.Conn, k})
					}
				}
			}
			sort.Slice(arrs, func(a, b int) bool { return arrs[a].seq < arrs[b].seq })
			var order []int
			inOrder := true
			for i, a := range arrs {
				order = append(order, a.k)
				if i > 0 && (a.k < arrs[i-1].k || a.conn != arrs[i-1].conn) {
					inOrder = false
				}
			}
			if !inOrder {
				var methods []string
				for _, m := range msgs[:n] {
					methods = append(methods, strings.SplitN(m.Start, " ", 2)[0])
				}
				run.Violation("the messages of a stream were taken from it in another order than they stand in it", map[string]any{"split": kind, "cuts": cuts, "stream_bytes": len(raw), "methods_in_stream_order": methods, "arrival_order_at_the_next_hop": order})
				bad = true
			} else {
				orderedStreams++
			}
		}
		if un := w.Net.ForCase(""); len(un) > 0 {
			run.Violation("a segmented stream produced an output that is none of its messages", map[string]any{"split": kind, "cuts": cuts, "first": clip(string(un[0].Raw), 800)})
			w.Net.Forget("")
			bad = true
		}
		if !bad {
			run.Eval(sig)
			if run.WantSample() && n > 1 && len(raw) < 1500 {
				run.Sample(map[string]any{"split": kind, "cuts": cuts, "stream": string(raw)})
			}
		}
		w.Net.Trim()
	}
	pausedOK := 0
	for k, tr := range tracks {
		select {
		case why := <-tr.done:
			if why != "" {
				run.Inconclusive(1)
				continue
			}
		case <-time.After(60 * time.Second):
			run.Inconclusive(1)
			continue
		}
		for _, id := range tr.ids[1:] {
			obs, _ := w.Net.WaitCase(id, func(o []*wire.Obs) bool { return len(o) >= 1 }, w.BarrierWait)
			if len(obs) != 1 || obs[0].Msg == nil || !strings.HasPrefix(string(obs[0].Msg.Body), map[bool]string{true: "0123456789", false: "third"}[id == tr.ids[1]]) {
				run.Violation("a message whose segments were 6.5 s apart (after an answer had been written to the connection) was not extracted", map[string]any{"connection": k, "message": id, "copies_seen": len(obs)})
				break
			}
			pausedOK++
			run.Eval(fmt.Sprintf("pause-6.5s|conn%d|%s", k, id[len(id)-1:]))
		}
	}
	run.Observe("messages_extracted_across_a_long_pause", pausedOK)
	run.Observe("streams", nstreams)
	run.Observe("messages_that_occur_twice_in_their_stream", repeats)
	run.Observe("streams_whose_order_of_arrival_at_one_next_hop_was_checked", orderedStreams)
	run.Observe("segments_written", segsWritten)
	run.Observe("messages_arrived_intact", msgsOK)
	if msgsOK < nstreams {
		run.Violation("observed-nothing", map[string]any{"messages": msgsOK})
	}
	_ = strings.ToLower
	return run.Finish(int64(nstreams) / 2)
}

func normCuts(cuts []int, n int) []int {
	seen := map[int]bool{}
	var r []int
	for _, c := range cuts {
		if c > 0 && c < n && !seen[c] {
			seen[c] = true
			r = append(r, c)
		}
	}
	for i := 1; i < len(r); i++ {
		for j := i; j > 0 && r[j-1] > r[j]; j-- {
			r[j-1], r[j] = r[j], r[j-1]
		}
	}
	return r
}
