package main

// Scenario "twin" (C17): metamorphic relation on twin services. Two services
// with identical configuration receive the same history, one in the generated
// spelling, one with every header name independently respelled and the
// Via / Route / Record-Route lists re-laid-out. What is relayed must agree.

import (
	"bytes"
	"fmt"
	"regexp"
	"strings"
	"time"

	"vf/ev"
	"vf/sip"
	"vf/wire"
)

const twinShift = 8

// the service-specific names occur in the Request-URI only; the listener address and
// its alias also in Via / Route / Record-Route. Random generated content elsewhere
// (a tel: number, a token) must never be touched by the twin mapping.
// headOnly applies f to the header section of a message and leaves the body bytes alone
// (a binary body may contain any byte sequence, also one that looks like a case id).
func headOnly(raw []byte, f func([]byte) []byte) []byte {
	i := bytes.Index(raw, []byte("\r\n\r\n"))
	if i < 0 {
		return f(raw)
	}
	out := append([]byte{}, f(raw[:i+4])...)
	return append(out, raw[i+4:]...)
}

func svcNamePairs(a, b int) []string {
	var r []string
	for _, p := range []string{"svc%d.verif.test", "users%d.verif.test", "rx%d-", "sos.s%d", "tel:+99%d"} {
		r = append(r, fmt.Sprintf(p, a), fmt.Sprintf(p, b))
	}
	return r
}

func firstLineAndRest(s string) (string, string) {
	if i := strings.Index(s, "\r\n"); i >= 0 {
		return s[:i], s[i:]
	}
	return s, ""
}

func twinRewrite(w *wire.World, raw []byte, a int) []byte {
	b := a + twinShift
	first, rest := firstLineAndRest(string(raw))
	addr := strings.NewReplacer(
		w.Svcs[a].IP+":", w.Svcs[b].IP+":",
		w.Svcs[a].IP+";", w.Svcs[b].IP+";",
		w.Svcs[a].IP+">", w.Svcs[b].IP+">",
		w.Svcs[a].IP+" ", w.Svcs[b].IP+" ",
		w.Svcs[a].IP+",", w.Svcs[b].IP+",",
		w.Svcs[a].IP+"\r", w.Svcs[b].IP+"\r",
		wire.AliasName(a), wire.AliasName(b),
	)
	first = strings.NewReplacer(svcNamePairs(a, b)...).Replace(addr.Replace(first + "\r"))
	first = strings.TrimSuffix(first, "\r")
	return []byte(first + addr.Replace(rest))
}

var proxyBranch = regexp.MustCompile(`branch=z9hG4bK[0-9a-f]{12}`)

// the stamped rport is the sender's true source port, which legitimately differs
// between the twins' TCP connections
var stampedRport = regexp.MustCompile(`;rport=[0-9]+`)

// twinNorm removes what legitimately differs between the twins from one header value
// (startLine = true for the first line, where the service names live).
func twinNorm(w *wire.World, s string, svc int, startLine bool) string {
	s = strings.ReplaceAll(s, w.Svcs[svc].IP, "LISTENER")
	if svc < twinShift {
		// the canonical side is mapped forward with the very function that produced the twin's
		// input; the twin's side is left as it is. (Mapping the twin's side back would also hit
		// text that names the twin by chance - a generated tel:+999... Request-URI - and that
		// text is the same on both sides.)
		s = strings.ReplaceAll(s, wire.AliasName(svc), wire.AliasName(svc+twinShift))
		if startLine {
			s = strings.NewReplacer(svcNamePairs(svc, svc+twinShift)...).Replace(s)
		}
	}
	return s
}

func randCase(g *sip.Gen, s string) string {
	b := []byte(s)
	for i, c := range b {
		if g.R.Intn(2) == 0 {
			if c >= 'a' && c <= 'z' {
				b[i] = c - 32
			} else if c >= 'A' && c <= 'Z' {
				b[i] = c + 32
			}
		}
	}
	return string(b)
}

// respell gives every header name an independent spelling and re-lays-out runs
// of adjacent Via / Route / Record-Route headers.
func respell(g *sip.Gen, m *sip.Msg) (*sip.Msg, string) {
	out := &sip.Msg{Start: m.Start, Body: m.Body}
	kinds := map[string]bool{}
	spell := func(name string) string {
		canon := sip.Canon(name)
		switch g.R.Intn(5) {
		case 0:
			kinds["same"] = true
			return name
		case 1:
			if c, ok := sip.CompactOf(canon); ok {
				kinds["compact"] = true
				if g.R.Intn(2) == 0 {
					return strings.ToUpper(c)
				}
				return c
			}
			kinds["upper"] = true
			return strings.ToUpper(name)
		case 2:
			kinds["upper"] = true
			return strings.ToUpper(name)
		case 3:
			kinds["lower"] = true
			return strings.ToLower(name)
		default:
			kinds["random-case"] = true
			return randCase(g, name)
		}
	}
	for i := 0; i < len(m.Headers); {
		h := m.Headers[i]
		canon := sip.Canon(h.Name)
		if canon == "via" || canon == "route" || canon == "record-route" {
			// a run of adjacent headers of this kind
			j := i
			var entries []string
			for j < len(m.Headers) && sip.Canon(m.Headers[j].Name) == canon {
				for _, e := range sip.SplitTop(m.Headers[j].Value, ',') {
					entries = append(entries, strings.Trim(e, " \t"))
				}
				j++
			}
			values, lay := g.JoinList(entries)
			kinds["relayout-"+lay] = true
			for _, v := range values {
				long := map[string]string{"via": "Via", "route": "Route", "record-route": "Record-Route"}[canon]
				out.Headers = append(out.Headers, sip.Header{Name: spell(long), Value: v})
			}
			i = j
			continue
		}
		name := h.Name
		// only names the proxy can recognise are respelled freely; every name may change case
		if _, ok := sip.CompactOf(canon); ok || sip.ReservedHeader(name) {
			name = spell(name)
		} else {
			switch g.R.Intn(3) {
			case 0:
				name = strings.ToUpper(name)
			case 1:
				name = strings.ToLower(name)
			}
		}
		out.Headers = append(out.Headers, sip.Header{Name: name, Value: h.Value})
		i++
	}
	var ks []string
	for _, k := range []string{"compact", "upper", "lower", "random-case", "relayout-comma", "relayout-lines", "relayout-mixed"} {
		if kinds[k] {
			ks = append(ks, k)
		}
	}
	return out, strings.Join(ks, "+")
}

type twinOut struct {
	where string
	start string
	via   []string
	route []string
	rr    []string
	rest  []sip.Header
	body  []byte
	ncl   int
}

func twinProject(w *wire.World, o *wire.Obs, svc int, id string, otherIDs ...string) twinOut {
	t := twinOut{}
	sv := w.Svcs[svc]
	if sv.BackendEndpointNames()[o.Ep] {
		t.where = fmt.Sprintf("backend#%d/%s", backendIndex(o.Ep), o.Proto)
	} else {
		t.where = o.Ep + " " + o.Local
	}
	if o.Msg == nil {
		t.start = "UNREADABLE"
		return t
	}
	tn := func(s string) string { return strings.ReplaceAll(twinNorm(w, s, svc, false), id, "CASE") }
	norm := func(s string) string {
		return stampedRport.ReplaceAllString(proxyBranch.ReplaceAllString(tn(s), "branch=*"), ";rport=*")
	}
	t.start = strings.ReplaceAll(twinNorm(w, o.Msg.Start, svc, true), id, "CASE")
	for _, e := range o.Msg.List("via") {
		t.via = append(t.via, norm(e))
	}
	for _, e := range o.Msg.List("route") {
		t.route = append(t.route, norm(e))
	}
	for _, e := range o.Msg.List("record-route") {
		t.rr = append(t.rr, norm(e))
	}
	for _, h := range o.Msg.Headers {
		switch sip.Canon(h.Name) {
		case "via", "route", "record-route":
		case "content-length":
			t.ncl++
			t.rest = append(t.rest, sip.Header{Name: "content-length", Value: h.Value})
		default:
			// (a generated extension name may contain the case id by chance: it was replaced like every other occurrence)
			// (the twin's copy of such a name was respelled before its id was exchanged, so it may still
			// carry the canonical side's id in another letter case)
			name := sip.Canon(h.Name)
			for _, x := range append([]string{id}, otherIDs...) {
				name = strings.ReplaceAll(name, strings.ToLower(x), "CASE")
			}
			t.rest = append(t.rest, sip.Header{Name: name, Value: tn(h.Value)})
		}
	}
	t.body = o.Msg.Body
	return t
}

func twinDiff(a, b twinOut) string {
	if a.where != b.where {
		return fmt.Sprintf("destination differs: %s vs %s", a.where, b.where)
	}
	if a.start != b.start {
		return "start line differs"
	}
	if strings.Join(a.via, "\x00") != strings.Join(b.via, "\x00") {
		return fmt.Sprintf("decoded Via stack differs: %q vs %q", a.via, b.via)
	}
	if strings.Join(a.route, "\x00") != strings.Join(b.route, "\x00") {
		return fmt.Sprintf("decoded Route set differs: %q vs %q", a.route, b.route)
	}
	if strings.Join(a.rr, "\x00") != strings.Join(b.rr, "\x00") {
		return fmt.Sprintf("decoded Record-Route list differs: %q vs %q", a.rr, b.rr)
	}
	if len(a.rest) != len(b.rest) {
		return fmt.Sprintf("number of remaining header fields differs: %d vs %d", len(a.rest), len(b.rest))
	}
	for i := range a.rest {
		if a.rest[i].Name != b.rest[i].Name || a.rest[i].Value != b.rest[i].Value {
			return fmt.Sprintf("remaining header %d differs: %s: %q vs %s: %q", i, a.rest[i].Name, clip(a.rest[i].Value, 80), b.rest[i].Name, clip(b.rest[i].Value, 80))
		}
	}
	if !bytes.Equal(a.body, b.body) {
		return "body differs"
	}
	return ""
}

func scenarioTwin() int {
	run := ev.New("C17", "exploration",
		"metamorphic: 8 pairs of twin services with identical configuration receive the same history (requests and responses on the four relaying paths with generated content, plus short dialogs whose in-dialog requests show the pin decision); the twin's copy has every header name independently respelled "+
			"(canonical, compact where one exists, upper, lower, random case) and Via / Route / Record-Route lists split or joined; outputs are compared pairwise on destination (backend index for backends), decoded Via / Route / Record-Route stacks, remaining headers (names compared case-insensitively and compact-expanded), body and Content-Length count; distinct = (path, respelling kinds) signatures")
	w, err := wire.NewWorld(*flagBin, *flagDir, wire.Opts{Services: 16, TCPBackend: true, Mutate: func(c *wire.Config, p wire.Plan) {
		for s := twinShift; s < 2*twinShift; s++ {
			a, b := c.Services[s-twinShift], c.Services[s]
			b.KeepNextHopRoute = a.KeepNextHopRoute
			b.Listens[0].MustRecordRoute = a.Listens[0].MustRecordRoute
			b.Listens[0].NoReceived = a.Listens[0].NoReceived
			b.Listens[0].TCPPort = a.Listens[0].TCPPort
			b.Routes = a.Routes
		}
	}})
	if err != nil {
		fmt.Println("HARNESS-ERROR world:", err)
		return 2
	}
	defer w.Close()
	g := sip.NewGen(shardSeed(run.Seed))
	n := *flagCases
	if n == 0 {
		n = ev.Pick(1500, 25000)
	}
	// the readiness barriers went through UA 0 for every service alike
	pairs, relayedPairs := 0, 0
	again := 0
	for i := 0; i < n && run.Violations() <= 8; i++ {
		if h := w.Health(); h != "" {
			run.Violation("proxy died during the run (belongs to C08; the run cannot continue)", map[string]any{"health": h})
			break
		}
		var steps []*relayCase
		if g.R.Intn(6) == 0 {
			steps = twinDialog(w, g, i)
		} else {
			c := genRelayCase(w, g, i, "C17")
			for c.path.Svc >= twinShift {
				c = genRelayCase(w, g, i, "C17")
			}
			steps = []*relayCase{c}
		}
		for k, c := range steps {
			a := c.path.Svc
			idA := fmt.Sprintf("%sA%d", c.id, k)
			idB := fmt.Sprintf("%sB%d", c.id, k)
			rawA := headOnly(c.in.Bytes(), func(h []byte) []byte { return bytes.ReplaceAll(h, []byte(c.id), []byte(idA)) })
			mA, err := sip.Read(rawA)
			if err != nil {
				continue
			}
			mB, kinds := respell(g, mA)
			rawB := headOnly(mB.Bytes(), func(h []byte) []byte { return bytes.ReplaceAll(twinRewrite(w, h, a), []byte(idA), []byte(idB)) })
			pathA := c.path
			pathB := wire.Path{UA: c.path.UA, Svc: a + twinShift, Proto: c.path.Proto}
			send := func(p wire.Path, raw []byte, id string) []*wire.Obs {
				if err := w.Send(p, raw, id); err != nil {
					w.DropConn(p)
					return nil
				}
				w.Net.WaitCase(id, func(o []*wire.Obs) bool { return len(o) >= 1 }, 300*time.Millisecond)
				if !w.Barrier(p) {
					w.DropConn(p)
				}
				return w.Net.ForCase(id)
			}
			oa := send(pathA, rawA, idA)
			ob := send(pathB, rawB, idB)
			pairs++
			if c.respond != nil {
				// dialog step: the backend answers on both sides alike
				c.respond(w, oa, a)
				c.respond(w, ob, a+twinShift)
			}
			detail := func(why string) map[string]any {
				d := map[string]any{"why": why, "kind": c.kind, "ingress": c.path.Proto, "services": []int{a, a + twinShift}, "respelling": kinds,
					"canonical_input": clip(string(rawA), 2500), "respelled_input": clip(string(rawB), 2500)}
				if len(oa) > 0 {
					d["canonical_output"] = clip(string(oa[0].Raw), 2500)
				}
				if len(ob) > 0 {
					d["respelled_output"] = clip(string(ob[0].Raw), 2500)
				}
				return d
			}
			if len(oa) != len(ob) {
				// slow is not different: wait for the side that is behind under the watchdog
				nmax := len(oa)
				if len(ob) > nmax {
					nmax = len(ob)
				}
				w.Net.WaitCase(idA, func(o []*wire.Obs) bool { return len(o) >= nmax }, w.BarrierWait)
				w.Net.WaitCase(idB, func(o []*wire.Obs) bool { return len(o) >= nmax }, w.BarrierWait)
				oa, ob = w.Net.ForCase(idA), w.Net.ForCase(idB)
			}
			if len(oa) != len(ob) {
				why := fmt.Sprintf("canonical spelling produced %d outputs, respelled twin %d", len(oa), len(ob))
				run.Violation("spelling or layout changes whether the message is relayed", detail(why))
				continue
			}
			if len(oa) == 0 {
				run.Eval("")
				continue
			}
			pa, pb := twinProject(w, oa[0], a, idA, idB), twinProject(w, ob[0], a+twinShift, idB, idA)
			if why := twinDiff(pa, pb); why != "" {
				run.Violation("spelling or layout changes what is relayed", detail(why))
				continue
			}
			if pa.ncl != 1 || pb.ncl != 1 {
				run.Violation("spelling changes the number of Content-Length fields", detail(fmt.Sprintf("%d vs %d", pa.ncl, pb.ncl)))
				continue
			}
			relayedPairs++
			run.Eval(c.kind + "|" + c.path.Proto + "|" + kinds)
			if !mA.IsRequest() && c.respond == nil && g.R.Intn(2) == 0 {
				// the next response of the same transaction (or its retransmission): byte-identical
				// headers, another status line
				again := func(raw []byte) []byte {
					i := bytes.Index(raw, []byte("\r\n"))
					return append([]byte("SIP/2.0 200 Second answer"), raw[i:]...)
				}
				oa2 := send(pathA, again(rawA), idA)
				ob2 := send(pathB, again(rawB), idB)
				if len(oa2) != len(ob2) {
					w.Net.WaitCase(idA, func(o []*wire.Obs) bool { return len(o) >= 2 }, w.BarrierWait)
					w.Net.WaitCase(idB, func(o []*wire.Obs) bool { return len(o) >= 2 }, w.BarrierWait)
					oa2, ob2 = w.Net.ForCase(idA), w.Net.ForCase(idB)
				}
				oa, ob = oa2, ob2
				if len(oa2) != len(ob2) {
					run.Violation("spelling or layout changes whether the second response of a transaction is relayed", detail(fmt.Sprintf("after the second response: canonical spelling %d outputs in all, respelled twin %d", len(oa2), len(ob2))))
					continue
				}
				if len(oa2) == 2 {
					qa, qb := twinProject(w, oa2[1], a, idA, idB), twinProject(w, ob2[1], a+twinShift, idB, idA)
					if why := twinDiff(qa, qb); why != "" {
						oa, ob = oa2[1:], ob2[1:]
						run.Violation("spelling or layout changes how the second response of a transaction is relayed", detail(why))
						continue
					}
					run.Eval(c.kind + "|second-response|" + kinds)
				}
			}
			if mA.IsRequest() && c.respond == nil && c.kind == "backend" && g.R.Intn(3) == 0 {
				// the request once more (a retransmission): the canonical side byte for byte, the twin's
				// copy respelled and laid out anew - the two sides still agree on where it goes and on
				// what is relayed
				mB2, kinds2 := respell(g, mA)
				rawB2 := headOnly(mB2.Bytes(), func(h []byte) []byte { return bytes.ReplaceAll(twinRewrite(w, h, a), []byte(idA), []byte(idB)) })
				oa2 := send(pathA, rawA, idA)
				ob2 := send(pathB, rawB2, idB)
				if len(oa2) != 2 || len(ob2) != 2 {
					w.Net.WaitCase(idA, func(o []*wire.Obs) bool { return len(o) >= 2 }, w.BarrierWait)
					w.Net.WaitCase(idB, func(o []*wire.Obs) bool { return len(o) >= 2 }, w.BarrierWait)
					oa2, ob2 = w.Net.ForCase(idA), w.Net.ForCase(idB)
				}
				rawB = rawB2
				kinds = kinds + " / again: " + kinds2
				if len(oa2) != len(ob2) {
					oa, ob = oa2, ob2
					run.Violation("spelling or layout changes whether a request sent again is relayed", detail(fmt.Sprintf("after the second copy: canonical spelling %d outputs in all, respelled twin %d", len(oa2), len(ob2))))
					continue
				}
				if len(oa2) == 2 {
					qa, qb := twinProject(w, oa2[1], a, idA, idB), twinProject(w, ob2[1], a+twinShift, idB, idA)
					if why := twinDiff(qa, qb); why != "" {
						oa, ob = oa2[1:], ob2[1:]
						run.Violation("spelling or layout changes how a request sent again is relayed", detail(why))
						continue
					}
					again++
					run.Eval(c.kind + "|sent-again|" + kinds2)
				}
			}
			if run.WantSample() && i > 20 && len(rawA) < 1200 && strings.Contains(kinds, "compact") {
				run.Sample(detail("pair agrees"))
			}
		}
		if i%200 == 199 {
			w.Net.Trim()
		}
	}
	run.Observe("pairs_sent", pairs)
	run.Observe("requests_sent_again_with_the_twin_copy_laid_out_anew", again)
	run.Observe("pairs_relayed_and_equal", relayedPairs)
	run.Observe("barrier_timeouts", w.BarrierMisses)
	if relayedPairs < n/3 {
		run.Violation("observed-nothing", map[string]any{"pairs": pairs, "relayed": relayedPairs})
	}
	return run.Finish(int64(n) / 2)
}

// twinDialog: INVITE, answer with both tags, then in-dialog requests in both
// orientations - the backend index of each step is the pin decision.
func twinDialog(w *wire.World, g *sip.Gen, i int) []*relayCase {
	svc := g.R.Intn(twinShift)
	for w.Svcs[svc].HasDef {
		svc = g.R.Intn(twinShift)
	}
	id := fmt.Sprintf("d%d", i)
	ua := g.R.Intn(len(w.UAs))
	proto := []string{"udp", "tcp"}[g.R.Intn(2)]
	aTag, bTag := g.Alnum(3, 8), g.Alnum(3, 8)+"-"+g.Alnum(1, 3)
	aURI, bURI := "sip:alice"+id+"@caller.example", "sip:bob"+id+"@callee.example"
	callID := g.Alnum(6, 12) + "@" + g.Hostname()
	mk := func(step int, method string, from, to string) *relayCase {
		cid := fmt.Sprintf("%ss%d", id, step)
		m := wire.StdRequest(cid, method, fmt.Sprintf("sip:svc%d.verif.test", svc), proto, w.UAs[ua].IP, wire.UDPPort)
		wire.SetHeader(m, "From", from)
		wire.SetHeader(m, "To", to)
		wire.SetHeader(m, "Call-ID", callID)
		return &relayCase{id: cid, kind: "dialog-" + method, path: wire.Path{UA: ua, Svc: svc, Proto: proto}, in: m}
	}
	inv := mk(0, "INVITE", "<"+aURI+">;tag="+aTag, "<"+bURI+">")
	inv.respond = func(w *wire.World, obs []*wire.Obs, s int) {
		for _, o := range obs {
			if o.Msg != nil && o.Msg.IsRequest() && w.Svcs[s].BackendEndpointNames()[o.Ep] {
				dw := &dialogWorld{World: w}
				dw.respondFromBackend(s, o, o.CaseID, 200, bTag)
			}
		}
	}
	steps := []*relayCase{inv}
	// unrelated request moves the rotation on both sides alike
	steps = append(steps, mk(1, "OPTIONS", "<sip:x@caller.example>;tag=zz", "<sip:y@callee.example>"))
	wire.SetHeader(steps[1].in, "Call-ID", id+"-other@vf")
	for k := 0; k < 2+g.R.Intn(3); k++ {
		method := []string{"INFO", "UPDATE", "INVITE", "BYE", "NOTIFY", "MESSAGE"}[g.R.Intn(6)]
		if k%2 == 0 {
			steps = append(steps, mk(2+k, method, "<"+aURI+">;tag="+aTag, "<"+bURI+">;tag="+bTag))
		} else {
			steps = append(steps, mk(2+k, method, "\"B\" <"+bURI+">;tag="+bTag, "<"+aURI+">;tag="+aTag))
		}
		if method == "BYE" {
			break
		}
	}
	return steps
}
