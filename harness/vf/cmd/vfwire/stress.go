package main

// Scenario "stress" (C09): several listeners of one service under sustained
// parallel load over UDP and TCP, backends answering, TCP backends being reset
// and (in DNS mode) backend membership changing through name resolution.
// Oracles: race-detector reports of the binary, process health, exactly-once
// delivery of every request to a backend of its listener and of every response
// to its sender, bounded progress after the load stops.

import (
	"fmt"
	"os"
	"sort"
	"strings"
	"sync"
	"sync/atomic"
	"time"

	"vf/ev"
	"vf/sip"
	"vf/wire"
)

type stressReq struct {
	id       string
	listener int
	client   string // endpoint name (udp) or "tcp#<conn id>"
	sentAt   time.Duration
}

type stressEnv struct {
	plan      wire.Plan
	net       *wire.Net
	proxy     *wire.Proxy
	listeners []string // ip per listener
	beOwner   map[string]int
	beUDP     map[string]*wire.UDPEndpoint
	beTCP     map[string]*wire.TCPListener
	dns       *wire.FakeDNS
	dynNames  []string
	dynPool   [][]string
	start     time.Time
	mu        sync.Mutex
	excuse    []time.Duration // moments around which a loss is a don't-care
}

func (e *stressEnv) now() time.Duration { return time.Since(e.start) }

func (e *stressEnv) markExcuse() {
	e.mu.Lock()
	e.excuse = append(e.excuse, e.now())
	e.mu.Unlock()
}

func (e *stressEnv) excused(t time.Duration) bool {
	e.mu.Lock()
	defer e.mu.Unlock()
	for _, x := range e.excuse {
		if t > x-250*time.Millisecond && t < x+600*time.Millisecond {
			return true
		}
	}
	return false
}

func scenarioStress() int {
	run := ev.New("C09", "exploration",
		"one service with 2-4 listeners (UDP+TCP each, UDP and TCP backends each) of the real -race binary under closed-loop parallel load from 4-16 UDP sockets and 4-16 TCP connections, backends answering every request, TCP backend connections reset and client connections re-opened during the run, "+
			"GOMAXPROCS in {2,4,16}; DNS mode adds backend membership changes through a scripted name server on the proxy's 2 s polling cadence; oracles: deduplicated race-detector reports, runtime fatal errors, exactly-once delivery per unique message id, windows draining after the load stops; distinct = (run configuration, listener, client transport) cells with traffic")
	runs := *flagCases
	if runs == 0 {
		runs = ev.Pick(3, 12)
	}
	perClient := ev.Pick(250, 2500)
	dnsMode := os.Getenv("VF_IN_NS") == "1"
	seenSig := map[string]bool{}
	totalMsgs := 0
	for r := 0; r < runs && run.Violations() <= 6; r++ {
		gmp := []int{2, 4, 16}[r%3]
		nl := 2 + (r+int(run.Seed))%3
		pc := perClient
		dns := dnsMode && r%2 == 1
		if dns && !ev.Thorough() {
			pc = perClient * 3 // long enough for several 2 s polling rounds of the proxy
		}
		n := stressRun(run, r, gmp, nl, pc, dns, seenSig)
		totalMsgs += n
	}
	run.Observe("messages_total", totalMsgs)
	run.Observe("distinct_race_signatures", len(seenSig))
	run.Observe("dns_mode", dnsMode)
	if totalMsgs < 1000 {
		run.Violation("observed-nothing", map[string]any{"messages": totalMsgs})
	}
	run.Assume("a request that was in flight within [-250 ms, +600 ms] of a TCP backend reset or of a resolution-driven membership change may be lost without violating the property (the connection/socket it was written to legitimately went away); such losses are counted as don't-care")
	return run.Finish(10)
}

func stressRun(run *ev.Run, r, gmp, nl, perClient int, dnsMode bool, seenSig map[string]bool) int {
	plan := wire.NewPlan()
	dir := fmt.Sprintf("%s/run%d", *flagDir, r)
	env := &stressEnv{plan: plan, net: wire.NewNet(), beOwner: map[string]int{}, beUDP: map[string]*wire.UDPEndpoint{}, beTCP: map[string]*wire.TCPListener{}, start: time.Now()}
	defer env.net.Close()
	svc := &wire.Service{Index: 0, Name: "svc0.verif.test", KeepNextHopRoute: false}
	cfg := &wire.Config{Services: []*wire.Service{svc}}
	fail := func(err error) int {
		fmt.Println("HARNESS-ERROR stress setup:", err)
		run.Violation("harness", map[string]any{"error": err.Error()})
		return 0
	}
	if dnsMode {
		d, err := wire.StartFakeDNS("127.0.0.1:53")
		if err != nil {
			dnsMode = false
		} else {
			env.dns = d
			defer d.Close()
		}
	}
	for l := 0; l < nl; l++ {
		ip := plan.Listener(0, l)
		env.listeners = append(env.listeners, ip)
		li := wire.Listen{Address: ip, UDPPort: wire.UDPPort, TCPPort: wire.TCPPort}
		for k := 1; k <= 2; k++ {
			a := fmt.Sprintf("%s:%d", plan.Backend(0, 10*l+k), wire.BackendPort)
			li.Backends = append(li.Backends, "udp://"+a)
			e, err := env.net.UDP(fmt.Sprintf("be%d.%d/udp", l, k), a)
			if err != nil {
				return fail(err)
			}
			env.beUDP[e.Name], env.beOwner[e.Name] = e, l
		}
		a := fmt.Sprintf("%s:%d", plan.Backend(0, 10*l+3), wire.BackendPort)
		li.Backends = append(li.Backends, "tcp://"+a)
		t, err := env.net.Listen(fmt.Sprintf("be%d.3/tcp", l), a)
		if err != nil {
			return fail(err)
		}
		env.beTCP[t.Name], env.beOwner[t.Name] = t, l
		if dnsMode {
			name := fmt.Sprintf("dyn%d.verif.test", l)
			li.Backends = append(li.Backends, fmt.Sprintf("udp://%s:%d", name, wire.BackendPort))
			var pool []string
			for k := 5; k <= 8; k++ {
				ipk := plan.Backend(0, 10*l+k)
				pool = append(pool, ipk)
				e, err := env.net.UDP(fmt.Sprintf("be%d.%d/udp", l, k), fmt.Sprintf("%s:%d", ipk, wire.BackendPort))
				if err != nil {
					return fail(err)
				}
				env.beUDP[e.Name], env.beOwner[e.Name] = e, l
			}
			env.dynNames = append(env.dynNames, name)
			env.dynPool = append(env.dynPool, pool)
			env.dns.Set(name, pool[:2])
		}
		svc.Listens = append(svc.Listens, li)
	}
	proxy, err := wire.StartProxy(*flagBin, dir, cfg, plan.PprofPort(), fmt.Sprintf("GOMAXPROCS=%d", gmp))
	if err != nil {
		return fail(err)
	}
	env.proxy = proxy
	defer proxy.Stop()
	// readiness: a request through every listener must reach a backend
	probe, err := env.net.UDP("probe", plan.UA(1)+":0")
	if err != nil {
		return fail(err)
	}
	mkReq := func(id, via string) []byte {
		return []byte(fmt.Sprintf("OPTIONS sip:svc0.verif.test SIP/2.0\r\nVia: %s;branch=z9hG4bKvf%s;rport\r\nMax-Forwards: 70\r\nFrom: <sip:c@ua.verif.test>;tag=%s\r\nTo: <tel:+15550100>\r\nCall-ID: %s@vf\r\nCSeq: 1 OPTIONS\r\nX-Vf: %s\r\nContent-Length: 0\r\n\r\n", via, id, id, id, id))
	}
	for l, ip := range env.listeners {
		ok := false
		for try := 0; try < 200 && !ok; try++ {
			if !proxy.Alive() {
				run.Violation("the proxy exited during start-up", map[string]any{"exit": proxy.ExitInfo(), "stderr": proxy.StderrHead(3000), "listeners": nl, "gomaxprocs": gmp})
				return 0
			}
			id := fmt.Sprintf("ready%d-%d-%d", r, l, try)
			probe.Send(fmt.Sprintf("%s:%d", ip, wire.UDPPort), mkReq(id, fmt.Sprintf("SIP/2.0/UDP %s", probe.Addr)), id)
			_, ok = env.net.WaitCase(id, func(o []*wire.Obs) bool { return len(o) > 0 }, 100*time.Millisecond)
		}
		if !ok {
			return fail(fmt.Errorf("listener %d never relayed", l))
		}
	}
	// responder: every request seen at a backend is answered from that backend
	sub := env.net.Subscribe(200000)
	stopResp := make(chan struct{})
	var respWG sync.WaitGroup
	respWG.Add(1)
	go func() {
		defer respWG.Done()
		for {
			select {
			case <-stopResp:
				return
			case o := <-sub:
				if o.Msg == nil || !o.Msg.IsRequest() {
					continue
				}
				if _, isBe := env.beOwner[o.Ep]; !isBe {
					continue
				}
				resp := &sip.Msg{Start: "SIP/2.0 200 OK"}
				for _, h := range o.Msg.Headers {
					switch sip.Canon(h.Name) {
					case "via", "from", "to", "call-id", "cseq", "x-vf":
						resp.Headers = append(resp.Headers, h)
					}
				}
				resp.Headers = append(resp.Headers, sip.Header{Name: "Content-Length", Value: "0"})
				if o.Proto == "udp" {
					vs := o.Msg.List("via")
					if len(vs) == 0 {
						continue
					}
					v, err := sip.ParseVia(vs[0])
					if err != nil {
						continue
					}
					env.beUDP[o.Ep].Send(fmt.Sprintf("%s:%d", v.Host, v.PortOr(5060)), resp.Bytes(), o.CaseID)
				} else if c := env.beTCP[o.Ep].ConnByID(o.Conn); c != nil {
					c.Send(resp.Bytes(), o.CaseID)
				}
			}
		}
	}()
	// clients
	nUDP := 4 + (r*5)%13
	nTCP := 4 + (r*7)%13
	var reqs sync.Map
	var sentCount, lostWait, keepAlives int64
	var inflight, maxInflight int64
	var wg sync.WaitGroup
	const W = 8
	client := func(idx int, tcp bool) {
		defer wg.Done()
		l := idx % nl
		ip := plan.UA(1 + idx%4)
		var udp *wire.UDPEndpoint
		var conn *wire.TCPConn
		name := fmt.Sprintf("cl%d-%d", r, idx)
		var err error
		dial := func() bool {
			conn, err = env.net.Dial(name, ip+":0", fmt.Sprintf("%s:%d", env.listeners[l], wire.TCPPort))
			return err == nil
		}
		if tcp {
			if !dial() {
				return
			}
		} else if udp, err = env.net.UDP(name, ip+":0"); err != nil {
			return
		}
		var window []string
		waitFor := func(id string) {
			isMine := func(o []*wire.Obs) bool {
				for _, x := range o {
					if x.Msg != nil && !x.Msg.IsRequest() && x.Ep == name {
						return true
					}
				}
				return false
			}
			if _, ok := env.net.WaitCase(id, isMine, 8*time.Second); !ok {
				atomic.AddInt64(&lostWait, 1)
			}
			atomic.AddInt64(&inflight, -1)
		}
		for n := 0; n < perClient; n++ {
			if !proxy.Alive() {
				return
			}
			id := fmt.Sprintf("x%d-%d-%d", r, idx, n)
			cl := name
			var raw []byte
			if tcp {
				if idx%2 == 1 {
					// like several clients behind one address: same sent-by port, no rport
					raw = []byte(strings.Replace(string(mkReq(id, fmt.Sprintf("SIP/2.0/TCP %s:5060", ip))), ";rport", "", 1))
				} else {
					raw = mkReq(id, fmt.Sprintf("SIP/2.0/TCP %s", conn.Local))
				}
				cl = fmt.Sprintf("%s#%d", name, conn.ID)
			} else {
				raw = mkReq(id, fmt.Sprintf("SIP/2.0/UDP %s", udp.Addr))
			}
			reqs.Store(id, &stressReq{id: id, listener: l, client: cl, sentAt: env.now()})
			cur := atomic.AddInt64(&inflight, 1)
			for {
				m := atomic.LoadInt64(&maxInflight)
				if cur <= m || atomic.CompareAndSwapInt64(&maxInflight, m, cur) {
					break
				}
			}
			atomic.AddInt64(&sentCount, 1)
			if n%23 == 11 {
				// a keep-alive as clients behind NATs send them (RFC 5626): CRLF CRLF, which is no message
				atomic.AddInt64(&keepAlives, 1)
				if tcp {
					conn.Send([]byte("\r\n\r\n"), "")
				} else {
					udp.Send(fmt.Sprintf("%s:%d", env.listeners[l], wire.UDPPort), []byte("\r\n\r\n"), "")
				}
			}
			if tcp {
				conn.Send(raw, id)
			} else {
				udp.Send(fmt.Sprintf("%s:%d", env.listeners[l], wire.UDPPort), raw, id)
			}
			window = append(window, id)
			if len(window) >= W {
				waitFor(window[0])
				window = window[1:]
			}
			if tcp && n%97 == 96 {
				// re-open the client connection after draining its window
				for _, id := range window {
					waitFor(id)
				}
				window = nil
				conn.Close(false)
				if !dial() {
					return
				}
			}
		}
		for _, id := range window {
			waitFor(id)
		}
	}
	for i := 0; i < nUDP; i++ {
		wg.Add(1)
		go client(i, false)
	}
	for i := 0; i < nTCP; i++ {
		wg.Add(1)
		go client(100+i, true)
	}
	// disturbances while the load runs
	stopDist := make(chan struct{})
	var distWG sync.WaitGroup
	resets, dnsChanges := 0, 0
	distWG.Add(1)
	go func() {
		defer distWG.Done()
		tick := time.NewTicker(350 * time.Millisecond)
		defer tick.Stop()
		k := 0
		for {
			select {
			case <-stopDist:
				return
			case <-tick.C:
				k++
				// reset the connections of one TCP backend
				var names []string
				for n := range env.beTCP {
					names = append(names, n)
				}
				sort.Strings(names)
				t := env.beTCP[names[k%len(names)]]
				for _, c := range t.Conns() {
					if !c.EOF() {
						env.markExcuse()
						c.Close(true)
						resets++
					}
				}
				if dnsMode && k%6 == 0 {
					l := (k / 6) % len(env.dynNames)
					pool := env.dynPool[l]
					var set []string
					switch (k / 6) % 5 {
					case 0:
						set = pool[1:3]
					case 1:
						set = pool[:4]
					case 2:
						set = nil // resolution failure
					case 3:
						set = pool[3:4]
					default:
						set = pool[:2]
					}
					env.dns.Set(env.dynNames[l], set)
					dnsChanges++
					// the proxy applies it at its next poll (<= 2 s later)
					go func() {
						for i := 0; i < 12; i++ {
							env.markExcuse()
							time.Sleep(200 * time.Millisecond)
						}
					}()
				}
			}
		}
	}()
	done := make(chan struct{})
	go func() { wg.Wait(); close(done) }()
	select {
	case <-done:
	case <-time.After(10 * time.Minute):
		run.Violation("load did not finish within the watchdog (windows never drained)", map[string]any{"run": r, "goroutines": proxy.Goroutines()[:3000]})
	}
	close(stopDist)
	distWG.Wait()
	time.Sleep(50 * time.Millisecond)
	env.net.Drain()
	close(stopResp)
	respWG.Wait()
	cfgDesc := map[string]any{"run": r, "gomaxprocs": gmp, "listeners": nl, "udp_clients": nUDP, "tcp_clients": nTCP, "dns_mode": dnsMode}
	// health
	if !proxy.Alive() || proxy.Crashed() {
		run.Violation("the proxy crashed under concurrent load", map[string]any{"config": cfgDesc, "exit": proxy.ExitInfo(), "stderr": proxy.StderrHead(4000)})
	}
	// race reports
	for _, rep := range wire.RaceReports(proxy.Dir, "sipproxy") {
		if seenSig[rep.Signature] {
			continue
		}
		seenSig[rep.Signature] = true
		run.Violation("data race: "+rep.Signature, map[string]any{"config": cfgDesc, "occurrences": rep.Count, "report": rep.Text})
	}
	// delivery
	drops := wire.UDPDrops()
	lost, dup, wrongListener, excused, okc := 0, 0, 0, 0, 0
	perListener := map[int]int{}
	var firstBad map[string]any
	reqs.Range(func(k, v any) bool {
		rq := v.(*stressReq)
		obs := env.net.ForCase(rq.id)
		atBe, atClient := 0, 0
		wrong := false
		var where []string
		for _, o := range obs {
			if o.Msg == nil {
				continue
			}
			cl := o.Ep
			if o.Proto == "tcp" {
				cl = fmt.Sprintf("%s#%d", o.Ep, o.Conn)
			}
			if o.Msg.IsRequest() {
				if owner, isBe := env.beOwner[o.Ep]; isBe {
					atBe++
					if owner != rq.listener {
						wrong = true
					}
				}
			} else if cl == rq.client {
				atClient++
			}
			where = append(where, fmt.Sprintf("%s(%v)", cl, o.Msg.IsRequest()))
		}
		switch {
		case atBe == 1 && atClient == 1 && !wrong:
			okc++
			perListener[rq.listener]++
		case wrong:
			wrongListener++
			if firstBad == nil {
				firstBad = map[string]any{"kind": "request reached a backend of another listener", "id": rq.id, "seen_at": where, "listener": rq.listener}
			}
		case atBe > 1 || atClient > 1:
			dup++
			if firstBad == nil {
				firstBad = map[string]any{"kind": "delivered more than once", "id": rq.id, "seen_at": where}
			}
		case env.excused(rq.sentAt):
			excused++
		default:
			lost++
			if firstBad == nil {
				firstBad = map[string]any{"kind": "lost", "id": rq.id, "seen_at": where, "sent_at_ms": rq.sentAt.Milliseconds(), "client": rq.client, "listener": rq.listener}
			}
		}
		return true
	})
	if wrongListener > 0 || dup > 0 {
		run.Violation("a message was not delivered exactly once to a backend of its listener / to its sender", map[string]any{"config": cfgDesc, "duplicates": dup, "wrong_listener": wrongListener, "first": firstBad})
	}
	if lost > 0 {
		if drops > 0 {
			run.Inconclusive(int64(lost))
			fmt.Printf("INCONCLUSIVE %d messages lost while the kernel reports %d UDP drops\n", lost, drops)
		} else {
			run.Violation("messages were lost under concurrent load although the kernel dropped nothing", map[string]any{"config": cfgDesc, "lost": lost, "sent": sentCount, "first": firstBad})
		}
	}
	for l, c := range perListener {
		run.EvalN(fmt.Sprintf("run%d|gmp%d|listener%d|udp%d|tcp%d|dns%v", r, gmp, l, nUDP, nTCP, dnsMode), int64(c))
	}
	run.Observe(fmt.Sprintf("run%d", r), map[string]any{"config": cfgDesc, "sent": sentCount, "keep_alives_sent": keepAlives, "delivered_exactly_once": okc, "lost": lost, "excused_near_disturbance": excused, "duplicates": dup,
		"max_in_flight": maxInflight, "tcp_backend_resets": resets, "dns_membership_changes": dnsChanges, "udp_kernel_drops": drops, "client_wait_timeouts": lostWait})
	if run.WantSample() {
		run.Sample(map[string]any{"config": cfgDesc, "sent": sentCount, "delivered_exactly_once": okc, "tcp_backend_resets_during_load": resets})
	}
	_ = strings.ToLower
	return int(sentCount)
}
