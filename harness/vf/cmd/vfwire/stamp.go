package main

// Scenario "stamp": request/response round trips through backends from sources
// whose true address differs from what their Via says. Judged for C07
// (received / rport stamping and the way back) or, with -prop C02, for the
// history half of C02 (the response returns to where the request came from with
// the Via stack that hop sent).

import (
	"fmt"
	"strings"
	"sync"
	"time"

	"vf/ev"
	"vf/sip"
	"vf/wire"
)

type stampWorld struct {
	*wire.World
	eph                           []*wire.UDPEndpoint // per UA: socket on an ephemeral port
	atPort                        []*wire.UDPEndpoint // per UA: socket on ua-ip:5099 (received-IP + sent-by port)
	decoyU                        []*wire.UDPEndpoint // decoy addresses named in Via sent-by / spoofed received
	decoyT                        []*wire.TCPListener
	joinedAnswers, foreignAnswers int
	// ephR: per UA a second socket on an ephemeral port (retransmissions from a new source port)
	ephR        []*wire.UDPEndpoint
	retransmits int
}

const decoyPort = 5099

func scenarioStamp() int {
	prop := *flagProp
	rule := "round trips UA -> proxy -> backend -> proxy -> UA from loopback sources whose top Via names another host and port; rport absent/valueless/spoofed x received absent/spoofed x no-received {omitted,false,true} x UDP / TCP / outbound-TCP ingress; decoy sockets at every address a misrouted response could go to; eight more requests over TCP are answered only after the run and not before 62 s have passed; "
	if prop == "C07" {
		rule += "oracle = the driver's knowledge of each socket's true (IP, port); distinct = (ingress, no-received, rport shape, received shape) cells"
	} else {
		rule += "oracle = response must arrive exactly once at the true source carrying the Via stack the hop sent (modulo the C07 stamping); distinct = (ingress, layout, stamping) cells"
	}
	run := ev.New(prop, "exploration", rule)
	w0, err := wire.NewWorld(*flagBin, *flagDir, wire.Opts{Services: 16, TCPBackend: true})
	if err != nil {
		fmt.Println("HARNESS-ERROR world:", err)
		return 2
	}
	defer w0.Close()
	w := &stampWorld{World: w0}
	for _, u := range w.UAs {
		// (one user agent sends from the highest port there is, another from port 1)
		src := u.IP + ":0"
		switch len(w.eph) {
		case 0:
			src = u.IP + ":65535"
		case 1:
			src = u.IP + ":1"
		}
		e, err := w.Net.UDP(fmt.Sprintf("ua%d-eph", u.Index), src)
		if err != nil {
			fmt.Println("HARNESS-ERROR", err)
			return 2
		}
		w.eph = append(w.eph, e)
		if er, err := w.Net.UDP(fmt.Sprintf("ua%d-eph-retransmit", u.Index), u.IP+":0"); err == nil {
			w.ephR = append(w.ephR, er)
		} else {
			w.ephR = append(w.ephR, nil)
		}
		e2, err := w.Net.UDP(fmt.Sprintf("ua%d:%d", u.Index, decoyPort), fmt.Sprintf("%s:%d", u.IP, decoyPort))
		if err != nil {
			fmt.Println("HARNESS-ERROR", err)
			return 2
		}
		w.atPort = append(w.atPort, e2)
	}
	for d := 1; d <= 3; d++ {
		for _, port := range []int{decoyPort, 5060} {
			e, err := w.Net.UDP(fmt.Sprintf("decoy%d:%d/udp", d, port), fmt.Sprintf("%s:%d", w.Plan.Decoy(d), port))
			if err != nil {
				fmt.Println("HARNESS-ERROR", err)
				return 2
			}
			w.decoyU = append(w.decoyU, e)
			l, err := w.Net.Listen(fmt.Sprintf("decoy%d:%d/tcp", d, port), fmt.Sprintf("%s:%d", w.Plan.Decoy(d), port))
			if err != nil {
				fmt.Println("HARNESS-ERROR", err)
				return 2
			}
			w.decoyT = append(w.decoyT, l)
		}
	}
	g := sip.NewGen(shardSeed(run.Seed))
	n := *flagCases
	if n == 0 {
		n = ev.Pick(1500, 25000)
	}
	stamped, untouched, back := 0, 0, 0
	burstStamped := 0
	// requests whose answer takes more than a minute (a call that rings): sent now over TCP
	// connections from ephemeral ports, answered after the run and not before 62 s have passed
	started := time.Now()
	type slowRT struct {
		conn *wire.TCPConn
		req  *wire.Obs
		id   string
		svc  int
		via  string
	}
	var slow []*slowRT
	for k := 0; k < 8; k++ {
		svc := k % len(w.Svcs)
		sv := w.Svcs[svc]
		u := w.UAs[k%len(w.UAs)]
		cn, err := w.Net.Dial(fmt.Sprintf("ua%d/slow%d", u.Index, k), u.IP+":0", fmt.Sprintf("%s:%d", sv.IP, sv.TCP))
		if err != nil {
			continue
		}
		id := fmt.Sprintf("sl%d", k)
		via := []string{u.IP + ":5060;rport", w.Plan.Decoy(1) + ":5099;rport", u.IP + ";rport", u.Name + ":5060;rport", u.IP + ":5060", cn.Local}[k%6]
		m := wire.StdRequest(id, "INVITE", fmt.Sprintf("sip:svc%d.verif.test", svc), "tcp", "placeholder", 0)
		parts := strings.SplitN(via, ";", 2)
		v := fmt.Sprintf("SIP/2.0/TCP %s;branch=z9hG4bKvf%s", parts[0], id)
		if len(parts) > 1 {
			v += ";" + parts[1]
		}
		wire.SetHeader(m, "Via", v)
		if sv.HasDef {
			wire.SetHeader(m, "To", "<tel:+15550166>")
		}
		cn.Send(m.Bytes(), id)
		obs, ok := w.Net.WaitCase(id, func(o []*wire.Obs) bool { return len(o) >= 1 }, w.BarrierWait)
		if !ok || obs[0].Msg == nil || !sv.BackendEndpointNames()[obs[0].Ep] {
			cn.Close(false)
			continue
		}
		slow = append(slow, &slowRT{conn: cn, req: obs[0], id: id, svc: svc, via: via})
	}
	for i := 0; i < n; i++ {
		if h := w.Health(); h != "" {
			run.Violation("proxy died during the run (belongs to C08; the run cannot continue)", map[string]any{"health": h})
			break
		}
		if stampCase(run, w, g, i, prop, &stamped, &untouched, &back) {
			// ok
		}
		if prop == "C07" && i%60 == 59 {
			burstStamped += stampBurst(run, w, g, i)
		}
		if i%300 == 299 {
			w.Net.Trim()
		}
		if run.Violations() > 10 {
			break
		}
	}
	if run.Violations() <= 10 && len(slow) > 0 {
		if d := 62*time.Second - time.Since(started); d > 0 {
			time.Sleep(d)
		}
		slowOK := 0
		dw := &dialogWorld{World: w.World}
		for _, sr := range slow {
			if h := w.Health(); h != "" {
				break
			}
			dw.respondFromBackend(sr.svc, sr.req, sr.id, 200, "t"+sr.id)
			w.Net.Drain()
			rid := sr.id + "x200"
			var at []string
			good := 0
			for _, o := range w.Net.ForCase(rid) {
				at = append(at, fmt.Sprintf("%s conn#%d %s<-%s", o.Ep, o.Conn, o.Local, o.Peer))
				if o.Proto == "tcp" && o.Conn == sr.conn.ID {
					good++
				}
			}
			if good != 1 || len(at) != 1 {
				run.Violation("the answer to a request that waited more than a minute did not travel back to the source of the request", map[string]any{"service": sr.svc, "no_received": w.Svcs[sr.svc].NoRecv, "via_sent_by": sr.via,
					"request_connection": fmt.Sprintf("conn#%d %s", sr.conn.ID, sr.conn.Local), "response_seen_at": at, "seconds_waited": int(time.Since(started).Seconds())})
			} else {
				slowOK++
				back++
				run.Eval(fmt.Sprintf("slow-answer|svc%d|%s", sr.svc, strings.SplitN(sr.via, ":", 2)[0]))
			}
			sr.conn.Close(false)
		}
		run.Observe("answers_after_more_than_a_minute_back_at_the_source", slowOK)
	}
	run.Observe("requests_stamped_correctly_in_concurrent_bursts", burstStamped)
	run.Observe("requests_retransmitted_from_a_new_source_port_while_ringing", w.retransmits)
	run.Observe("answers_with_all_via_entries_in_one_line", w.joinedAnswers)
	run.Observe("answers_arriving_from_another_element_than_the_backend", w.foreignAnswers)
	run.Observe("requests_seen_stamped", stamped)
	run.Observe("requests_seen_untouched", untouched)
	run.Observe("responses_back_at_true_source", back)
	run.Observe("barriers", w.Barriers)
	run.Observe("barrier_timeouts", w.BarrierMisses)
	if (prop == "C07" && (stamped < n/10 || untouched < n/20)) || back < n/4 {
		run.Violation("observed-nothing", map[string]any{"stamped": stamped, "untouched": untouched, "responses_back": back, "cases": n})
	}
	return run.Finish(int64(n) / 2)
}

func stampCase(run *ev.Run, w *stampWorld, g *sip.Gen, i int, prop string, stamped, untouched, back *int) bool {
	id := fmt.Sprintf("s%d", i)
	sidx := g.R.Intn(len(w.Svcs))
	sv := w.Svcs[sidx]
	uidx := g.R.Intn(len(w.UAs))
	ua := w.UAs[uidx]
	ingress := []string{"udp", "udp", "tcp", "tcp", "tcp-out-hop", "tcp-out-backend"}[g.R.Intn(6)]
	if len(sv.BeTCP) == 0 && ingress == "tcp-out-backend" {
		ingress = "tcp"
	}
	path := wire.Path{UA: uidx, Svc: sidx, Proto: "udp"}
	// --- the sender's Via entry
	decoy := w.Plan.Decoy(1 + g.R.Intn(3))
	sentHost, sentPort := decoy, decoyPort
	if g.R.Intn(5) == 0 {
		sentPort = 0 // default 5060 at the decoy
	}
	viaTransport := "UDP"
	var params []sip.KV
	rportShape := []string{"absent", "valueless", "spoofed"}[g.R.Intn(3)]
	// ("spoofed-name-case": the sender wrote the parameter name with capitals. Parameter names
	// compare case-insensitively in SIP; the proxy may take it for the received parameter and
	// overwrite it, or leave it alone and append its own - but it must do the same thing when it
	// stamps the request and when it addresses the response)
	recvShape := []string{"absent", "absent", "spoofed", "absent", "spoofed", "spoofed-name-case"}[g.R.Intn(6)]
	recvName := "received"
	if recvShape == "spoofed-name-case" {
		recvName = []string{"Received", "RECEIVED", "rEcEiVeD"}[g.R.Intn(3)]
	}
	spoofIP := w.Plan.Decoy(1 + g.R.Intn(3))
	params = append(params, sip.KV{K: "branch", V: "z9hG4bKvf" + id, HasVal: true})
	if g.R.Intn(2) == 0 {
		params = append(params, sip.KV{K: "x" + g.Alnum(1, 4), V: g.Alnum(1, 6), HasVal: true})
	}
	switch rportShape {
	case "valueless":
		params = append(params, sip.KV{K: "rport"})
	case "spoofed":
		params = append(params, sip.KV{K: "rport", V: fmt.Sprint(decoyPort), HasVal: true})
	}
	if recvShape != "absent" {
		params = append(params, sip.KV{K: recvName, V: spoofIP, HasVal: true})
	}
	if g.R.Intn(2) == 0 {
		params = append(params, sip.KV{K: "f" + g.Alnum(1, 4)})
	}
	g.R.Shuffle(len(params), func(a, b int) { params[a], params[b] = params[b], params[a] })
	// --- how the request enters
	var trueIP string
	var truePort int
	var send func(raw []byte) error
	var respAt func(o *wire.Obs) bool // is this observation at the true source?
	switch ingress {
	case "udp":
		e := w.eph[uidx]
		trueIP, truePort = e.IP(), e.Port()
		send = func(raw []byte) error { return e.Send(w.ListenerAddr(path), raw, id) }
		respAt = func(o *wire.Obs) bool { return o.Ep == e.Name }
	case "tcp":
		viaTransport = "TCP"
		path.Proto = "tcp"
		c, err := w.Conn(path)
		if err != nil {
			run.Inconclusive(1)
			return false
		}
		trueIP = ua.IP
		fmt.Sscanf(c.Local[strings.LastIndexByte(c.Local, ':')+1:], "%d", &truePort)
		send = func(raw []byte) error { return c.Send(raw, id) }
		respAt = func(o *wire.Obs) bool { return o.Proto == "tcp" && o.Conn == c.ID }
	case "tcp-out-hop", "tcp-out-backend":
		// a request that arrives on a connection the proxy itself opened
		viaTransport = "TCP"
		var conn *wire.TCPConn
		if ingress == "tcp-out-hop" {
			hop := w.Hops[g.R.Intn(len(w.Hops))]
			conn = provokeHopConn(w, path, hop, id)
		} else {
			conn = provokeBackendConn(w, path, sv, id)
		}
		if conn == nil {
			run.Inconclusive(1)
			return false
		}
		trueIP = conn.Local[:strings.LastIndexByte(conn.Local, ':')]
		fmt.Sscanf(conn.Local[strings.LastIndexByte(conn.Local, ':')+1:], "%d", &truePort)
		send = func(raw []byte) error { return conn.Send(raw, id) }
		respAt = func(o *wire.Obs) bool { return o.Proto == "tcp" && o.Conn == conn.ID }
		path.Proto = "tcp" // barriers go through the UA's own connection
	}
	top := sip.Via{Proto: "SIP/2.0/" + viaTransport, Transport: viaTransport, Host: sentHost, Params: params}
	if sentPort > 0 {
		top.Port = fmt.Sprint(sentPort)
	}
	entries := []string{top.String()}
	for k := g.R.Intn(4); k > 0; k-- {
		v, _ := g.GenVia(true)
		entries = append(entries, v.String())
	}
	values, lay := g.JoinList(entries)
	ruri := fmt.Sprintf("sip:bob@users%d.verif.test", sidx)
	to := "<sip:bob@nomatch.example>"
	if sv.HasDef {
		to = "<tel:+15550123>"
	}
	method := []string{"OPTIONS", "MESSAGE", "INVITE", "INFO", "ACK", "BYE", "CANCEL", "PRACK", "UPDATE", "REGISTER", "SUBSCRIBE", "NOTIFY", "REFER", "PUBLISH", g.Method()}[g.R.Intn(15)]
	m := &sip.Msg{Start: method + " " + ruri + " SIP/2.0"}
	vname := []string{"Via", "v", "VIA"}[g.R.Intn(3)]
	for _, v := range values {
		if g.R.Intn(2) == 0 {
			vname = []string{"Via", "v", "VIA", "V", "via"}[g.R.Intn(5)] // each line its own spelling
		}
		m.Headers = append(m.Headers, sip.Header{Name: vname, Value: v})
	}
	m.Headers = append(m.Headers,
		sip.Header{Name: "Max-Forwards", Value: "70"},
		sip.Header{Name: "From", Value: "<sip:alice@ua.verif.test>;tag=f" + id},
		sip.Header{Name: "To", Value: to},
		sip.Header{Name: "Call-ID", Value: id + "@vf"},
		sip.Header{Name: "CSeq", Value: "7 " + method},
		sip.Header{Name: "X-Vf", Value: id},
		sip.Header{Name: "Content-Length", Value: "0"})
	if err := send(m.Bytes()); err != nil {
		run.Inconclusive(1)
		return false
	}
	mclass := "other"
	switch method {
	case "ACK", "INVITE", "BYE", "CANCEL":
		mclass = method
	}
	cell := fmt.Sprintf("%s|norecv=%v|rport=%s|received=%s|%s", ingress, sv.NoRecv, rportShape, recvShape, mclass)
	detail := func(why string, extra map[string]any) map[string]any {
		d := map[string]any{"why": why, "cell": cell, "service": sidx, "true_source": fmt.Sprintf("%s:%d", trueIP, truePort), "request": string(m.Bytes())}
		for k, v := range extra {
			d[k] = v
		}
		return d
	}
	// --- the request at the backend
	isReq := func(o []*wire.Obs) bool {
		for _, x := range o {
			if x.Msg != nil && x.Msg.IsRequest() && sv.BackendEndpointNames()[x.Ep] {
				return true
			}
		}
		return false
	}
	obs, ok := w.Net.WaitCase(id, isReq, w.BarrierWait)
	if !ok {
		w.Barrier(path)
		if prop == "C07" {
			run.Inconclusive(1) // not relayed at all: not C07's business (C03 decides that)
		}
		return false
	}
	var atBackend *wire.Obs
	for _, x := range obs {
		if x.Msg != nil && x.Msg.IsRequest() && sv.BackendEndpointNames()[x.Ep] {
			atBackend = x
		}
	}
	outV := atBackend.Msg.List("via")
	if len(outV) != len(entries)+1 {
		if prop == "C07" {
			run.Violation("Via list at the backend has the wrong length", detail("", map[string]any{"via_at_backend": outV}))
		}
		return false
	}
	gotTop, err := sip.ParseVia(outV[1])
	if err != nil {
		run.Violation("sender's Via entry undecodable at the backend", detail(err.Error(), map[string]any{"via_at_backend": outV}))
		return false
	}
	if prop == "C07" {
		// expected entry
		want := top
		want.Params = append([]sip.KV{}, top.Params...)
		if !sv.NoRecv {
			set := func(k, v string) {
				for j := range want.Params {
					if want.Params[j].K == k {
						want.Params[j].V, want.Params[j].HasVal = v, true
						return
					}
				}
				want.Params = append(want.Params, sip.KV{K: k, V: v, HasVal: true})
			}
			set("received", trueIP)
			if rportShape != "absent" {
				set("rport", fmt.Sprint(truePort))
			}
		}
		if gotTop.String() != want.String() && recvShape == "spoofed-name-case" && !sv.NoRecv {
			// the other legitimate reading: the capitalised parameter is the received parameter
			alt := top
			alt.Params = append([]sip.KV{}, top.Params...)
			for j := range alt.Params {
				if strings.EqualFold(alt.Params[j].K, "received") {
					alt.Params[j].V = trueIP
				}
				if alt.Params[j].K == "rport" {
					alt.Params[j].V, alt.Params[j].HasVal = fmt.Sprint(truePort), true
				}
			}
			if gotTop.String() == alt.String() {
				want = alt
			}
		}
		if gotTop.String() != want.String() {
			key := "sender's Via entry not stamped with the packet's true source"
			if sv.NoRecv {
				key = "sender's Via entry changed although received-support is disabled"
			}
			run.Violation(key, detail("", map[string]any{"want_entry": want.String(), "got_entry": outV[1]}))
			return false
		}
		for k := 1; k < len(entries); k++ {
			if outV[k+1] != entries[k] {
				run.Violation("another Via entry was changed", detail("", map[string]any{"want": entries[k], "got": outV[k+1]}))
				return false
			}
		}
		if sv.NoRecv {
			*untouched++
		} else {
			*stamped++
		}
	}
	// --- the backend answers from its configured address
	firstStatus := []int{200, 180, 404, 486}[g.R.Intn(4)]
	resp := &sip.Msg{Start: fmt.Sprintf("SIP/2.0 %d OK", firstStatus)}
	for _, h := range atBackend.Msg.Headers {
		switch sip.Canon(h.Name) {
		case "via", "from", "call-id", "cseq", "x-vf":
			resp.Headers = append(resp.Headers, h)
		case "to":
			resp.Headers = append(resp.Headers, sip.Header{Name: h.Name, Value: h.Value + ";tag=t" + id})
		}
	}
	resp.Headers = append(resp.Headers, sip.Header{Name: "Content-Length", Value: "0"})
	if g.R.Intn(2) == 0 {
		// the answering element lays the Via list out its own way: all entries in one header line
		// (the proxy's own entry and the sender's side by side)
		var rest []sip.Header
		placed := false
		for _, h := range resp.Headers {
			if sip.Canon(h.Name) == "via" {
				if !placed {
					placed = true
					rest = append(rest, sip.Header{Name: []string{"Via", "v", "VIA"}[g.R.Intn(3)], Value: strings.Join(outV, []string{",", ", ", " , "}[g.R.Intn(3)])})
				}
				continue
			}
			rest = append(rest, h)
		}
		resp.Headers = rest
		w.joinedAnswers++
	}
	if atBackend.Proto == "udp" && g.R.Intn(3) == 0 {
		// the answer reaches the proxy from another element than the backend it went to (a
		// response is passed on by its Via list, wherever it comes from)
		var from *wire.UDPEndpoint
		for _, e := range w.Hops[g.R.Intn(len(w.Hops))].UDP {
			from = e
			break
		}
		if from != nil {
			from.Send(fmt.Sprintf("%s:%d", sv.IP, sv.UDP), resp.Bytes(), id)
			w.foreignAnswers++
		}
	} else if atBackend.Proto == "udp" {
		for _, e := range sv.BeUDP {
			if e.Name == atBackend.Ep {
				e.Send(fmt.Sprintf("%s:%d", sv.IP, sv.UDP), resp.Bytes(), id)
			}
		}
	} else {
		for _, l := range sv.BeTCP {
			if c := l.ConnByID(atBackend.Conn); c != nil {
				c.Send(resp.Bytes(), id)
			}
		}
	}
	isResp := func(o []*wire.Obs) bool {
		for _, x := range o {
			if x.Msg != nil && !x.Msg.IsRequest() {
				return true
			}
		}
		return false
	}
	w.Net.WaitCase(id, isResp, 300*time.Millisecond)
	// barrier through the backend path is not possible; the UA-side barrier orders
	// only the request leg, so absence at decoys is decided after a drain plus the
	// identity-based sweep of everything that arrived for this case
	if !w.Barrier(path) {
		run.Inconclusive(1)
		return false
	}
	all := w.Net.ForCase(id)
	var resps []*wire.Obs
	for _, x := range all {
		if x.Msg != nil && !x.Msg.IsRequest() {
			resps = append(resps, x)
		}
	}
	if len(resps) == 0 {
		// give a response that is still on its way a bounded chance
		w.Net.WaitCase(id, isResp, w.BarrierWait)
		for _, x := range w.Net.ForCase(id) {
			if x.Msg != nil && !x.Msg.IsRequest() {
				resps = append(resps, x)
			}
		}
	}
	// where must the response arrive?
	wantDesc := ""
	var atWant func(o *wire.Obs) bool
	tcpIngress := ingress != "udp"
	switch {
	case tcpIngress:
		wantDesc = "the connection that carried the request"
		atWant = respAt
	case !sv.NoRecv && rportShape != "absent":
		wantDesc = fmt.Sprintf("true source %s:%d", trueIP, truePort)
		atWant = respAt
	case !sv.NoRecv:
		p := sentPort
		if p == 0 {
			p = 5060
		}
		wantDesc = fmt.Sprintf("true source IP with the sent-by port: %s:%d", trueIP, p)
		atWant = func(o *wire.Obs) bool { return o.Proto == "udp" && o.Local == fmt.Sprintf("%s:%d", trueIP, p) }
	default:
		// received-support disabled: the proxy follows what the sender wrote
		host, p := sentHost, sentPort
		if p == 0 {
			p = 5060
		}
		if recvShape == "spoofed" {
			host = spoofIP
			if rportShape == "spoofed" {
				p = decoyPort
			}
		}
		wantDesc = fmt.Sprintf("what the sender wrote: %s:%d", host, p)
		atWant = func(o *wire.Obs) bool { return o.Proto == "udp" && o.Local == fmt.Sprintf("%s:%d", host, p) }
		if recvShape == "spoofed-name-case" {
			// either reading of the capitalised parameter is "what the sender wrote"
			wantDesc += fmt.Sprintf(" or %s", spoofIP)
			atWant = func(o *wire.Obs) bool {
				return o.Proto == "udp" && (o.Local == fmt.Sprintf("%s:%d", host, p) || strings.HasPrefix(o.Local, spoofIP+":"))
			}
		}
	}
	var where []string
	for _, x := range resps {
		where = append(where, fmt.Sprintf("%s %s", x.Ep, x.Local))
	}
	if len(resps) != 1 || !atWant(resps[0]) {
		key := "response did not travel back to the packet's true source"
		if sv.NoRecv && !tcpIngress {
			key = "response did not follow the sender's Via although received-support is disabled"
		}
		if prop == "C02" && (sv.NoRecv && !tcpIngress) {
			// with stamping disabled and a lying Via the response legitimately goes to the decoy
		} else if prop == "C02" && len(resps) == 0 {
			run.Violation("response to a relayed request did not return to the hop the request came from", detail("", map[string]any{"expected_at": wantDesc, "responses_seen_at": where}))
			return false
		}
		if prop == "C07" {
			run.Violation(key, detail("", map[string]any{"expected_at": wantDesc, "responses_seen_at": where, "response_sent_by_backend": string(resp.Bytes())}))
			return false
		}
		if len(resps) != 1 {
			return false
		}
	}
	*back++
	if prop == "C02" {
		got := resps[0].Msg.List("via")
		ok := len(got) == len(entries)
		for k := 0; ok && k < len(entries); k++ {
			a, b := entries[k], got[k]
			if k == 0 && !sv.NoRecv {
				a, b = stripStamp(a), stripStamp(b)
			}
			if a != b {
				ok = false
			}
		}
		if !ok {
			run.Violation("response came back with a Via stack other than the one the hop sent", detail("", map[string]any{"sent": entries, "came_back": got}))
			return false
		}
		if len(resps) == 1 && !atWant(resps[0]) && !(sv.NoRecv && !tcpIngress) {
			run.Violation("response came back to a socket other than the one the request came from", detail("", map[string]any{"expected_at": wantDesc, "responses_seen_at": where}))
			return false
		}
	}
	if prop == "C07" && ingress == "udp" && !sv.NoRecv && rportShape != "absent" && firstStatus == 180 && uidx < len(w.ephR) && w.ephR[uidx] != nil && atBackend.Proto == "udp" {
		// the call is still ringing; the sender retransmits the request, this time from another
		// source port (its NAT binding changed). The copy is stamped with the new port, and the
		// answer to the copy goes to that port.
		er := w.ephR[uidx]
		nreq := func(o []*wire.Obs) int {
			n := 0
			for _, x := range o {
				if x.Msg != nil && x.Msg.IsRequest() && sv.BackendEndpointNames()[x.Ep] {
					n++
				}
			}
			return n
		}
		nresp := func(o []*wire.Obs) int {
			n := 0
			for _, x := range o {
				if x.Msg != nil && !x.Msg.IsRequest() {
					n++
				}
			}
			return n
		}
		r0, p0 := nreq(w.Net.ForCase(id)), nresp(w.Net.ForCase(id))
		er.Send(w.ListenerAddr(path), m.Bytes(), id)
		if o2, ok := w.Net.WaitCase(id, func(o []*wire.Obs) bool { return nreq(o) > r0 }, w.BarrierWait); ok {
			var copyAt *wire.Obs
			for _, x := range o2 {
				if x.Msg != nil && x.Msg.IsRequest() && sv.BackendEndpointNames()[x.Ep] {
					copyAt = x
				}
			}
			if copyAt != nil && copyAt.Proto == "udp" {
				r2 := &sip.Msg{Start: "SIP/2.0 183 Session Progress"}
				for _, h := range copyAt.Msg.Headers {
					switch sip.Canon(h.Name) {
					case "via", "from", "call-id", "cseq", "x-vf":
						r2.Headers = append(r2.Headers, h)
					case "to":
						r2.Headers = append(r2.Headers, sip.Header{Name: h.Name, Value: h.Value + ";tag=t" + id})
					}
				}
				r2.Headers = append(r2.Headers, sip.Header{Name: "Content-Length", Value: "0"})
				for _, e := range sv.BeUDP {
					if e.Name == copyAt.Ep {
						e.Send(fmt.Sprintf("%s:%d", sv.IP, sv.UDP), r2.Bytes(), id)
					}
				}
				w.Net.WaitCase(id, func(o []*wire.Obs) bool { return nresp(o) > p0 }, w.BarrierWait)
				w.Barrier(path)
				var newResp []*wire.Obs
				for _, x := range w.Net.ForCase(id) {
					if x.Msg != nil && !x.Msg.IsRequest() {
						newResp = append(newResp, x)
					}
				}
				newResp = newResp[vfMin(p0, len(newResp)):]
				w.retransmits++
				var where2 []string
				for _, x := range newResp {
					where2 = append(where2, fmt.Sprintf("%s %s", x.Ep, x.Local))
				}
				if len(newResp) != 1 || newResp[0].Ep != er.Name {
					run.Violation("the answer to a request retransmitted from a new source port did not go to that port", detail("", map[string]any{"first_copy_from": fmt.Sprintf("%s:%d", trueIP, truePort), "retransmitted_from": er.Addr, "answer_seen_at": where2, "sender_entry_of_the_copy_at_backend": copyAt.Msg.List("via")}))
					return false
				}
			}
		}
	}
	run.Eval(cell + "|" + lay)
	if run.WantSample() && i > 10 {
		run.Sample(map[string]any{"cell": cell, "true_source": fmt.Sprintf("%s:%d", trueIP, truePort), "request_sent": string(m.Bytes()), "sender_entry_at_backend": outV[1], "response_arrived_at": where})
	}
	return true
}

// provokeHopConn makes the proxy open a TCP connection to hop by relaying a
// request there and returns the driver's end of it.
func provokeHopConn(w *stampWorld, path wire.Path, hop *wire.Hop, id string) *wire.TCPConn {
	l := hop.TCP[wire.NextHopPortB]
	pid := id + "p"
	sv := w.Svcs[path.Svc]
	m := wire.StdRequest(pid, "OPTIONS", "sip:probe@foreign.example", "udp", w.UAs[path.UA].IP, wire.UDPPort)
	wire.InsertBefore(m, "max-forwards", sip.Header{Name: "Route", Value: fmt.Sprintf("<sip:%s:%d;transport=tcp;lr>", hop.IP, wire.NextHopPortB)})
	p := wire.Path{UA: path.UA, Svc: path.Svc, Proto: "udp"}
	if w.Send(p, m.Bytes(), pid) != nil {
		return nil
	}
	obs, ok := w.Net.WaitCase(pid, func(o []*wire.Obs) bool { return len(o) > 0 }, w.BarrierWait)
	w.Barrier(p)
	if !ok {
		return nil
	}
	for _, o := range obs {
		if o.Proto == "tcp" && o.Ep == l.Name {
			c := l.ConnByID(o.Conn)
			// the connection must belong to this service's proxy
			if c != nil && strings.HasPrefix(c.Peer, sv.IP+":") {
				return c
			}
		}
	}
	return nil
}

// provokeBackendConn makes the proxy open the connection to its TCP backend.
func provokeBackendConn(w *stampWorld, path wire.Path, sv *wire.Svc, id string) *wire.TCPConn {
	if len(sv.BeTCP) == 0 {
		return nil
	}
	l := sv.BeTCP[0]
	for try := 0; try < 2*(len(sv.BeUDP)+1); try++ {
		if cs := l.Conns(); len(cs) > 0 && !cs[len(cs)-1].EOF() {
			return cs[len(cs)-1]
		}
		pid := fmt.Sprintf("%sq%d", id, try)
		m := wire.StdRequest(pid, "OPTIONS", fmt.Sprintf("sip:svc%d.verif.test", sv.Index), "udp", w.UAs[path.UA].IP, wire.UDPPort)
		if sv.HasDef {
			wire.SetHeader(m, "To", "<tel:+15550124>")
		}
		p := wire.Path{UA: path.UA, Svc: path.Svc, Proto: "udp"}
		if w.Send(p, m.Bytes(), pid) != nil {
			return nil
		}
		w.Net.WaitCase(pid, func(o []*wire.Obs) bool { return len(o) > 0 }, w.BarrierWait)
		w.Barrier(p)
	}
	if cs := l.Conns(); len(cs) > 0 {
		return cs[len(cs)-1]
	}
	return nil
}

// stampBurst: several sources send to one UDP listener at the same time, so
// that datagrams are read while earlier ones are still being parsed; every
// request must still be stamped with the source of its own packet.
func stampBurst(run *ev.Run, w *stampWorld, g *sip.Gen, round int) int {
	var cand []int
	for s, sv := range w.Svcs {
		if !sv.NoRecv {
			cand = append(cand, s)
		}
	}
	svc := cand[g.R.Intn(len(cand))]
	sv := w.Svcs[svc]
	dst := fmt.Sprintf("%s:%d", sv.IP, sv.UDP)
	type sent struct {
		id   string
		ip   string
		port int
	}
	var all []sent
	var mu sync.Mutex
	var wg sync.WaitGroup
	nsrc := 2 + g.R.Intn(len(w.eph)-1)
	per := 3 + g.R.Intn(6)
	for s := 0; s < nsrc; s++ {
		wg.Add(1)
		go func(s int) {
			defer wg.Done()
			e := w.eph[s]
			for k := 0; k < per; k++ {
				id := fmt.Sprintf("sb%d-%d-%d", round, s, k)
				m := wire.StdRequest(id, "OPTIONS", fmt.Sprintf("sip:bob@users%d.verif.test", svc), "udp", w.Plan.Decoy(1), decoyPort)
				wire.SetHeader(m, "Via", fmt.Sprintf("SIP/2.0/UDP %s:%d;branch=z9hG4bKvf%s;rport", w.Plan.Decoy(1), decoyPort, id))
				if sv.HasDef {
					wire.SetHeader(m, "To", "<tel:+15550125>")
				}
				mu.Lock()
				all = append(all, sent{id, e.IP(), e.Port()})
				mu.Unlock()
				e.Send(dst, m.Bytes(), id)
			}
		}(s)
	}
	wg.Wait()
	if !w.Barrier(wire.Path{UA: 0, Svc: svc, Proto: "udp"}) {
		run.Inconclusive(1)
		return 0
	}
	ok := 0
	for _, x := range all {
		var at *wire.Obs
		for _, o := range w.Net.ForCase(x.id) {
			if o.Msg != nil && o.Msg.IsRequest() && sv.BackendEndpointNames()[o.Ep] {
				at = o
			}
		}
		if at == nil {
			continue // loss under a burst is not C07's business
		}
		vs := at.Msg.List("via")
		if len(vs) < 2 {
			continue
		}
		v, err := sip.ParseVia(vs[1])
		if err != nil {
			continue
		}
		rc, _ := v.Param("received")
		rp, _ := v.Param("rport")
		if rc.V != x.ip || rp.V != fmt.Sprint(x.port) {
			run.Violation("under concurrent senders a request was stamped with the source of another packet", map[string]any{"service": svc, "true_source": fmt.Sprintf("%s:%d", x.ip, x.port), "stamped_entry": vs[1], "sources_in_burst": nsrc, "datagrams_per_source": per})
			return ok
		}
		ok++
	}
	run.Eval(fmt.Sprintf("burst|src%d|per%d", nsrc, per))
	return ok
}
