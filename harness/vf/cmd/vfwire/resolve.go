package main

// Scenario "resolve" (C19, wire part): the unmodified binary resolves its
// backends through a scripted DNS server inside the run's namespace. After every
// polling round the rotation must consist of exactly the model's members
// (<= 3 consecutive failures keep the set, the 4th empties it) and responses
// must be attributed to current members only.

import (
	"fmt"
	"os"
	"sort"
	"strings"
	"time"

	"vf/ev"
	"vf/sip"
	"vf/wire"
)

type rsName struct {
	name   string
	pool   []string
	script [][]string
	addrs  []string
	failed int
	ever   map[string]bool
	round  int
}

func (n *rsName) apply(idx int) {
	out := n.script[idx]
	if idx == 0 {
		// start-up resolution: a success with addresses is taken, anything else leaves the set empty
		if out != nil {
			n.addrs = append([]string{}, out...)
			for _, a := range out {
				n.ever[a] = true
			}
		}
		return
	}
	if out != nil {
		n.addrs = append([]string{}, out...)
		n.failed = 0
		for _, a := range out {
			n.ever[a] = true
		}
		return
	}
	n.failed++
	if n.failed > 3 && len(n.addrs) > 0 {
		n.addrs = nil
		n.failed = 0
	}
}

func scenarioResolve() int {
	run := ev.New("C19", "fault_enumeration",
		"the unmodified -race binary with backends given by host name; a scripted DNS server in the run's private namespace answers each polling round (start-up, then every 2 s) with a generated outcome: any duplicate-free subset of 5 addresses, or NXDOMAIN; udp and tcp backends, one or two names per rotation; "+
			"after every round: k dispatch probes must reach each model member exactly once (none with an empty set) and attribution probes (unsolicited INVITE 200 from address X, then three in-dialog requests) must pin iff X is a current member; probes that straddle a round change are discarded; distinct = (service, round outcome kind) cells")
	if os.Getenv("VF_IN_NS") != "1" {
		fmt.Println("NOTE C19 wire part needs the private namespace (DNS on 127.0.0.1:53); not run")
		run.Eval("skipped-a")
		run.Eval("skipped-b")
		run.Observe("skipped", "no private namespace")
		return run.Finish(0)
	}
	rounds := *flagCases
	if rounds == 0 {
		rounds = ev.Pick(7, 45)
	}
	g := sip.NewGen(shardSeed(run.Seed))
	var dns *wire.FakeDNS
	var names [][]*rsName
	w, err := wire.NewWorld(*flagBin, *flagDir, wire.Opts{Services: 4, Backends: 5, TCPBackend: false, PreStart: func(w *wire.World) error {
		d, err := wire.StartFakeDNS("127.0.0.1:53")
		if err != nil {
			return err
		}
		dns = d
		for s, sv := range w.Svcs {
			scheme := "udp"
			var pool []string
			for _, e := range sv.BeUDP {
				pool = append(pool, e.IP())
			}
			var ns []*rsName
			if s%2 == 0 {
				ns = []*rsName{{name: fmt.Sprintf("dyn%d.verif.test", s), pool: pool, ever: map[string]bool{}}}
			} else {
				ns = []*rsName{{name: fmt.Sprintf("dyn%da.verif.test", s), pool: pool[:3], ever: map[string]bool{}}, {name: fmt.Sprintf("dyn%db.verif.test", s), pool: pool[3:], ever: map[string]bool{}}}
			}
			var be []string
			for _, n := range ns {
				be = append(be, fmt.Sprintf("%s://%s:%d", scheme, n.name, wire.BackendPort))
				// script: first a non-empty set, then random outcomes with failure runs
				for r := 0; r < rounds+2; r++ {
					var out []string
					switch x := g.R.Intn(10); {
					case r == 0 && s != 2:
						out = append([]string{}, n.pool[:1+g.R.Intn(len(n.pool))]...)
					case r == 0:
						out = nil // service 2 starts with a failing resolution
					case x < 4:
						out = nil
					default:
						for _, a := range n.pool {
							if g.R.Intn(2) == 0 {
								out = append(out, a)
							}
						}
						if len(out) == 0 {
							out = append(out, n.pool[g.R.Intn(len(n.pool))])
						}
						g.R.Shuffle(len(out), func(i, j int) { out[i], out[j] = out[j], out[i] })
					}
					n.script = append(n.script, out)
				}
				// make sure a run of four failures occurs in every script that is long enough
				if len(n.script) > 7 {
					st := 2 + g.R.Intn(2)
					for k := st; k < st+4 && k < len(n.script); k++ {
						n.script[k] = nil
					}
					if n.script[st-1] == nil {
						n.script[st-1] = append([]string{}, n.pool[:2]...)
					}
				}
				d.Script(n.name, n.script)
			}
			w.Cfg.Services[s].Listens[0].Backends = be
			names = append(names, ns)
		}
		return nil
	}})
	if dns != nil {
		defer dns.Close()
	}
	if err != nil {
		fmt.Println("HARNESS-ERROR world:", err)
		return 2
	}
	defer w.Close()
	seq := 0
	members := func(s int) []string {
		var m []string
		for _, n := range names[s] {
			for _, a := range n.addrs {
				m = append(m, fmt.Sprintf("%s:%d", a, wire.BackendPort))
			}
		}
		sort.Strings(m)
		return m
	}
	roundsOf := func(s int) string {
		var r []string
		for _, n := range names[s] {
			r = append(r, fmt.Sprint(dns.Rounds(n.name)))
		}
		return strings.Join(r, ",")
	}
	request := func(s int, id, method, callID, fromTag, toTag string) []byte {
		m := wire.StdRequest(id, method, fmt.Sprintf("sip:svc%d.verif.test", s), "udp", w.UAs[0].IP, wire.UDPPort)
		wire.SetHeader(m, "Call-ID", callID)
		wire.SetHeader(m, "From", "<sip:alice@ua.verif.test>;tag="+fromTag)
		to := "<sip:bob@callee.example>"
		if toTag != "" {
			to += ";tag=" + toTag
		}
		wire.SetHeader(m, "To", to)
		return m.Bytes()
	}
	backendHits := func(s int, id string) []string {
		var r []string
		for _, o := range w.Net.ForCase(id) {
			if o.Msg != nil && o.Msg.IsRequest() && w.Svcs[s].BackendEndpointNames()[o.Ep] {
				r = append(r, o.Local)
			}
		}
		return r
	}
	kept, emptied, probesOK, attribOK, discarded := 0, 0, 0, 0, 0
	applied := make([][]int, len(names))
	for s := range names {
		applied[s] = make([]int, len(names[s]))
	}
	deadline := time.Now().Add(time.Duration(rounds*2+6) * time.Second)
	for time.Now().Before(deadline) && run.Violations() <= 5 {
		if h := w.Health(); h != "" {
			run.Violation("proxy died during the run", map[string]any{"health": h})
			break
		}
		progressed := false
		for s := range names {
			// bring the model up to the rounds the DNS server has answered
			changed := false
			for k, n := range names[s] {
				r := dns.Rounds(n.name)
				for applied[s][k] < r && applied[s][k] < len(n.script) {
					before, bf := len(n.addrs), n.failed
					n.apply(applied[s][k])
					if n.script[applied[s][k]] == nil && before > 0 && applied[s][k] > 0 {
						if bf < 3 {
							kept++
						} else {
							emptied++
						}
					}
					applied[s][k]++
					changed = true
				}
			}
			if !changed {
				continue
			}
			progressed = true
			mark := roundsOf(s)
			time.Sleep(350 * time.Millisecond) // the proxy applies an outcome asynchronously right after the answer
			m := members(s)
			p := wire.Path{UA: 0, Svc: s, Proto: "udp"}
			var trace []string
			for k, n := range names[s] {
				var o []string
				for i := 0; i < applied[s][k]; i++ {
					if n.script[i] == nil {
						o = append(o, "fail")
					} else {
						var last []string
						for _, a := range n.script[i] {
							last = append(last, a[strings.LastIndexByte(a, '.')+1:])
						}
						o = append(o, "{"+strings.Join(last, ",")+"}")
					}
				}
				trace = append(trace, n.name+": "+strings.Join(o, " "))
			}
			// dispatch probes
			k := len(m)
			np := k
			if k == 0 {
				np = 2
			}
			var hits []string
			for i := 0; i < np; i++ {
				seq++
				id := fmt.Sprintf("v%d", seq)
				w.Send(p, request(s, id, "OPTIONS", id+"@vf", "f"+id, ""), id)
				w.Net.WaitCase(id, func(o []*wire.Obs) bool { return len(o) > 0 }, 300*time.Millisecond)
				w.Barrier(p)
				hits = append(hits, backendHits(s, id)...)
			}
			if roundsOf(s) != mark {
				discarded++
				continue
			}
			sort.Strings(hits)
			if strings.Join(hits, ",") != strings.Join(m, ",") {
				run.Violation("dispatch targets differ from the membership that name resolution defines", map[string]any{"service": s, "members": m, "k_dispatches_arrived_at": hits, "outcomes_so_far": trace})
				continue
			}
			probesOK++
			kind := fmt.Sprintf("svc%d|members%d", s, vfMin(k, 3))
			run.Eval(kind)
			// attribution probes
			var cands []string
			if len(m) >= 2 {
				cands = append(cands, m[g.R.Intn(len(m))])
			}
			for _, n := range names[s] {
				for a := range n.ever {
					x := fmt.Sprintf("%s:%d", a, wire.BackendPort)
					cur := false
					for _, c := range m {
						cur = cur || c == x
					}
					if !cur {
						cands = append(cands, x)
						break
					}
				}
			}
			for _, x := range cands {
				isMember := false
				for _, c := range m {
					isMember = isMember || c == x
				}
				var be *wire.UDPEndpoint
				for _, e := range w.Svcs[s].BeUDP {
					if e.Addr == x {
						be = e
					}
				}
				if be == nil {
					continue
				}
				seq++
				id := fmt.Sprintf("a%d", seq)
				call := id + "-call@vf"
				resp := fmt.Sprintf("SIP/2.0 200 OK\r\nVia: SIP/2.0/UDP %s:%d;branch=z9hG4bKunknown%s\r\nFrom: <sip:alice@ua.verif.test>;tag=ft%s\r\nTo: <sip:bob@callee.example>;tag=tt%s\r\nCall-ID: %s\r\nCSeq: 1 INVITE\r\nContent-Length: 0\r\n\r\n", w.Svcs[s].IP, w.Svcs[s].UDP, id, id, id, call)
				be.Send(fmt.Sprintf("%s:%d", w.Svcs[s].IP, w.Svcs[s].UDP), []byte(resp), id)
				time.Sleep(5 * time.Millisecond)
				var ahits []string
				for i := 0; i < 3; i++ {
					seq++
					pid := fmt.Sprintf("%sp%d", id, i)
					w.Send(p, request(s, pid, "INFO", call, "ft"+id, "tt"+id), pid)
					w.Net.WaitCase(pid, func(o []*wire.Obs) bool { return len(o) > 0 }, 300*time.Millisecond)
					w.Barrier(p)
					ahits = append(ahits, backendHits(s, pid)...)
				}
				if roundsOf(s) != mark {
					discarded++
					continue
				}
				ok := true
				if isMember {
					ok = len(ahits) == 3 && ahits[0] == x && ahits[1] == x && ahits[2] == x
				} else {
					ok = len(ahits) == vfMin(3, 3*vfMin(len(m), 1))
					for _, hgot := range ahits {
						in := false
						for _, c := range m {
							in = in || c == hgot
						}
						ok = ok && in
					}
				}
				if !ok {
					what := "a response from a current member was not attributed to it"
					if !isMember {
						what = "a response from an address that is not (or no longer) in the resolved set was attributed to a backend"
					}
					run.Violation(what, map[string]any{"service": s, "address": x, "members": m, "in_dialog_requests_arrived_at": ahits, "outcomes_so_far": trace})
					continue
				}
				attribOK++
				run.Eval(fmt.Sprintf("attrib|member=%v|svc%d", isMember, s))
			}
		}
		if !progressed {
			time.Sleep(50 * time.Millisecond)
		}
		done := true
		for s := range names {
			for k := range names[s] {
				if applied[s][k] < rounds {
					done = false
				}
			}
		}
		if done {
			break
		}
	}
	var samples []map[string]any
	for s := range names {
		for _, n := range names[s] {
			var o []string
			for i := 0; i < len(n.script) && i < rounds; i++ {
				if n.script[i] == nil {
					o = append(o, "NXDOMAIN")
				} else {
					o = append(o, strings.Join(n.script[i], "+"))
				}
			}
			samples = append(samples, map[string]any{"name": n.name, "rounds": o})
		}
	}
	for _, sm := range samples {
		run.Sample(sm)
	}
	run.Observe("rounds_applied", applied)
	run.Observe("dispatch_probe_sets_matching_the_model", probesOK)
	run.Observe("attribution_probes_matching_the_model", attribOK)
	run.Observe("probe_sets_discarded_because_a_round_changed_meanwhile", discarded)
	run.Observe("failures_that_had_to_keep_the_set", kept)
	run.Observe("failures_that_had_to_empty_the_set", emptied)
	if probesOK < rounds {
		run.Violation("observed-nothing", map[string]any{"probe_sets": probesOK})
	}
	run.Assume("one A query per name per polling round (NXDOMAIN is not retried by the resolver); a 'successful resolution without addresses' cannot be expressed in DNS and is covered in-package")
	return run.Finish(int64(rounds))
}
