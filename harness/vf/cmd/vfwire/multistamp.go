package main

// Scenario "multistamp" (C07 with several listeners of one service): each
// `listens:` entry has its own no-received setting (true / false / omitted, in
// every order); requests through every listener must be stamped - or left
// alone - according to the setting of the listener they arrived on.

import (
	"fmt"
	"strings"
	"time"

	"vf/ev"
	"vf/sip"
	"vf/wire"
)

func scenarioMultiStamp() int {
	run := ev.New("C07", "exploration",
		"services with 3-4 listeners whose no-received settings differ (true / false / omitted in every order) on the real -race binary; requests with a lying top Via (other host and port, rport absent / valueless / spoofed, received absent / spoofed) from UDP sockets on ephemeral ports and over TCP connections, every method, through every listener to that listener's backend; "+
			"oracle = the driver's knowledge of the true source and of the setting of the listener the packet arrived on; distinct = (service order, listener, transport, rport/received shape) cells")
	plan := wire.NewPlan()
	net := wire.NewNet()
	defer net.Close()
	type lst struct {
		svc, l int
		ip     string
		norecv bool
		be     *wire.UDPEndpoint
		udp    int
		tcp    int
	}
	var ls []*lst
	orders := [][]string{{"true", "omit", "false", "true"}, {"omit", "true", "false"}, {"false", "true", "omit"}, {"true", "true", "omit", "false"}}
	cfg := &wire.Config{}
	fail := func(err error) int {
		fmt.Println("HARNESS-ERROR multistamp:", err)
		return 2
	}
	for s, order := range orders {
		svc := &wire.Service{Index: s, Name: fmt.Sprintf("svc%d.verif.test", s)}
		for l, setting := range order {
			ip := plan.Listener(s, l)
			beAddr := fmt.Sprintf("%s:%d", plan.Backend(s, 10*l+1), wire.BackendPort)
			be, err := net.UDP(fmt.Sprintf("be%d.%d/udp", s, l), beAddr)
			if err != nil {
				return fail(err)
			}
			li := wire.Listen{Address: ip, UDPPort: wire.UDPPort, TCPPort: wire.TCPPort, Backends: []string{"udp://" + beAddr}}
			t, f := true, false
			switch setting {
			case "true":
				li.NoReceived = &t
			case "false":
				li.NoReceived = &f
			}
			svc.Listens = append(svc.Listens, li)
			ls = append(ls, &lst{svc: s, l: l, ip: ip, norecv: setting == "true", be: be, udp: wire.UDPPort, tcp: wire.TCPPort})
		}
		cfg.Services = append(cfg.Services, svc)
	}
	// one more service listens on the wildcard address (ports of its own): packets for any local
	// address arrive there, and the sender's address is still an IPv4 address
	{
		s := len(orders)
		orders = append(orders, []string{"omit"})
		svc := &wire.Service{Index: s, Name: fmt.Sprintf("svc%d.verif.test", s)}
		beAddr := fmt.Sprintf("%s:%d", plan.Backend(s, 1), wire.BackendPort)
		be, err := net.UDP(fmt.Sprintf("be%d.0/udp", s), beAddr)
		if err != nil {
			return fail(err)
		}
		svc.Listens = append(svc.Listens, wire.Listen{Address: "0.0.0.0", UDPPort: 5999, TCPPort: 5998, Backends: []string{"udp://" + beAddr}})
		ls = append(ls, &lst{svc: s, l: 0, ip: plan.Listener(s, 0), norecv: false, be: be, udp: 5999, tcp: 5998})
		cfg.Services = append(cfg.Services, svc)
	}
	var srcs []*wire.UDPEndpoint
	for i := 1; i <= 4; i++ {
		e, err := net.UDP(fmt.Sprintf("src%d", i), plan.UA(i)+":0")
		if err != nil {
			return fail(err)
		}
		srcs = append(srcs, e)
	}
	proxy, err := wire.StartProxy(*flagBin, *flagDir+"/proxy", cfg, plan.PprofPort())
	if err != nil {
		return fail(err)
	}
	defer proxy.Stop()
	g := sip.NewGen(shardSeed(run.Seed))
	seq := 0
	mk := func(id, svcName, viaTransport string, rportShape, recvShape string) (*sip.Msg, string) {
		method := []string{"OPTIONS", "INVITE", "ACK", "BYE", "MESSAGE", "REGISTER", g.Method()}[g.R.Intn(7)]
		m := wire.StdRequest(id, method, "sip:"+svcName, strings.ToLower(viaTransport), "placeholder", 0)
		wire.SetHeader(m, "To", "<tel:+15550155>")
		v := fmt.Sprintf("SIP/2.0/%s %s:%d;branch=z9hG4bKvf%s", viaTransport, plan.Decoy(1), decoyPort, id)
		switch rportShape {
		case "valueless":
			v += ";rport"
		case "spoofed":
			v += fmt.Sprintf(";rport=%d", decoyPort)
		}
		if recvShape == "spoofed" {
			v += ";received=" + plan.Decoy(2)
		}
		wire.SetHeader(m, "Via", v)
		return m, v
	}
	// readiness: every listener relays to its backend
	for _, li := range ls {
		ok := false
		for try := 0; try < 100 && !ok; try++ {
			if !proxy.Alive() {
				return fail(fmt.Errorf("proxy exited: %s", proxy.StderrHead(2000)))
			}
			seq++
			id := fmt.Sprintf("rd%d", seq)
			m, _ := mk(id, fmt.Sprintf("svc%d.verif.test", li.svc), "UDP", "absent", "absent")
			srcs[0].Send(fmt.Sprintf("%s:%d", li.ip, li.udp), m.Bytes(), id)
			_, ok = net.WaitCase(id, func(o []*wire.Obs) bool { return len(o) > 0 }, 150*time.Millisecond)
		}
		if !ok {
			return fail(fmt.Errorf("listener %s never relayed", li.ip))
		}
	}
	n := *flagCases
	if n == 0 {
		n = ev.Pick(500, 10000)
	}
	conns := map[string]*wire.TCPConn{}
	okc := 0
	for i := 0; i < n && run.Violations() <= 6; i++ {
		if !proxy.Alive() || proxy.Crashed() {
			run.Violation("proxy died during the run", map[string]any{"stderr": proxy.StderrHead(3000)})
			break
		}
		li := ls[g.R.Intn(len(ls))]
		rportShape := []string{"absent", "valueless", "spoofed"}[g.R.Intn(3)]
		recvShape := []string{"absent", "absent", "spoofed"}[g.R.Intn(3)]
		tcp := g.R.Intn(2) == 0
		seq++
		id := fmt.Sprintf("ms%d", seq)
		var trueIP string
		var truePort int
		var sentVia string
		var m *sip.Msg
		if tcp {
			src := plan.UA(1 + g.R.Intn(4))
			key := src + ">" + li.ip
			c := conns[key]
			if c == nil || c.EOF() {
				c, err = net.Dial("tcp/"+key, src+":0", fmt.Sprintf("%s:%d", li.ip, li.tcp))
				if err != nil {
					run.Inconclusive(1)
					continue
				}
				conns[key] = c
			}
			trueIP = src
			fmt.Sscanf(c.Local[strings.LastIndexByte(c.Local, ':')+1:], "%d", &truePort)
			m, sentVia = mk(id, fmt.Sprintf("svc%d.verif.test", li.svc), "TCP", rportShape, recvShape)
			c.Send(m.Bytes(), id)
		} else {
			e := srcs[g.R.Intn(len(srcs))]
			trueIP, truePort = e.IP(), e.Port()
			m, sentVia = mk(id, fmt.Sprintf("svc%d.verif.test", li.svc), "UDP", rportShape, recvShape)
			e.Send(fmt.Sprintf("%s:%d", li.ip, li.udp), m.Bytes(), id)
		}
		obs, seen := net.WaitCase(id, func(o []*wire.Obs) bool { return len(o) > 0 }, 5*time.Second)
		if !seen {
			run.Inconclusive(1)
			continue
		}
		if len(obs) != 1 || obs[0].Ep != li.be.Name || obs[0].Msg == nil {
			run.Inconclusive(1) // delivery questions are C03's / C09's
			continue
		}
		vs := obs[0].Msg.List("via")
		if len(vs) != 2 {
			run.Violation("Via list at the backend has the wrong length", map[string]any{"via": vs})
			continue
		}
		want := sentVia
		if !li.norecv {
			parts := strings.Split(sentVia, ";")
			out := parts[:1]
			hadRecv := false
			for _, p := range parts[1:] {
				switch {
				case strings.HasPrefix(p, "received="):
					out = append(out, "received="+trueIP)
					hadRecv = true
				case strings.HasPrefix(p, "rport"):
					out = append(out, fmt.Sprintf("rport=%d", truePort))
				default:
					out = append(out, p)
				}
			}
			if !hadRecv {
				out = append(out, "received="+trueIP)
			}
			want = strings.Join(out, ";")
		}
		cell := fmt.Sprintf("svc%d|l%d|norecv=%v|tcp=%v|rport=%s|received=%s", li.svc, li.l, li.norecv, tcp, rportShape, recvShape)
		if vs[1] != want {
			key := "request not stamped according to the setting of the listener it arrived on"
			run.Violation(key, map[string]any{"cell": cell, "listener": li.ip, "no_received_of_this_listener": li.norecv, "settings_of_the_service_in_order": orders[li.svc], "true_source": fmt.Sprintf("%s:%d", trueIP, truePort), "want_entry": want, "got_entry": vs[1], "method": m.Method()})
			continue
		}
		okc++
		run.Eval(cell)
		if run.WantSample() && i > 10 {
			run.Sample(map[string]any{"cell": cell, "sent_entry": sentVia, "entry_at_backend": vs[1], "true_source": fmt.Sprintf("%s:%d", trueIP, truePort)})
		}
		if i%300 == 299 {
			net.Trim()
		}
	}
	run.Observe("requests_judged", okc)
	if okc < n/2 {
		run.Violation("observed-nothing", map[string]any{"judged": okc})
	}
	return run.Finish(int64(n) / 2)
}
