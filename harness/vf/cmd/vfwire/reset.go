package main

// Scenario "reset" (C20, wire part): peers that reset their TCP connection
// between messages - a TCP next hop, a TCP backend, a TCP client awaiting a
// response - and a next hop that refuses connections for a while. After a
// fault the next message must arrive exactly once on a fresh connection, later
// ones on that same connection, and a refusing destination must not disturb
// the proxy.

import (
	"fmt"
	"time"

	"vf/ev"
	"vf/sip"
	"vf/wire"
)

func scenarioReset() int {
	run := ev.New("C20", "fault_enumeration",
		"fault sequences against the real -race binary: {TCP next hop, TCP backend} x {reset of the cached connection between messages, destination refusing then listening again} and a TCP client whose connection is reset before the response is written (fallback to a fresh connection to its sent-by address); "+
			"oracle = exactly-once arrival per message id, connection identity (fresh connection after the fault, same connection afterwards, no further connection), sentinel still relayed; distinct = (target, fault, service configuration) cells")
	w, err := wire.NewWorld(*flagBin, *flagDir, wire.Opts{Services: 8, TCPBackend: true})
	if err != nil {
		fmt.Println("HARNESS-ERROR world:", err)
		return 2
	}
	defer w.Close()
	g := sip.NewGen(shardSeed(run.Seed))
	rounds := *flagCases
	if rounds == 0 {
		rounds = ev.Pick(150, 3000)
	}
	// a listener at every UA sent-by address for the response fallback
	cl := map[int]*wire.TCPListener{}
	for _, u := range w.UAs {
		l, err := w.Net.Listen(fmt.Sprintf("ua%d:5099/tcp-listener", u.Index), fmt.Sprintf("%s:5099", u.IP))
		if err != nil {
			fmt.Println("HARNESS-ERROR", err)
			return 2
		}
		cl[u.Index] = l
	}
	seq := 0
	next := func() string { seq++; return fmt.Sprintf("z%d", seq) }
	hopReq := func(svc int, hop *wire.Hop, id string) *wire.Obs {
		m := wire.StdRequest(id, "MESSAGE", "sip:x@foreign.example", "udp", w.UAs[0].IP, wire.UDPPort)
		wire.InsertBefore(m, "max-forwards", sip.Header{Name: "Route", Value: fmt.Sprintf("<sip:%s:%d;transport=tcp;lr>", hop.IP, wire.NextHopPortB)})
		p := wire.Path{UA: 0, Svc: svc, Proto: "udp"}
		w.Send(p, m.Bytes(), id)
		w.Net.WaitCase(id, func(o []*wire.Obs) bool { return len(o) >= 1 }, 500*time.Millisecond)
		w.Barrier(p)
		obs := w.Net.ForCase(id)
		if len(obs) == 1 {
			return obs[0]
		}
		if len(obs) > 1 {
			return &wire.Obs{Conn: -len(obs)}
		}
		return nil
	}
	okSteps := 0
	for r := 0; r < rounds && run.Violations() <= 6; r++ {
		if h := w.Health(); h != "" {
			run.Violation("proxy died during the run", map[string]any{"health": h})
			break
		}
		svc := g.R.Intn(len(w.Svcs))
		sv := w.Svcs[svc]
		switch r % 3 {
		case 0: // TCP next hop: reset, then refuse, then listen again
			hop := w.Hops[1+g.R.Intn(len(w.Hops)-1)]
			l := hop.TCP[wire.NextHopPortB]
			a := hopReq(svc, hop, next())
			if a == nil || a.Conn <= 0 {
				run.Violation("request to a healthy TCP next hop not delivered exactly once", map[string]any{"service": svc})
				continue
			}
			if c := l.ConnByID(a.Conn); c != nil {
				c.Close(true)
			}
			time.Sleep(5 * time.Millisecond)
			b := hopReq(svc, hop, next())
			if b == nil || b.Conn <= 0 {
				run.Violation("after the next hop reset its connection the following message was not delivered exactly once on a fresh connection", map[string]any{"service": svc, "hop": hop.IP, "delivered": b != nil})
				continue
			}
			if b.Conn == a.Conn {
				run.Violation("harness: reset connection still carries traffic", nil)
				continue
			}
			c := hopReq(svc, hop, next())
			if c == nil || c.Conn != b.Conn {
				run.Violation("later messages do not go straight to the working connection", map[string]any{"service": svc, "second": b.Conn, "third_arrived": c != nil})
				continue
			}
			okSteps += 3
			run.Eval(fmt.Sprintf("hop|reset|svc%d", svc))
		case 1: // TCP backend: reset the cached connection, next dispatch to it must arrive on a fresh one
			if len(sv.BeTCP) == 0 {
				continue
			}
			l := sv.BeTCP[0]
			nbe := len(sv.BeUDP) + len(sv.BeTCP)
			send := func() *wire.Obs {
				// rotate until the TCP backend is hit
				for k := 0; k < 2*nbe+1; k++ {
					id := next()
					m := wire.StdRequest(id, "OPTIONS", fmt.Sprintf("sip:svc%d.verif.test", svc), "udp", w.UAs[0].IP, wire.UDPPort)
					if sv.HasDef {
						wire.SetHeader(m, "To", "<tel:+15550133>")
					}
					p := wire.Path{UA: 0, Svc: svc, Proto: "udp"}
					w.Send(p, m.Bytes(), id)
					w.Net.WaitCase(id, func(o []*wire.Obs) bool { return len(o) >= 1 }, 500*time.Millisecond)
					w.Barrier(p)
					obs := w.Net.ForCase(id)
					if len(obs) != 1 {
						return &wire.Obs{Conn: -1 - len(obs)}
					}
					if obs[0].Ep == l.Name {
						return obs[0]
					}
				}
				return nil
			}
			a := send()
			if a == nil || a.Conn <= 0 {
				run.Violation("a dispatch towards the backends was not delivered exactly once", map[string]any{"service": svc, "code": a})
				continue
			}
			if c := l.ConnByID(a.Conn); c != nil {
				c.Close(true)
			}
			time.Sleep(5 * time.Millisecond)
			b := send()
			if b == nil || b.Conn <= 0 || b.Conn == a.Conn {
				run.Violation("after the TCP backend reset its connection a dispatch was lost or duplicated instead of being sent on a fresh connection", map[string]any{"service": svc, "result": fmt.Sprint(b)})
				continue
			}
			c := send()
			if c == nil || c.Conn != b.Conn {
				run.Violation("later dispatches to the TCP backend do not reuse the fresh connection", map[string]any{"service": svc})
				continue
			}
			okSteps += 3
			run.Eval(fmt.Sprintf("backend|reset|svc%d", svc))
		case 2: // TCP client resets before the response is written: fallback to its sent-by address
			u := w.UAs[g.R.Intn(len(w.UAs))]
			conn, err := w.Net.Dial(fmt.Sprintf("ua%d/reset", u.Index), u.IP+":0", fmt.Sprintf("%s:%d", sv.IP, sv.TCP))
			if err != nil {
				run.Inconclusive(1)
				continue
			}
			id := next()
			m := wire.StdRequest(id, "OPTIONS", fmt.Sprintf("sip:svc%d.verif.test", svc), "tcp", u.IP, 5099)
			if sv.HasDef {
				wire.SetHeader(m, "To", "<tel:+15550134>")
			}
			// half of the clients hang up in the same breath as they send (the proxy may see the end
			// of the connection before its loop has even looked at the request), the others reset
			// the connection once the request has reached the backend
			atOnce := g.R.Intn(2) == 0
			before := len(cl[u.Index].Conns())
			conn.Send(m.Bytes(), id)
			if atOnce {
				conn.Close(g.R.Intn(2) == 0)
			}
			obs, ok := w.Net.WaitCase(id, func(o []*wire.Obs) bool { return len(o) >= 1 }, w.BarrierWait)
			if !ok || obs[0].Msg == nil || !sv.BackendEndpointNames()[obs[0].Ep] {
				if atOnce && !ok {
					// a request whose connection is gone before it is looked at may be dropped; the proxy must live
					if h := w.Health(); h != "" {
						run.Violation("proxy died after a client sent a request and hung up at once", map[string]any{"health": h, "service": svc})
						break
					}
					if !w.Barrier(wire.Path{UA: 0, Svc: svc, Proto: "udp"}) {
						run.Violation("the proxy stopped relaying after a client sent a request and hung up at once", map[string]any{"service": svc})
					}
					run.Eval(fmt.Sprintf("client|hangup-at-once|dropped|svc%d", svc))
					continue
				}
				run.Inconclusive(1)
				conn.Close(false)
				continue
			}
			if !atOnce {
				conn.Close(true)
			}
			time.Sleep(5 * time.Millisecond)
			dw := &dialogWorld{World: w}
			rid := id + "x200"
			dw.respondFromBackend(svc, obs[0], id, 200, "t"+id)
			time.Sleep(20 * time.Millisecond)
			w.Net.Drain()
			var at []string
			n := 0
			for _, o := range w.Net.ForCase(rid) {
				at = append(at, fmt.Sprintf("%s conn#%d", o.Ep, o.Conn))
				if o.Ep == cl[u.Index].Name {
					n++
				}
			}
			after := len(cl[u.Index].Conns())
			// with stamping the fallback goes to received:rport (the dead ephemeral port): nothing to see;
			// on no-received listeners it goes to the sent-by address where the driver listens
			if sv.NoRecv {
				// (a connection the proxy already holds to that address from an earlier fallback
				// is as good as a new one: at most one new connection, exactly one delivery)
				if n != 1 || after-before > 1 {
					run.Violation("response for a client whose connection failed was not written exactly once on a fresh connection to its sent-by address", map[string]any{"service": svc, "seen_at": at, "new_connections": after - before})
					continue
				}
				okSteps++
				run.Eval(fmt.Sprintf("client|reset|norecv|at-once=%v|svc%d", atOnce, svc))
			} else {
				if len(at) > 1 {
					run.Violation("response for a client whose connection failed was delivered more than once", map[string]any{"service": svc, "seen_at": at})
					continue
				}
				run.Eval(fmt.Sprintf("client|reset|stamped|at-once=%v|svc%d", atOnce, svc))
			}
			// the proxy keeps serving
			if !w.Barrier(wire.Path{UA: 0, Svc: svc, Proto: "udp"}) {
				run.Violation("the proxy stopped relaying after a client connection failed", map[string]any{"service": svc})
			}
		}
		w.Net.Trim()
	}
	run.Observe("fault_steps_with_exactly_once_delivery", okSteps)
	run.Observe("barriers", w.Barriers)
	if okSteps < rounds/2 {
		run.Violation("observed-nothing", map[string]any{"ok_steps": okSteps})
	}
	run.Exhaustive(false)
	return run.Finish(int64(rounds) / 3)
}
