// vfwire runs the wire-engine scenarios: the real proxy binary in (normally) a
// private network namespace, driven over loopback sockets.
package main

import (
	"flag"
	"fmt"
	"os"
	"strconv"
)

var (
	flagBin   = flag.String("bin", "", "proxy binary under test")
	flagDir   = flag.String("dir", "", "scratch directory")
	flagProp  = flag.String("prop", "", "property id whose projection is judged")
	flagCases = flag.Int("cases", 0, "number of cases (0 = tier default)")
	flagShard = flag.Int("shard", 0, "shard number (varies the PRNG stream)")
)

func shardSeed(seed int64) int64 { return seed*1000 + int64(*flagShard) }

func envInt(k string, def int) int {
	if v, err := strconv.Atoi(os.Getenv(k)); err == nil {
		return v
	}
	return def
}

func main() {
	flag.Parse()
	if flag.NArg() < 1 || *flagBin == "" || *flagDir == "" {
		fmt.Println("usage: vfwire -bin <proxy> -dir <scratch> -prop <Cxx> <scenario>")
		os.Exit(2)
	}
	var code int
	switch flag.Arg(0) {
	case "route":
		code = scenarioRoute()
	case "relay":
		code = scenarioRelay()
	case "stamp":
		code = scenarioStamp()
	case "dialog":
		code = scenarioDialog()
	case "affinity":
		code = scenarioAffinity()
	case "hostile":
		code = scenarioHostile()
	case "stress":
		code = scenarioStress()
	case "twin":
		code = scenarioTwin()
	case "datagram":
		code = scenarioDatagram()
	case "segments":
		code = scenarioSegments()
	case "reset":
		code = scenarioReset()
	case "resolve":
		code = scenarioResolve()
	case "multilisten":
		code = scenarioMultiListen()
	case "multistamp":
		code = scenarioMultiStamp()
	case "pinfault":
		code = scenarioPinFault()
	case "concurrent":
		code = scenarioConcurrent()
	case "pintime":
		code = scenarioPinTime()
	default:
		fmt.Println("unknown scenario", flag.Arg(0))
		code = 2
	}
	os.Exit(code)
}
