package main

// Scenario "relay": generated requests and responses on the four relaying
// paths (to a backend, by Route, by static route, response by Via) x UDP/TCP
// ingress x UDP/TCP egress x 16 listener configurations. Judged for C01
// (transparency), C06 (own Via / Record-Route insertion) or C02 (responses
// follow the Via chain) depending on -prop; each judge reads only its own
// projection of the same executions.

import (
	"bytes"
	"fmt"
	"net"
	"os"
	"strconv"
	"strings"
	"time"

	"vf/ev"
	"vf/sip"
	"vf/wire"
)

type relayCase struct {
	id      string
	kind    string // backend | route | static | response
	path    wire.Path
	in      *sip.Msg
	sig     string
	hopHost string // host string the proxy routes by (as written)
	hopIP   string
	hopPort int
	egress  string // udp | tcp | "" (backend: any)
	expect  bool   // the model expects an output
	why     string // why not
	nobs    int
	// learned-state of hopHost at send time (C06)
	learnedBefore map[string]bool // transports ("UDP:5060") it was learned through by earlier messages
	learnedBySelf bool            // this very message teaches it
	learnedAlias  bool            // the same peer was learned under its other spelling only
	// respond (twin scenario): lets the backend that received the request answer
	respond func(w *wire.World, obs []*wire.Obs, svc int)
}

// learnModel mirrors what a service can have learned: host string -> listener transports.
type learnModel struct {
	bySvc []map[string]map[string]bool
}

func newLearnModel(n int) *learnModel {
	l := &learnModel{}
	for i := 0; i < n; i++ {
		l.bySvc = append(l.bySvc, map[string]map[string]bool{})
	}
	return l
}

func (l *learnModel) learn(svc int, host, transport string) {
	m := l.bySvc[svc]
	if m[host] == nil {
		m[host] = map[string]bool{}
	}
	m[host][transport] = true
}

func (l *learnModel) get(svc int, host string) map[string]bool {
	r := map[string]bool{}
	for k := range l.bySvc[svc][host] {
		r[k] = true
	}
	return r
}

// observeRequest records what a request sent from srcIP over proto teaches service svc.
func (l *learnModel) observeRequest(w *wire.World, svc int, proto, srcIP string, m *sip.Msg) {
	sv := w.Svcs[svc]
	tr := fmt.Sprintf("UDP:%d", sv.UDP)
	if proto == "tcp" {
		tr = fmt.Sprintf("TCP:%d", sv.TCP)
	}
	l.learn(svc, srcIP, tr)
	if vs, err := m.Vias(); err == nil {
		for _, v := range vs {
			l.learn(svc, v.Host, tr)
		}
	} else {
		// undecodable Via lines teach nothing for that line; decode line by line
		for _, line := range m.Get("via") {
			ok := true
			var hosts []string
			for _, e := range sip.SplitTop(line, ',') {
				v, err := sip.ParseVia(strings.Trim(e, " \t"))
				if err != nil {
					ok = false
					break
				}
				hosts = append(hosts, v.Host)
			}
			if ok {
				for _, h := range hosts {
					l.learn(svc, h, tr)
				}
			}
		}
	}
}

func scenarioRelay() int {
	prop := *flagProp
	rules := map[string]string{
		"C01": "oracle = input vs. output read by the harness's own reader: start line, sequence of all non-managed headers (name bytes, value modulo SP/HTAB), body bytes, exactly one Content-Length equal to the body bytes observed; distinct = (path, ingress, egress, content-shape) signatures that produced a relay",
		"C06": "oracle = learned-route model (which hosts a service has learned through which listener transport) + expected Via list [new]+incoming / incoming and Record-Route by policy; branch cookie and run-wide branch uniqueness; distinct = (path, learned-state, layout) signatures",
		"C02": "oracle = Via-pop model: relayed iff a further entry remains with a supported transport, to received/rport or sent-by (default 5060) over that transport, remaining entries byte-identical; distinct = (layout, transport, received/rport shape) signatures",
	}
	run := ev.New(prop, "exploration", "generated requests/responses on the four relaying paths x UDP/TCP ingress x UDP/TCP egress x 16 listener configurations, one case - one barrier; "+rules[prop])
	w, err := wire.NewWorld(*flagBin, *flagDir, wire.Opts{Services: 16, TCPBackend: true})
	if err != nil {
		fmt.Println("HARNESS-ERROR world:", err)
		return 2
	}
	defer w.Close()
	g := sip.NewGen(shardSeed(run.Seed))
	n := *flagCases
	if n == 0 {
		switch prop {
		case "C01":
			n = ev.Pick(2500, 30000)
		default:
			n = ev.Pick(3000, 40000)
		}
	}
	resent, unreachable, sameVia := 0, 0, 0
	learn := newLearnModel(len(w.Svcs))
	// the readiness barriers already taught every service the first UA
	for s := range w.Svcs {
		learn.learn(s, w.UAs[0].IP, fmt.Sprintf("UDP:%d", w.Svcs[s].UDP))
	}
	branches := map[string]string{}
	var cases []*relayCase
	oversize := 0
	relayed := map[string]int{}
	for i := 0; i < n; i++ {
		if h := w.Health(); h != "" {
			run.Violation("proxy died during the run (belongs to C08; the run cannot continue)", map[string]any{"health": h})
			break
		}
		if prop == "C02" && i%60 == 30 {
			// a response that cannot be relayed: it came in over TCP and is too big for the datagram it
			// would have to leave in. Not judged itself - but the responses that go to the same hop
			// afterwards are, like all the others.
			p := wire.Path{UA: g.R.Intn(len(w.UAs)), Svc: g.R.Intn(len(w.Svcs)), Proto: "tcp"}
			sv := w.Svcs[p.Svc]
			for _, h := range w.Hops {
				big := &sip.Msg{Start: "SIP/2.0 183 Session Progress"}
				big.Headers = []sip.Header{
					{Name: "Via", Value: fmt.Sprintf("SIP/2.0/UDP %s:%d;branch=z9hG4bKtopbig%d", sv.IP, sv.UDP, i)},
					{Name: "Via", Value: fmt.Sprintf("SIP/2.0/UDP %s:%d;branch=z9hG4bKbig%d", h.IP, wire.NextHopPortA, i)},
					{Name: "From", Value: "<sip:a@b>;tag=1"}, {Name: "To", Value: "<sip:c@d>;tag=2"},
					{Name: "Call-ID", Value: fmt.Sprintf("big%d@vf", i)}, {Name: "CSeq", Value: "1 INVITE"},
					{Name: "Content-Length", Value: "0"}}
				wire.WithBody(big, bytes.Repeat([]byte("v=0 "), 16500))
				w.Send(p, big.Bytes(), "")
			}
			if !w.Barrier(p) {
				w.DropConn(p)
			}
			oversize++
		}
		if prop == "C06" && i%25 == 12 {
			// requests whose next hop cannot be reached: the same peers the services have learned,
			// under a tcp port where nobody listens. Not judged themselves - what is relayed to those
			// peers afterwards is, like everything else: they are still learned.
			p := wire.Path{UA: g.R.Intn(len(w.UAs)), Svc: g.R.Intn(len(w.Svcs)), Proto: []string{"udp", "tcp"}[g.R.Intn(2)]}
			for _, h := range w.Hops {
				for _, host := range []string{h.IP, h.Name} {
					id := fmt.Sprintf("dead%d-%s", i, g.Alnum(3, 5))
					m := wire.StdRequest(id, "OPTIONS", "sip:x@foreign.example", p.Proto, w.UAs[p.UA].IP, wire.UDPPort)
					wire.InsertBefore(m, "from", sip.Header{Name: "Route", Value: fmt.Sprintf("<sip:%s:1;transport=tcp;lr>", host)}, sip.Header{Name: "Record-Route", Value: "<sip:edge.invalid;lr>"})
					learn.observeRequest(w, p.Svc, p.Proto, w.UAs[p.UA].IP, m)
					w.Send(p, m.Bytes(), id)
					unreachable++
				}
			}
			learn.learn(p.Svc, w.UAs[p.UA].IP, map[string]string{"udp": fmt.Sprintf("UDP:%d", w.Svcs[p.Svc].UDP), "tcp": fmt.Sprintf("TCP:%d", w.Svcs[p.Svc].TCP)}[p.Proto])
			if !w.Barrier(p) {
				w.DropConn(p)
			}
		}
		if prop == "C01" && i%20 == 19 {
			// pipelined: several messages written back-to-back on one connection (or from
			// one socket) before the proxy has relayed the first
			p := wire.Path{UA: g.R.Intn(len(w.UAs)), Svc: g.R.Intn(len(w.Svcs)), Proto: []string{"tcp", "tcp", "udp"}[g.R.Intn(3)]}
			forcedPath = &p
			var burst []*relayCase
			var all []byte
			brokenFirst := false
			switch {
			case p.Proto == "udp" && g.R.Intn(2) == 0:
				// a keep-alive datagram (CRLF CRLF, no message) right before the burst
				w.Send(p, []byte("\r\n\r\n"), "")
			case p.Proto == "tcp" && g.R.Intn(4) == 0:
				// the connection first carries something that is no SIP message (a header line without
				// colon, a body that does not end in a line break). Whatever the proxy does with the
				// connection after that - what it relays of the following messages must be their image
				brokenFirst = true
				all = append(all, []byte("MESSAGE sip:x@foreign.example SIP/2.0\r\nVia: SIP/2.0/TCP 192.0.2.7;branch=z9hG4bKbroken\r\nthis line has no colon\r\nContent-Length: 4\r\n\r\nabcd")...)
			}
			for k := 0; k < 3+g.R.Intn(8); k++ {
				bc := genRelayCase(w, g, i*100+k, prop)
				raw := bc.in.Bytes()
				if len(raw) > 20000 {
					continue
				}
				burst = append(burst, bc)
				if p.Proto == "tcp" {
					all = append(all, raw...)
				} else {
					w.Send(p, raw, bc.id)
				}
			}
			forcedPath = nil
			if p.Proto == "tcp" && len(all) > 0 {
				w.Send(p, all, "")
			}
			if brokenFirst {
				// (the connection may be closed under the burst: the sentinel takes a new one)
				time.Sleep(40 * time.Millisecond)
				w.DropConn(p)
			}
			if !w.Barrier(p) {
				run.Inconclusive(1)
				w.DropConn(p)
				continue
			}
			for _, bc := range burst {
				obs := w.Net.ForCase(bc.id)
				bc.nobs = len(obs)
				bc.sig = "pipelined," + bc.sig
				if judgeC01(run, w, bc, obs) && len(obs) == 1 {
					relayed["pipelined/"+p.Proto]++
				}
				if len(obs) > 0 {
					bc.in = nil
				}
				cases = append(cases, bc)
			}
			continue
		}
		c := genRelayCase(w, g, i, prop)
		ua := w.UAs[c.path.UA]
		if c.kind != "response" {
			if c.hopHost != "" {
				c.learnedBefore = learn.get(c.path.Svc, c.hopHost)
				// alias: the other spelling of the same peer
				for _, h := range w.Hops {
					other := ""
					if c.hopHost == h.IP {
						other = h.Name
					} else if c.hopHost == h.Name {
						other = h.IP
					}
					if other != "" && len(learn.get(c.path.Svc, other)) > 0 {
						c.learnedAlias = true
					}
				}
				if ua.IP == c.hopHost {
					c.learnedBySelf = true
				}
				if vs, err := c.in.Vias(); err == nil {
					for _, v := range vs {
						if v.Host == c.hopHost {
							c.learnedBySelf = true
						}
					}
				}
			}
			learn.observeRequest(w, c.path.Svc, c.path.Proto, ua.IP, c.in)
		}
		raw := c.in.Bytes()
		if err := w.Send(c.path, raw, c.id); err != nil {
			w.DropConn(c.path)
			run.Inconclusive(1)
			continue
		}
		if c.expect {
			// pacing only: the barrier below is what decides that processing has finished
			w.Net.WaitCase(c.id, func(o []*wire.Obs) bool { return len(o) >= 1 }, 300*time.Millisecond)
		}
		// the barrier is a request from the same UA: it teaches too
		learn.learn(c.path.Svc, ua.IP, map[string]string{"udp": fmt.Sprintf("UDP:%d", w.Svcs[c.path.Svc].UDP), "tcp": fmt.Sprintf("TCP:%d", w.Svcs[c.path.Svc].TCP)}[c.path.Proto])
		if !w.Barrier(c.path) {
			run.Inconclusive(1)
			w.DropConn(c.path)
			continue
		}
		obs := w.Net.ForCase(c.id)
		if len(obs) == 0 && c.expect {
			// expected but not there yet: the driver's readers may be behind on a loaded
			// machine - wait under the watchdog before the case is judged as not relayed
			w.Net.WaitCase(c.id, func(o []*wire.Obs) bool { return len(o) >= 1 }, w.BarrierWait)
			obs = w.Net.ForCase(c.id)
		}
		c.nobs = len(obs)
		if len(obs) == 0 && c.expect {
			run.Count("expected_relay_not_seen", 1)
			if os.Getenv("VF_DEBUG") != "" {
				fmt.Fprintf(os.Stderr, "DEBUG not relayed: %s %s %s>%s len=%d sig=%s start=%q\n", c.id, c.kind, c.path.Proto, c.egress, len(raw), c.sig, c.in.Start)
			}
		}
		ok := judgeRelay(run, w, prop, c, obs, branches)
		if ok && len(obs) == 1 {
			relayed[c.kind+"/"+c.path.Proto+">"+obs[0].Proto]++
		}
		if ((prop == "C02" && c.kind == "response") || (prop != "C02" && c.kind != "response")) && ok && len(obs) == 1 && i%3 == 0 {
			// the same message once more, byte for byte (a retransmission; the next answer of a
			// transaction repeats the Via lines of the previous one): it is relayed the same way again
			if c.hopHost != "" {
				c.learnedBefore = learn.get(c.path.Svc, c.hopHost)
			}
			w.Net.Forget(c.id)
			copies := 1
			if c.path.Proto == "udp" && i%2 == 0 {
				copies = 2 // two retransmissions back to back, nothing in between
			}
			sentOK := true
			for k := 0; k < copies; k++ {
				sentOK = sentOK && w.Send(c.path, raw, c.id) == nil
			}
			if sentOK && w.Barrier(c.path) {
				obs2 := w.Net.ForCase(c.id)
				if len(obs2) < copies {
					w.Net.WaitCase(c.id, func(o []*wire.Obs) bool { return len(o) >= copies }, w.BarrierWait)
					obs2 = w.Net.ForCase(c.id)
				}
				c2 := *c
				c2.sig = "sent-again," + c.sig
				if len(obs2) != copies {
					d := relayDetail(&c2, obs2, "")
					d["copies_sent_back_to_back"] = copies
					d["relayed"] = len(obs2)
					run.Violation("retransmissions of a message are not relayed one for one", d)
				} else {
					for _, o := range obs2 {
						if !judgeRelay(run, w, prop, &c2, []*wire.Obs{o}, branches) {
							break
						}
					}
				}
				c.nobs = len(obs2)
				resent += copies
			}
		}
		if prop == "C01" && c.kind == "backend" && ok && len(obs) == 1 && i%5 == 1 && len(raw) < 30000 {
			// another request that reuses the Via of this one (method, sent-by and branch the same -
			// a restarted branch counter, a request sent again with credentials on the old branch):
			// what is relayed for it is its own image, not the earlier request's
			c2 := *c
			c2.id = c.id + "n"
			m2 := c.in.Clone()
			wire.SetHeader(m2, "X-Vf", c2.id)
			wire.SetHeader(m2, "Call-ID", c2.id+"@vf")
			wire.InsertBefore(m2, "content-length", sip.Header{Name: "Authorization", Value: "Digest username=\"u\", nonce=\"" + g.Alnum(8, 16) + "\""})
			for k, h := range m2.Headers {
				if sip.Canon(h.Name) == "cseq" {
					if f := strings.Fields(h.Value); len(f) == 2 {
						m2.Headers[k].Value = "4711 " + f[1]
					}
				}
			}
			body2 := []byte("second request on the branch " + c2.id)
			m2.Body = body2
			for k, h := range m2.Headers {
				if sip.Canon(h.Name) == "content-length" {
					m2.Headers[k].Value = fmt.Sprint(len(body2))
				}
			}
			c2.in = m2
			c2.sig = "same-via-as-an-earlier-request," + c.sig
			if w.Send(c2.path, m2.Bytes(), c2.id) == nil && w.Barrier(c2.path) {
				obs2 := w.Net.ForCase(c2.id)
				if len(obs2) == 0 {
					w.Net.WaitCase(c2.id, func(o []*wire.Obs) bool { return len(o) >= 1 }, w.BarrierWait)
					obs2 = w.Net.ForCase(c2.id)
				}
				c2.nobs = len(obs2)
				if len(obs2) == 0 {
					d := relayDetail(&c2, w.Net.ForCase(c.id), "")
					d["earlier_request_with_the_same_via"] = c.id
					d["copies_of_the_earlier_request_seen_now"] = len(w.Net.ForCase(c.id))
					run.Violation("a request that shares method, sent-by and branch with an earlier one was not relayed as itself", d)
				} else {
					judgeRelay(run, w, prop, &c2, obs2, branches)
				}
				sameVia++
				cc := c2
				cc.in = nil
				cases = append(cases, &cc)
			}
		}
		if run.WantSample() && i > 30 && len(obs) == 1 && len(raw) < 1500 {
			run.Sample(map[string]any{"kind": c.kind, "ingress": c.path.Proto, "service": c.path.Svc, "input": string(raw), "output": string(obs[0].Raw), "observed_at": obs[0].Ep})
		}
		if len(obs) > 0 {
			c.in = nil
		}
		cases = append(cases, c)
		if i%300 == 299 {
			w.Net.Trim()
			w.Net.TrimEgress()
		}
		if run.Violations() > 10 {
			break
		}
	}
	w.Net.Drain()
	for _, c := range cases {
		if all := w.Net.ForCase(c.id); len(all) != c.nobs {
			// output that turned up after its case had been judged (deferred delivery):
			// judged now with everything that arrived
			run.Count("late_outputs", 1)
			if c.in != nil {
				judgeRelay(run, w, prop, c, all, branches)
			} else {
				run.Violation("further output arrived after the case had been judged", map[string]any{"case": c.id, "kind": c.kind, "judged_with": c.nobs, "final": len(all)})
			}
		}
	}
	run.Observe("oversize_responses_sent_in_between", oversize)
	run.Observe("messages_sent_a_second_time_byte_for_byte", resent)
	run.Observe("requests_that_share_method_sent_by_and_branch_with_an_earlier_one", sameVia)
	run.Observe("egress_monitor_running", w.Net.Sniffing())
	run.Observe("responses_whose_every_packet_on_the_loopback_device_was_checked", egressJudged)
	run.Observe("packets_seen_by_the_egress_monitor", w.Net.SnifferPackets())
	run.Observe("requests_routed_to_learned_peers_under_a_port_that_refuses", unreachable)
	run.Observe("relays_per_path", relayed)
	run.Observe("barriers", w.Barriers)
	run.Observe("barrier_timeouts", w.BarrierMisses)
	run.Observe("udp_kernel_drops", wire.UDPDrops())
	run.Observe("distinct_proxy_branches", len(branches))
	// a path on which (almost) nothing was relayed means the run observed nothing
	need := []string{"backend/udp>udp", "route/udp>udp", "static/udp>udp", "route/tcp>tcp", "backend/tcp>udp"}
	if prop == "C02" {
		need = []string{"response/udp>udp", "response/tcp>udp", "response/udp>tcp", "response/tcp>tcp"}
	}
	min := 30
	if n < 2000 {
		min = n / 80
	}
	for _, k := range need {
		if relayed[k] < min && run.Violations() == 0 {
			run.Violation("observed-nothing", map[string]any{"path": k, "relays": relayed[k], "required": min, "all": relayed})
		}
	}
	return run.Finish(int64(n) / 2)
}

func relayDetail(c *relayCase, obs []*wire.Obs, why string) map[string]any {
	d := map[string]any{"why": why, "kind": c.kind, "ingress": c.path.Proto, "service": c.path.Svc, "signature": c.sig}
	if c.in != nil {
		b := c.in.Bytes()
		if len(b) > 3000 {
			b = append(b[:3000], []byte(fmt.Sprintf("...(%d bytes)", len(b)))...)
		}
		d["input"] = string(b)
	}
	var where []string
	for _, o := range obs {
		where = append(where, fmt.Sprintf("%s %s", o.Ep, o.Local))
	}
	d["observed_at"] = where
	if len(obs) > 0 {
		b := obs[0].Raw
		if len(b) > 3000 {
			b = append(append([]byte{}, b[:3000]...), []byte(fmt.Sprintf("...(%d bytes)", len(obs[0].Raw)))...)
		}
		d["output"] = string(b)
	}
	return d
}

func judgeRelay(run *ev.Run, w *wire.World, prop string, c *relayCase, obs []*wire.Obs, branches map[string]string) bool {
	switch prop {
	case "C02":
		return judgeC02(run, w, c, obs)
	case "C06":
		return judgeC06(run, w, c, obs, branches)
	default:
		return judgeC01(run, w, c, obs)
	}
}

func managed(name string) bool {
	switch sip.Canon(name) {
	case "via", "route", "record-route", "content-length":
		return true
	}
	return false
}

func judgeC01(run *ev.Run, w *wire.World, c *relayCase, obs []*wire.Obs) bool {
	if len(obs) == 0 {
		// not relayed: no observation for C01 (dropping is another property's business)
		run.Eval("")
		return true
	}
	for _, o := range obs {
		out := o.Msg
		if out == nil {
			run.Violation("relayed bytes are not a readable SIP message", relayDetail(c, obs, "unreadable output"))
			return false
		}
		in := c.in
		if out.Start != in.Start {
			why := fmt.Sprintf("start line changed: %q -> %q", in.Start, out.Start)
			run.Violation("start line changed", relayDetail(c, obs, why))
			return false
		}
		var a, b []sip.Header
		for _, h := range in.Headers {
			if !managed(h.Name) {
				a = append(a, h)
			}
		}
		ncl := 0
		clv := ""
		for _, h := range out.Headers {
			if sip.Canon(h.Name) == "content-length" {
				ncl++
				clv = h.Value
			}
			if !managed(h.Name) {
				b = append(b, h)
			}
		}
		if len(a) != len(b) {
			why := fmt.Sprintf("%d non-managed header fields in, %d out", len(a), len(b))
			run.Violation("header fields added or dropped", relayDetail(c, obs, why))
			return false
		}
		for i := range a {
			if a[i].Name != b[i].Name {
				why := fmt.Sprintf("header %d: name %q -> %q (reordered, renamed or replaced)", i, a[i].Name, b[i].Name)
				run.Violation("header name changed or order changed", relayDetail(c, obs, why))
				return false
			}
			if a[i].Value != b[i].Value {
				why := fmt.Sprintf("header %q: value changed (first difference at byte %d of %d): %q -> %q", a[i].Name, firstDiff(a[i].Value, b[i].Value), len(a[i].Value), clip(a[i].Value, 120), clip(b[i].Value, 120))
				run.Violation("header value changed", relayDetail(c, obs, why))
				return false
			}
		}
		// declared body of the input
		inCL, _ := strconv.Atoi(firstCL(in))
		wantBody := in.Body
		if inCL < len(wantBody) {
			wantBody = wantBody[:inCL]
		}
		if !bytes.Equal(out.Body, wantBody) {
			why := fmt.Sprintf("body changed: %d bytes in, %d bytes out, first difference at %d", len(wantBody), len(out.Body), firstDiff(string(wantBody), string(out.Body)))
			run.Violation("body changed", relayDetail(c, obs, why))
			return false
		}
		if ncl != 1 {
			why := fmt.Sprintf("%d Content-Length fields in the relayed message", ncl)
			run.Violation("not exactly one Content-Length field", relayDetail(c, obs, why))
			return false
		}
		if v, err := strconv.Atoi(clv); err != nil || v != len(out.Body) {
			why := fmt.Sprintf("Content-Length %q but %d body bytes sent", clv, len(out.Body))
			run.Violation("Content-Length differs from the body bytes sent", relayDetail(c, obs, why))
			return false
		}
	}
	run.Eval(c.kind + "|" + c.path.Proto + ">" + obs[0].Proto + "|" + c.sig)
	return true
}

func firstCL(m *sip.Msg) string {
	v, _ := m.First("content-length")
	return v
}

func firstDiff(a, b string) int {
	n := len(a)
	if len(b) < n {
		n = len(b)
	}
	for i := 0; i < n; i++ {
		if a[i] != b[i] {
			return i
		}
	}
	return n
}

func clip(s string, n int) string {
	if len(s) > n {
		return s[:n] + "..."
	}
	return s
}

// stripStamp removes received and the value of rport from a Via entry text
// (the C07 stamping is not C06's or C02's business).
func stripStamp(e string) string {
	parts := strings.Split(e, ";")
	out := parts[:1]
	for _, p := range parts[1:] {
		if strings.HasPrefix(p, "received=") {
			continue
		}
		if strings.HasPrefix(p, "rport") && (len(p) == 5 || p[5] == '=') {
			out = append(out, "rport")
			continue
		}
		out = append(out, p)
	}
	return strings.Join(out, ";")
}

func judgeC06(run *ev.Run, w *wire.World, c *relayCase, obs []*wire.Obs, branches map[string]string) bool {
	if c.kind == "response" || len(obs) != 1 || obs[0].Msg == nil {
		run.Eval("")
		return true
	}
	sv := w.Svcs[c.path.Svc]
	out := obs[0].Msg
	inV, outV := c.in.List("via"), out.List("via")
	inRR, outRR := c.in.List("record-route"), out.List("record-route")
	// learned state
	state := ""
	mustInsert, mayInsert := false, false
	switch {
	case c.kind == "backend":
		state, mustInsert = "backend", true
	case len(c.learnedBefore) > 0:
		state, mustInsert = "learned", true
	case c.learnedBySelf:
		state, mayInsert = "learned-by-this-message", true
	case c.learnedAlias:
		state, mayInsert = "learned-under-other-spelling", true
	default:
		state = "not-learned"
	}
	inserted := len(outV) == len(inV)+1
	fail := func(key, why string) bool {
		d := relayDetail(c, obs, why)
		d["learned_state"] = state
		d["via_in"], d["via_out"] = inV, outV
		d["record_route_in"], d["record_route_out"] = inRR, outRR
		run.Violation(key, d)
		return false
	}
	if !inserted && len(outV) != len(inV) {
		return fail("Via list has the wrong length", fmt.Sprintf("%d Via entries in, %d out", len(inV), len(outV)))
	}
	if mustInsert && !inserted {
		return fail("no own Via pushed although the path requires one", "state "+state)
	}
	if !mustInsert && !mayInsert && inserted {
		return fail("own Via pushed although the next hop was not learned", "state "+state)
	}
	rest := outV
	viaPort := 0
	if inserted {
		rest = outV[1:]
		nv, err := sip.ParseVia(outV[0])
		if err != nil {
			return fail("inserted Via is undecodable", err.Error())
		}
		tr := strings.ToUpper(nv.Transport)
		viaPort = nv.PortOr(0)
		okTr := (tr == "UDP" && viaPort == sv.UDP) || (tr == "TCP" && viaPort == sv.TCP)
		if nv.Proto != "SIP/2.0/"+nv.Transport || nv.Host != sv.IP || !okTr {
			return fail("inserted Via does not name a transport of the receiving listener", outV[0])
		}
		if c.kind != "backend" && len(c.learnedBefore) > 0 && !mayInsert {
			key := fmt.Sprintf("%s:%d", tr, viaPort)
			if !c.learnedBefore[key] && !c.learnedBySelf {
				return fail("inserted Via names a transport through which the hop was never learned", fmt.Sprintf("%s not in %v", key, c.learnedBefore))
			}
		}
		br, ok := nv.Param("branch")
		if !ok || !strings.HasPrefix(br.V, "z9hG4bK") || len(br.V) <= len("z9hG4bK") {
			return fail("inserted Via has no RFC 3261 branch", outV[0])
		}
		if prev, dup := branches[br.V]; dup {
			return fail("branch of the inserted Via was used before", "also used in case "+prev)
		}
		branches[br.V] = c.id
	}
	if len(rest) != len(inV) {
		return fail("Via list has the wrong length", "")
	}
	for i := range inV {
		a, b := inV[i], rest[i]
		if i == 0 {
			a, b = stripStamp(a), stripStamp(b)
		}
		if a != b {
			return fail("an existing Via entry was changed or reordered", fmt.Sprintf("entry %d: %q -> %q", i, inV[i], rest[i]))
		}
	}
	// Record-Route policy
	wantRR := inserted && (len(inRR) > 0 || sv.MustRR)
	if wantRR {
		if len(outRR) != len(inRR)+1 {
			return fail("Record-Route entry not added although policy requires it", fmt.Sprintf("must-record-route=%v existing=%d", sv.MustRR, len(inRR)))
		}
		want := fmt.Sprintf("<sip:%s:%d;lr>", sv.IP, viaPort)
		if outRR[0] != want {
			return fail("added Record-Route entry is not <sip:listener-address:port;lr>", fmt.Sprintf("got %q want %q", outRR[0], want))
		}
		outRR = outRR[1:]
	}
	if strings.Join(outRR, "\x00") != strings.Join(inRR, "\x00") {
		return fail("Record-Route list changed", fmt.Sprintf("inserted=%v must-record-route=%v", inserted, sv.MustRR))
	}
	run.Eval(fmt.Sprintf("%s|%s|%s|rr%d|mrr%v|ins%v|%s", c.kind, c.path.Proto, state, vfMin(len(inRR), 2), sv.MustRR, inserted, c.sig))
	return true
}

func vfMin(a, b int) int {
	if a < b {
		return a
	}
	return b
}

// viaPopModel: where must a response with these flattened Via entries go?
func viaPopModel(w *wire.World, sv *wire.Svc, lines []string) (relay bool, proto, ip string, port int, rest []string, why string) {
	// decode line by line exactly as far as needed: the first line must decode to pop
	var flat []string
	for _, l := range lines {
		for _, e := range sip.SplitTop(l, ',') {
			flat = append(flat, strings.Trim(e, " \t"))
		}
	}
	if len(flat) == 0 {
		return false, "", "", 0, nil, "no Via"
	}
	// the popped entry's header line must be decodable
	for _, e := range sip.SplitTop(lines[0], ',') {
		if !viaDecodable(strings.Trim(e, " \t")) {
			return false, "", "", 0, nil, "topmost Via line undecodable"
		}
	}
	if len(flat) < 2 {
		return false, "", "", 0, nil, "no Via entry remains"
	}
	// the line holding the next entry must be decodable too
	nextLine := lines[0]
	if len(sip.SplitTop(lines[0], ',')) == 1 {
		nextLine = lines[1]
	}
	for _, e := range sip.SplitTop(nextLine, ',') {
		if !viaDecodable(strings.Trim(e, " \t")) {
			return false, "", "", 0, nil, "next Via line undecodable"
		}
	}
	v, err := sip.ParseVia(flat[1])
	if err != nil {
		return false, "", "", 0, nil, "next Via undecodable"
	}
	tr := strings.ToLower(v.Transport)
	if tr != "udp" && tr != "tcp" {
		return false, "", "", 0, nil, "transport " + v.Transport + " unsupported"
	}
	host := v.Host
	port = v.PortOr(5060)
	if v.Transport == "TLS" && v.Port == "" {
		port = 5061
	}
	if r, ok := v.Param("received"); ok {
		host = r.V
		if rp, ok := v.Param("rport"); ok && rp.HasVal {
			if n, err := strconv.Atoi(rp.V); err == nil {
				port = n
			}
		}
	}
	ipaddr := host
	if x, ok := w.Cfg.Lookup(sv.Service, host); ok {
		ipaddr = x
	}
	return true, tr, ipaddr, port, flat[1:], ""
}

func viaDecodable(e string) bool {
	v, err := sip.ParseVia(e)
	if err != nil {
		return false
	}
	if strings.Count(strings.Fields(strings.Split(e, ";")[0])[1], ":") > 1 {
		return false
	}
	if v.Port != "" {
		if _, err := strconv.Atoi(v.Port); err != nil {
			return false
		}
	}
	return true
}

// judgeC02 = what the driver's sockets saw + what the egress monitor saw leave the proxy.
func judgeC02(run *ev.Run, w *wire.World, c *relayCase, obs []*wire.Obs) bool {
	ok := judgeC02Sockets(run, w, c, obs)
	if !ok || c.kind != "response" || !w.EgressReady {
		return ok
	}
	sv := w.Svcs[c.path.Svc]
	relay, proto, ip, port, _, why := viaPopModel(w, sv, c.in.Get("via"))
	if relay && net.ParseIP(ip) == nil {
		return ok // a name nobody can resolve: nothing to compare a packet with
	}
	egressJudged++
	var stray []string
	for _, e := range w.Net.EgressForCase(c.id) {
		if e.Req || !w.FromProxy(e) || w.ToProxy(e) {
			continue
		}
		if !relay || e.Proto != proto || e.Dst != fmt.Sprintf("%s:%d", ip, port) {
			stray = append(stray, fmt.Sprintf("%s %s -> %s (%d bytes)", e.Proto, e.Src, e.Dst, e.Len))
		}
	}
	if len(stray) > 0 {
		d := relayDetail(c, obs, "")
		d["model"] = map[string]any{"relay": relay, "proto": proto, "ip": ip, "port": port, "why_not": why}
		d["stray_packets"] = stray
		run.Violation("the proxy sent the response somewhere else than the Via chain says (seen by the egress monitor on the loopback device)", d)
		return false
	}
	return ok
}

var egressJudged int

func judgeC02Sockets(run *ev.Run, w *wire.World, c *relayCase, obs []*wire.Obs) bool {
	if c.kind != "response" {
		run.Eval("")
		return true
	}
	sv := w.Svcs[c.path.Svc]
	relay, proto, ip, port, rest, why := viaPopModel(w, sv, c.in.Get("via"))
	if relay && !w.Observable(proto, ip, port) {
		relay, why = false, fmt.Sprintf("destination %s %s:%d not observable", proto, ip, port)
	}
	fail := func(key, reason string) bool {
		d := relayDetail(c, obs, reason)
		d["model"] = map[string]any{"relay": relay, "proto": proto, "ip": ip, "port": port, "why_not": why, "remaining_via": rest}
		run.Violation(key, d)
		return false
	}
	if !relay {
		if len(obs) > 0 {
			return fail("response relayed although the model sends it nowhere", why)
		}
		run.Eval("drop|" + why + "|" + c.sig)
		return true
	}
	if len(obs) == 0 {
		return fail("response not relayed although a further Via entry remains", "")
	}
	if len(obs) > 1 {
		return fail("response relayed more than once", "")
	}
	o := obs[0]
	if o.Proto != proto || o.Local != fmt.Sprintf("%s:%d", ip, port) {
		return fail("response relayed to the wrong socket", fmt.Sprintf("arrived at %s %s", o.Proto, o.Local))
	}
	if o.Msg == nil {
		return fail("relayed response unreadable", "")
	}
	got := o.Msg.List("via")
	if strings.Join(got, "\x00") != strings.Join(rest, "\x00") {
		return fail("remaining Via entries changed", fmt.Sprintf("want %q got %q", rest, got))
	}
	run.Eval("relay|" + c.path.Proto + ">" + proto + "|" + c.sig)
	return true
}

// ---------------------------------------------------------------- generation

func genViaEntry(g *sip.Gen, host string, port int, transport string, branch string, extra bool) string {
	v := sip.Via{Proto: "SIP/2.0/" + transport, Transport: transport, Host: host}
	if port > 0 {
		v.Port = fmt.Sprint(port)
	}
	if branch != "" {
		v.Params = append(v.Params, sip.KV{K: "branch", V: branch, HasVal: true})
	}
	if extra {
		for k := g.R.Intn(3); k > 0; k-- {
			if g.R.Intn(2) == 0 {
				v.Params = append(v.Params, sip.KV{K: "x" + g.Alnum(1, 5), V: g.Alnum(1, 8), HasVal: true})
			} else {
				v.Params = append(v.Params, sip.KV{K: "f" + g.Alnum(1, 5)})
			}
		}
		g.R.Shuffle(len(v.Params), func(i, j int) { v.Params[i], v.Params[j] = v.Params[j], v.Params[i] })
	}
	return v.String()
}

// forcedPath, when set, pins the ingress path of the next generated cases (bursts).
var forcedPath *wire.Path

func genRelayCase(w *wire.World, g *sip.Gen, i int, prop string) *relayCase {
	c := &relayCase{id: fmt.Sprintf("m%d", i)}
	sidx := g.R.Intn(len(w.Svcs))
	if prop == "C06" && g.R.Intn(2) == 0 {
		// half of the history goes through two services, so that their learned-route
		// tables see thousands of distinct hosts in one run
		sidx = g.R.Intn(2)
	}
	if forcedPath != nil {
		sidx = forcedPath.Svc
		c.id = fmt.Sprintf("q%d", i) // burst cases have their own id space
	}
	sv := w.Svcs[sidx]
	c.path = wire.Path{UA: g.R.Intn(len(w.UAs)), Svc: sidx, Proto: []string{"udp", "tcp"}[g.R.Intn(2)]}
	if forcedPath != nil {
		c.path = *forcedPath
	}
	ua := w.UAs[c.path.UA]
	kinds := []string{"backend", "route", "static", "response"}
	switch prop {
	case "C02":
		c.kind = "response"
	case "C06":
		c.kind = kinds[g.R.Intn(3)]
	default:
		c.kind = kinds[g.R.Intn(4)]
	}
	var sig []string
	hop := w.Hops[g.R.Intn(len(w.Hops))]
	hopPort := []int{wire.NextHopPortA, wire.NextHopPortB}[g.R.Intn(2)]
	c.egress = []string{"udp", "tcp"}[g.R.Intn(2)]
	c.expect = true
	var m *sip.Msg
	if c.kind == "response" {
		m = &sip.Msg{Start: fmt.Sprintf("SIP/2.0 %d %s", 100+g.R.Intn(600), g.Reason())}
		sig = append(sig, fmt.Sprintf("%dxx", m.Status()/100))
		// Via chain
		var entries []string
		top := genViaEntry(g, sv.IP, sv.UDP, "UDP", "z9hG4bKtop"+g.Alnum(4, 8), g.R.Intn(2) == 0)
		if g.R.Intn(6) == 0 {
			top = genViaEntry(g, g.Hostname(), 0, "TCP", "z9hG4bKforeign", false) // the top entry need not be the proxy's
			sig = append(sig, "foreign-top")
		}
		entries = append(entries, top)
		nextra := 0
		shape := g.R.Intn(20)
		if prop != "C02" {
			shape = 5 + g.R.Intn(15)
		}
		switch {
		case shape == 0:
			sig = append(sig, "single-via")
			c.expect, c.why = false, "no entry remains"
		case shape <= 2:
			tr := []string{"TLS", "SCTP", "tls", "WS", "DTLS"}[g.R.Intn(5)]
			entries = append(entries, genViaEntry(g, hop.IP, hopPort, tr, "z9hG4bKvf"+c.id, true))
			sig = append(sig, "unsupported:"+strings.ToUpper(tr))
			c.expect = false
		case shape == 3:
			bad := []string{"SIP/2.0/UDP", "SIP/2.0 " + hop.IP, "SIP/2.0/UDP " + hop.IP + ":abc;branch=z9hG4bKvf" + c.id, "SIP/2.0/UDP " + hop.IP + ":1:2", "garbage"}[g.R.Intn(5)]
			entries = append(entries, bad)
			sig = append(sig, "undecodable-next")
			c.expect = false
		default:
			host := hop.IP
			hs := "ip"
			if g.R.Intn(3) == 0 {
				host, hs = hop.Name, "name"
			}
			if g.R.Intn(8) == 0 {
				// a name that every service defines in its own host table, each with another address
				host, hs = wire.PeerName, "service-defined-name"
			}
			port := hopPort
			if port == 5060 && g.R.Intn(2) == 0 {
				port = 0
				hs += "-noport"
			}
			tr := c.egress
			if g.R.Intn(2) == 0 {
				tr = strings.ToUpper(tr)
			}
			e := genViaEntry(g, host, port, tr, "z9hG4bKvf"+c.id, true)
			// received / rport variants
			switch g.R.Intn(8) {
			case 0:
				// received redirects to another hop address, rport to its other port
				o := w.Hops[g.R.Intn(len(w.Hops))]
				e = genViaEntry(g, g.Hostname()+".invalid", 0, tr, "z9hG4bKvf"+c.id, false) + ";received=" + o.IP + fmt.Sprintf(";rport=%d", hopPort)
				sig = append(sig, "received+rport")
			case 1:
				o := w.Hops[g.R.Intn(len(w.Hops))]
				e = genViaEntry(g, "203.0.113.9", hopPort, tr, "z9hG4bKvf"+c.id, false) + ";rport;received=" + o.IP
				sig = append(sig, "received+valueless-rport")
			case 2:
				e += fmt.Sprintf(";rport=%d", 4000+g.R.Intn(1000)) // rport without received: ignored
				sig = append(sig, "rport-without-received")
			case 3:
				e += ";rport"
				sig = append(sig, "valueless-rport-alone")
			case 4:
				o := w.Hops[g.R.Intn(len(w.Hops))]
				e = genViaEntry(g, "198.51.100.7", hopPort, tr, "z9hG4bKvf"+c.id, true) + ";received=" + o.IP
				sig = append(sig, "received-only")
			}
			entries = append(entries, e)
			sig = append(sig, "next:"+hs+"/"+c.egress)
			nextra = g.R.Intn(5)
		}
		for k := 0; k < nextra; k++ {
			ve, _ := g.GenVia(true)
			entries = append(entries, ve.String())
		}
		values, lay := g.JoinList(entries)
		sig = append(sig, "lay:"+lay, fmt.Sprintf("n%d", len(entries)))
		name := []string{"Via", "v", "VIA", "V", "via"}[g.R.Intn(5)]
		for _, v := range values {
			if g.R.Intn(3) == 0 {
				name = []string{"Via", "v", "VIA", "V", "via"}[g.R.Intn(5)]
			}
			m.Headers = append(m.Headers, sip.Header{Name: name, Value: v})
		}
		m.Headers = append(m.Headers,
			sip.Header{Name: "From", Value: "<sip:alice@ua.verif.test>;tag=f" + c.id},
			sip.Header{Name: "To", Value: "<sip:bob@example.com>;tag=t" + c.id},
			sip.Header{Name: "Call-ID", Value: c.id + "@vf"},
			sip.Header{Name: "CSeq", Value: fmt.Sprintf("%d %s", 1+g.R.Intn(1000), g.Method())},
			sip.Header{Name: "X-Vf", Value: c.id},
			sip.Header{Name: "Content-Length", Value: "0"})
	} else {
		ruri := "sip:" + g.Alnum(1, 6) + "@foreign.example"
		to := "<sip:carol@nomatch.example>"
		switch c.kind {
		case "backend":
			ruri = []string{fmt.Sprintf("sip:svc%d.verif.test", sidx), fmt.Sprintf("sip:bob@users%d.verif.test", sidx), fmt.Sprintf("urn:service:sos.s%d", sidx), fmt.Sprintf("tel:+99%d555", sidx), fmt.Sprintf("sip:%s@svc%d.verif.test;user=phone;ob", g.Alnum(1, 5), sidx)}[g.R.Intn(5)]
			if sv.HasDef {
				to = "<tel:+15550199>" // a SIP To would hit the default static route first
			}
			// the Request-URI may also designate the receiving listener's own address, with or
			// without the (default) port
			myPort := sv.UDP
			if c.path.Proto == "tcp" {
				myPort = sv.TCP
			}
			if g.R.Intn(5) == 0 {
				if myPort == 5060 && g.R.Intn(2) == 0 {
					ruri = fmt.Sprintf("sip:%s@%s", g.Alnum(1, 6), sv.IP)
				} else {
					ruri = fmt.Sprintf("sip:%s@%s:%d", g.Alnum(1, 6), sv.IP, myPort)
				}
				sig = append(sig, "ruri:listener-address")
			}
		case "static":
			switch g.R.Intn(4) {
			case 0:
				to = "<sip:dave@exact.verif.test>"
				c.hopHost, c.hopIP, c.hopPort, c.egress = w.Hops[0].IP, w.Hops[0].IP, wire.NextHopPortA, "udp"
			case 1:
				to = "<sip:tcpx.verif.test>"
				c.hopHost, c.hopIP, c.hopPort, c.egress = w.Hops[1].Name, w.Hops[1].IP, wire.NextHopPortB, "tcp"
			case 2:
				to = fmt.Sprintf("\"W\" <sip:erin@%s.wild.verif.test:5090;x=1>", g.Alnum(1, 5))
				c.hopHost, c.hopIP, c.hopPort, c.egress = w.Hops[0].Name, w.Hops[0].IP, 5060, "udp"
			default:
				to = fmt.Sprintf("<sip:%s.wtcp.verif.test>", g.Alnum(1, 5))
				c.hopHost, c.hopIP, c.hopPort, c.egress = w.Hops[1].IP, w.Hops[1].IP, 5060, "tcp"
			}
			sig = append(sig, "static:"+c.egress)
		}
		method := g.Method()
		m = &sip.Msg{Start: method + " " + ruri + " SIP/2.0"}
		// Via stack: the sender's own entry (sent-by need not be the true source) + 0-5 more
		var entries []string
		nv := 1 + g.R.Intn(3)
		if prop == "C06" {
			nv = g.R.Intn(7)
		}
		for k := 0; k < nv; k++ {
			if k == 0 {
				e := genViaEntry(g, ua.IP, wire.UDPPort, strings.ToUpper(c.path.Proto), "z9hG4bKvf"+c.id, g.R.Intn(2) == 0)
				if g.R.Intn(4) == 0 {
					e += ";rport"
				}
				entries = append(entries, e)
				continue
			}
			// further entries: sometimes a next hop (teaches the service its name or address)
			host := g.Hostname() + ".invalid"
			if g.R.Intn(3) == 0 {
				h := w.Hops[g.R.Intn(len(w.Hops))]
				host = []string{h.IP, h.Name}[g.R.Intn(2)]
			}
			e := genViaEntry(g, host, []int{0, 5060, 5080}[g.R.Intn(3)], []string{"UDP", "TCP", "TLS"}[g.R.Intn(3)], "z9hG4bK"+g.Alnum(4, 10), true)
			if g.R.Intn(3) == 0 {
				// stamped by the element above it, as lower entries of real traffic are
				e += fmt.Sprintf(";received=192.0.2.%d", 1+g.R.Intn(250))
				if g.R.Intn(2) == 0 {
					e += fmt.Sprintf(";rport=%d", 1024+g.R.Intn(60000))
				}
			}
			entries = append(entries, e)
		}
		vvalues, vlay := g.JoinList(entries)
		vname := []string{"Via", "v", "VIA", "via"}[g.R.Intn(4)]
		var vh []sip.Header
		for _, v := range vvalues {
			if g.R.Intn(3) == 0 {
				// each line may have its own spelling
				vname = []string{"Via", "v", "VIA", "via", "V"}[g.R.Intn(5)]
			}
			vh = append(vh, sip.Header{Name: vname, Value: v})
		}
		sig = append(sig, fmt.Sprintf("via%d:%s", vfMin(nv, 3), vlay))
		// Route
		var rh []sip.Header
		if c.kind == "route" {
			var texts []string
			if g.R.Intn(2) == 0 {
				myPort := sv.UDP
				if c.path.Proto == "tcp" {
					myPort = sv.TCP
				}
				texts = append(texts, routeEntry(g, sv.IP, myPort, "", false).Text)
				sig = append(sig, "own+next")
				if prop == "C17" && g.R.Intn(2) == 0 {
					// the proxy's own entry several times (a spiral, or one entry per leg): each pass
					// through the proxy consumes exactly one, whatever the layout of the list
					for k := 1 + g.R.Intn(2); k > 0; k-- {
						tr := ""
						if c.path.Proto == "tcp" {
							tr = "tcp"
						}
						texts = append(texts, routeEntry(g, sv.IP, myPort, tr, false).Text)
					}
					sig = append(sig, "own-repeated")
				}
			}
			host := hop.IP
			if g.R.Intn(2) == 0 {
				host = hop.Name
			}
			tr := c.egress
			if tr == "udp" && g.R.Intn(2) == 0 {
				tr = ""
			}
			texts = append(texts, routeEntry(g, host, hopPort, tr, true).Text)
			for k := g.R.Intn(3); k > 0; k-- {
				texts = append(texts, routeEntry(g, g.Hostname()+".invalid", 0, "", true).Text)
			}
			c.hopHost, c.hopIP, c.hopPort = host, hop.IP, hopPort
			rvalues, _ := g.JoinList(texts)
			for _, v := range rvalues {
				rh = append(rh, sip.Header{Name: "Route", Value: v})
			}
			sig = append(sig, "route:"+c.egress)
		}
		// Record-Route
		var rrh []sip.Header
		nrr := 0
		if g.R.Intn(2) == 0 {
			nrr = 1 + g.R.Intn(4)
			var texts []string
			for k := 0; k < nrr; k++ {
				texts = append(texts, routeEntry(g, g.Hostname()+".invalid", []int{0, 5060}[g.R.Intn(2)], "", true).Text)
			}
			rvalues, _ := g.JoinList(texts)
			rrname := []string{"Record-Route", "record-route", "RECORD-ROUTE"}[g.R.Intn(3)]
			for _, v := range rvalues {
				rrh = append(rrh, sip.Header{Name: rrname, Value: v})
			}
		}
		sig = append(sig, fmt.Sprintf("rr%d", vfMin(nrr, 2)))
		from := sip.Header{Name: "From", Value: "<sip:alice@ua.verif.test>;tag=f" + c.id}
		toH := sip.Header{Name: "To", Value: to}
		cid := sip.Header{Name: "Call-ID", Value: c.id + "@vf"}
		cseq := sip.Header{Name: "CSeq", Value: fmt.Sprintf("%d %s", 1+g.R.Intn(100000), method)}
		mf := sip.Header{Name: "Max-Forwards", Value: "70"}
		xvf := sip.Header{Name: "X-Vf", Value: c.id}
		// layout: where Via, Route and Record-Route sit relative to From / Max-Forwards
		var hs []sip.Header
		switch g.R.Intn(4) {
		case 0:
			hs = append(hs, vh...)
			hs = append(hs, rh...)
			hs = append(hs, mf, from, toH, cid, cseq)
			hs = append(hs, rrh...)
			sig = append(sig, "pos:rr-end")
		case 1:
			hs = append(hs, mf)
			hs = append(hs, rrh...)
			hs = append(hs, vh...)
			hs = append(hs, from, toH, cid, cseq)
			hs = append(hs, rh...)
			sig = append(sig, "pos:rr-before-via")
		case 2:
			hs = append(hs, from, toH)
			hs = append(hs, vh...)
			hs = append(hs, cid, cseq, mf)
			hs = append(hs, rrh...)
			hs = append(hs, rh...)
			sig = append(sig, "pos:from-first")
		default:
			hs = append(hs, rrh...)
			hs = append(hs, rh...)
			hs = append(hs, vh...)
			hs = append(hs, toH, from, cseq, cid)
			sig = append(sig, "pos:no-maxfwd")
		}
		hs = append(hs, xvf, sip.Header{Name: "Content-Length", Value: "0"})
		m.Headers = hs
		if c.kind != "backend" && (c.egress != "udp" && c.egress != "tcp") {
			c.expect = false
		}
	}
	// C01: hostile content
	if prop == "C01" || prop == "C17" {
		sig = append(sig, decorateC01(g, m, c))
	}
	c.in = m
	c.sig = strings.Join(sig, ",")
	return c
}

// decorateC01 adds extension headers, typed-header variety and a body.
func decorateC01(g *sip.Gen, m *sip.Msg, c *relayCase) string {
	var sig []string
	budget := 60000
	if c.path.Proto == "udp" || c.egress == "udp" || c.kind == "backend" {
		budget = 60000
	}
	// extension headers at random positions (never before the first line...)
	next := g.R.Intn(12)
	if g.R.Intn(8) == 0 {
		next = 20 + g.R.Intn(21)
	}
	kinds := map[string]bool{}
	used := 0
	for k := 0; k < next; k++ {
		name, ns := g.ExtName()
		maxv := 16 * 1024
		if budget-used < maxv {
			maxv = budget - used
		}
		if maxv < 10 {
			break
		}
		val, vs := g.ExtValue(maxv)
		used += len(name) + len(val) + 4
		kinds[ns] = true
		kinds[vs] = true
		pos := g.R.Intn(len(m.Headers) + 1)
		hs := append([]sip.Header{}, m.Headers[:pos]...)
		hs = append(hs, sip.Header{Name: name, Value: val})
		m.Headers = append(hs, m.Headers[pos:]...)
	}
	for _, k := range []string{"percent", "utf8", "non-utf8", "non-utf8-edge", "long>4k", "lookalike", "1letter", "oddcase", "empty", "structured"} {
		if kinds[k] {
			sig = append(sig, k)
		}
	}
	// typed headers from the grammar (hosts in the sender's own letter case)
	g.MixedCaseHosts = true
	defer func() { g.MixedCaseHosts = false }()
	if m.IsRequest() && g.R.Intn(3) == 0 {
		// shaped like an in-dialog request: both tags present
		to, _ := g.GenNameAddr(sip.NAOpts{AllowBare: true, Tag: g.Tag(), MaxHParams: 2, NoFindings: true, ForceSIP: c.kind == "static"})
		if c.kind != "static" {
			keepTel := false
			for _, h := range m.Headers {
				if sip.Canon(h.Name) == "to" && strings.HasPrefix(h.Value, "<tel:") {
					keepTel = true // the To of these cases keeps the request off the default static route
				}
			}
			if !keepTel {
				wire.SetHeader(m, "To", to.String())
			} else {
				wire.SetHeader(m, "To", "<tel:+15550199>;tag="+g.Tag())
			}
			sig = append(sig, "in-dialog-shaped")
			if g.R.Intn(2) == 0 {
				// a notification inside a dialog: the proxy reads its Subscription-State on the way to
				// a backend - and must pass it on as it came, blanks around ';' and '=' included
				if sp := strings.IndexByte(m.Start, ' '); sp > 0 {
					m.Start = "NOTIFY" + m.Start[sp:]
					for i, h := range m.Headers {
						if sip.Canon(h.Name) == "cseq" {
							if f := strings.Fields(h.Value); len(f) == 2 {
								m.Headers[i].Value = f[0] + " NOTIFY"
							}
						}
					}
				}
				st := []string{"active; expires=3600", "active ;expires=60", "pending;  retry-after=5", "Active;Expires=10", "active;expires=0300", "terminated ; reason=timeout", "terminated;reason=noresource;x", "active"}[g.R.Intn(8)]
				name := []string{"Subscription-State", "subscription-state", "SUBSCRIPTION-STATE"}[g.R.Intn(3)]
				pos := 1 + g.R.Intn(len(m.Headers))
				hs := append([]sip.Header{}, m.Headers[:pos]...)
				hs = append(hs, sip.Header{Name: name, Value: st}, sip.Header{Name: "Event", Value: "presence"})
				m.Headers = append(hs, m.Headers[pos:]...)
				sig = append(sig, "notify-subscription-state")
			}
		}
	}
	if !m.IsRequest() || g.R.Intn(2) == 0 {
		from, _ := g.GenNameAddr(sip.NAOpts{AllowBare: true, Tag: g.Tag(), MaxHParams: 3, NoFindings: true})
		wire.SetHeader(m, "From", from.String())
		sig = append(sig, "from-gen")
	}
	if !m.IsRequest() {
		to, _ := g.GenNameAddr(sip.NAOpts{AllowBare: true, Tag: g.Tag(), MaxHParams: 3, NoFindings: true})
		wire.SetHeader(m, "To", to.String())
	}
	if g.R.Intn(3) == 0 {
		wire.SetHeader(m, "Call-ID", g.Token(1, 40)+"@"+g.Host())
		sig = append(sig, "callid-gen")
	}
	// blanks inside From / To that are the sender's own business: after the ';' of a header
	// parameter, around its '=', and a quoted parameter value that contains "; "
	if g.R.Intn(5) == 0 {
		for i, h := range m.Headers {
			cn := sip.Canon(h.Name)
			if (cn == "from" || cn == "to") && strings.Contains(h.Value, ">;") {
				v := h.Value
				switch g.R.Intn(3) {
				case 0:
					v = strings.Replace(v, ">;", ">; ", 1)
				case 1:
					v = strings.Replace(v, ">;", "> ;", 1)
				default:
					v += ";note=\"lunch; back at 2\""
				}
				m.Headers[i].Value = v
				sig = append(sig, "blanks-inside-from-to")
			}
		}
	}
	// header-name spellings of the interpreted headers
	if g.R.Intn(3) == 0 {
		for i, h := range m.Headers {
			switch sip.Canon(h.Name) {
			case "from":
				m.Headers[i].Name = []string{"f", "FROM", "From", "from"}[g.R.Intn(4)]
			case "to":
				m.Headers[i].Name = []string{"t", "TO", "To", "to"}[g.R.Intn(4)]
			case "call-id":
				m.Headers[i].Name = []string{"i", "CALL-ID", "Call-Id", "call-id"}[g.R.Intn(4)]
			case "cseq":
				m.Headers[i].Name = []string{"CSEQ", "Cseq", "cseq", "CSeq"}[g.R.Intn(4)]
			}
		}
		sig = append(sig, "respelled")
	}
	// body and Content-Length spelling
	remain := budget - used
	if remain < 0 {
		remain = 0
	}
	body, bs := g.Body(remain)
	if len(body) > remain {
		body = body[:remain]
	}
	sig = append(sig, bs)
	m.Body = body
	clName := []string{"Content-Length", "Content-Length", "l", "content-length", "CONTENT-LENGTH", "L"}[g.R.Intn(6)]
	for i, h := range m.Headers {
		if sip.Canon(h.Name) == "content-length" {
			m.Headers[i] = sip.Header{Name: clName, Value: fmt.Sprint(len(body))}
			// Content-Length anywhere
			if g.R.Intn(3) == 0 && i > 0 {
				// (never trade places with a routing header: that would reorder the Via stack)
				if j := g.R.Intn(i); !managed(m.Headers[j].Name) {
					m.Headers[i], m.Headers[j] = m.Headers[j], m.Headers[i]
				}
			}
			break
		}
	}
	if clName != "Content-Length" {
		sig = append(sig, "cl:"+clName)
	}
	// Request-URI variety for the non-backend request paths
	if m.IsRequest() && c.kind != "backend" && g.R.Intn(2) == 0 {
		u, us := g.AnyURI(sip.URIOpts{MaxParams: 4, MaxHeaders: 2, NoFindings: true})
		f := strings.Fields(m.Start)
		m.Start = f[0] + " " + u.String() + " " + f[2]
		sig = append(sig, "ruri:"+us)
	}
	return strings.Join(sig, "+")
}
