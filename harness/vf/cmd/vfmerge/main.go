// vfmerge combines the partial evidence files of a check's engines into the
// single evidence/<id>.json of the interface.
package main

import (
	"encoding/json"
	"fmt"
	"os"
	"path/filepath"
	"strconv"
	"strings"
)

func main() {
	if len(os.Args) < 6 {
		fmt.Println("usage: vfmerge <prop> <tier> <out> <wall_s> <part>...")
		os.Exit(2)
	}
	prop, tier, out := os.Args[1], os.Args[2], os.Args[3]
	wall, _ := strconv.ParseFloat(os.Args[4], 64)
	var evals, distinct, violations int64
	var rules []string
	var samples []any
	observed := map[string]any{}
	assume := map[string]bool{}
	assumeList := []string{}
	exhaustive := true
	level := ""
	seed := int64(1)
	var details []any
	n := 0
	for _, p := range os.Args[5:] {
		b, err := os.ReadFile(p)
		if err != nil {
			fmt.Printf("HARNESS-ERROR missing partial evidence %s\n", p)
			os.Exit(2)
		}
		var e map[string]any
		if err := json.Unmarshal(b, &e); err != nil {
			fmt.Printf("HARNESS-ERROR bad partial evidence %s: %v\n", p, err)
			os.Exit(2)
		}
		n++
		name := strings.TrimSuffix(strings.TrimPrefix(filepath.Base(p), "part-"), ".json")
		if level == "" {
			level, _ = e["level"].(string)
		}
		if s, ok := e["seed"].(float64); ok {
			seed = int64(s)
		}
		cov, _ := e["coverage"].(map[string]any)
		if v, ok := cov["evaluations"].(float64); ok {
			evals += int64(v)
		}
		if v, ok := cov["distinct_nontrivial"].(float64); ok {
			distinct += int64(v)
		}
		if r, ok := cov["rule"].(string); ok {
			rules = append(rules, "["+name+"] "+r)
		}
		if ss, ok := cov["samples"].([]any); ok {
			for _, s := range ss {
				if len(samples) < 14 {
					samples = append(samples, map[string]any{"engine": name, "case": s})
				}
			}
		}
		if ex, ok := cov["exhaustive"].(bool); !ok || !ex {
			exhaustive = false
		}
		observed[name] = cov["observed"]
		if as, ok := e["assumptions"].([]any); ok {
			for _, a := range as {
				if s, ok := a.(string); ok && !assume[s] {
					assume[s] = true
					assumeList = append(assumeList, s)
				}
			}
		}
		if v, ok := e["violations"].(float64); ok {
			violations += int64(v)
		}
		if d, ok := e["violation_details"].([]any); ok {
			details = append(details, d...)
		}
	}
	if n == 0 {
		fmt.Println("HARNESS-ERROR no partial evidence")
		os.Exit(2)
	}
	res := map[string]any{
		"property_id": prop, "tier": tier, "seed": seed, "level": level,
		"coverage": map[string]any{
			"evaluations": evals, "distinct_nontrivial": distinct, "rule": strings.Join(rules, " || "),
			"samples": samples, "observed": observed, "exhaustive": exhaustive, "engines": n,
		},
		"assumptions": assumeList, "wall_s": wall, "violations": violations,
	}
	if len(details) > 0 {
		res["violation_details"] = details
	}
	b, _ := json.MarshalIndent(res, "", " ")
	os.MkdirAll(filepath.Dir(out), 0o755)
	if err := os.WriteFile(out, b, 0o644); err != nil {
		fmt.Printf("HARNESS-ERROR cannot write %s: %v\n", out, err)
		os.Exit(2)
	}
}
