module vf

go 1.21

require github.com/anishathalye/porcupine v1.3.0
