package wire

import (
	"bufio"
	"bytes"
	"encoding/json"
	"fmt"
	"io"
	"net/http"
	"os"
	"os/exec"
	"path/filepath"
	"strconv"
	"strings"
	"sync"
	"syscall"
	"time"
)

// Proxy supervises one process of the binary under test.
type Proxy struct {
	Bin      string
	Dir      string // scratch dir of this process
	Cfg      *Config
	Pprof    int
	cmd      *exec.Cmd
	mu       sync.Mutex
	exited   bool
	exitErr  error
	exitedCh chan struct{}
	Env      []string
}

// StartProxy writes the YAML, starts the binary and returns at once; use
// WaitReady (harness) to wait for the listeners.
func StartProxy(bin, dir string, cfg *Config, pprofPort int, env ...string) (*Proxy, error) {
	if err := os.MkdirAll(dir, 0o755); err != nil {
		return nil, err
	}
	cfgPath := filepath.Join(dir, "proxy.yaml")
	if err := os.WriteFile(cfgPath, []byte(cfg.YAML()), 0o644); err != nil {
		return nil, err
	}
	p := &Proxy{Bin: bin, Dir: dir, Cfg: cfg, Pprof: pprofPort, exitedCh: make(chan struct{})}
	args := []string{"-c", cfgPath, "--log-level", "error"}
	if pprofPort > 0 {
		args = append(args, "--profiling-port", strconv.Itoa(pprofPort))
	}
	cmd := exec.Command(bin, args...)
	cmd.Env = append(os.Environ(),
		"GORACE=halt_on_error=0 exitcode=0 log_path="+filepath.Join(dir, "race"),
		"GOTRACEBACK=all")
	cmd.Env = append(cmd.Env, env...)
	stderr, err := os.Create(filepath.Join(dir, "stderr.log"))
	if err != nil {
		return nil, err
	}
	cmd.Stdout = nil // zap logs go to stdout: discarded
	if os.Getenv("VF_PROXY_STDOUT") != "" {
		so, _ := os.Create(filepath.Join(dir, "stdout.log"))
		cmd.Stdout = so
	}
	cmd.Stderr = stderr
	cmd.SysProcAttr = &syscall.SysProcAttr{Setpgid: true, Pdeathsig: syscall.SIGKILL}
	if err := cmd.Start(); err != nil {
		return nil, err
	}
	p.cmd = cmd
	go func() {
		err := cmd.Wait()
		stderr.Close()
		p.mu.Lock()
		p.exited, p.exitErr = true, err
		p.mu.Unlock()
		close(p.exitedCh)
	}()
	return p, nil
}

// Alive reports whether the process is still running.
func (p *Proxy) Alive() bool { p.mu.Lock(); defer p.mu.Unlock(); return !p.exited }

// Pid returns the process id.
func (p *Proxy) Pid() int { return p.cmd.Process.Pid }

// ExitInfo describes how the process ended ("" while alive).
func (p *Proxy) ExitInfo() string {
	p.mu.Lock()
	defer p.mu.Unlock()
	if !p.exited {
		return ""
	}
	if p.exitErr == nil {
		return "exit status 0"
	}
	return p.exitErr.Error()
}

// Stop kills the process.
func (p *Proxy) Stop() {
	if p.cmd != nil && p.cmd.Process != nil {
		p.cmd.Process.Kill()
		select {
		case <-p.exitedCh:
		case <-time.After(5 * time.Second):
		}
	}
}

// Stderr returns the (tail of the) stderr file.
func (p *Proxy) Stderr(max int) string {
	b, _ := os.ReadFile(filepath.Join(p.Dir, "stderr.log"))
	if len(b) > max {
		b = b[len(b)-max:]
	}
	return string(b)
}

// StderrHead returns the beginning of the stderr file (where a panic starts).
func (p *Proxy) StderrHead(max int) string {
	b, _ := os.ReadFile(filepath.Join(p.Dir, "stderr.log"))
	if i := bytes.Index(b, []byte("panic:")); i >= 0 {
		b = b[i:]
	} else if i := bytes.Index(b, []byte("fatal error:")); i >= 0 {
		b = b[i:]
	}
	if len(b) > max {
		b = b[:max]
	}
	return string(b)
}

// Crashed reports whether stderr shows a panic or a runtime fatal error.
func (p *Proxy) Crashed() bool {
	b, _ := os.ReadFile(filepath.Join(p.Dir, "stderr.log"))
	return bytes.Contains(b, []byte("panic:")) || bytes.Contains(b, []byte("fatal error:"))
}

// RaceReport is one deduplicated race-detector report.
type RaceReport struct {
	Signature string `json:"signature"`
	Count     int    `json:"count"`
	Text      string `json:"text"`
}

// RaceReports parses the race log files of dir (any process that used
// log_path=dir/race) and dedupes reports by their pair of top repository frames.
func RaceReports(dir, repoMarker string) []RaceReport {
	files, _ := filepath.Glob(filepath.Join(dir, "race*"))
	by := map[string]*RaceReport{}
	var order []string
	for _, f := range files {
		b, err := os.ReadFile(f)
		if err != nil {
			continue
		}
		for _, blk := range strings.Split(string(b), "==================") {
			if !strings.Contains(blk, "WARNING: DATA RACE") {
				continue
			}
			sig := raceSignature(blk, repoMarker)
			if r, ok := by[sig]; ok {
				r.Count++
				continue
			}
			t := blk
			if len(t) > 3000 {
				t = t[:3000] + "\n..."
			}
			by[sig] = &RaceReport{Signature: sig, Count: 1, Text: t}
			order = append(order, sig)
		}
	}
	var r []RaceReport
	for _, s := range order {
		r = append(r, *by[s])
	}
	return r
}

// raceSignature = the first repository function of each of the two access
// stacks, line numbers stripped.
func raceSignature(blk, repoMarker string) string {
	var tops []string
	sc := bufio.NewScanner(strings.NewReader(blk))
	inStack := false
	for sc.Scan() {
		line := sc.Text()
		t := strings.TrimSpace(line)
		switch {
		case strings.HasPrefix(t, "Read at"), strings.HasPrefix(t, "Write at"), strings.HasPrefix(t, "Previous read at"), strings.HasPrefix(t, "Previous write at"),
			strings.HasPrefix(t, "Atomic"), strings.HasPrefix(t, "Previous atomic"):
			inStack = true
		case strings.HasPrefix(t, "Goroutine "):
			inStack = false
		case inStack && strings.HasSuffix(t, "()") && (strings.HasPrefix(t, "main.") || strings.Contains(t, repoMarker+".")):
			fn := t[strings.LastIndex(t, "/")+1:]
			tops = append(tops, fn)
			inStack = false
		}
	}
	if len(tops) == 0 {
		return "unattributed"
	}
	return strings.Join(tops, " <-> ")
}

// MemStats is the part of runtime.MemStats read through the pprof port.
type MemStats struct {
	TotalAlloc uint64
	HeapSys    uint64
	HeapAlloc  uint64
	Sys        uint64
	NumGC      uint32
}

// MemStats fetches /debug/pprof/heap?debug=1 and parses the trailer.
func (p *Proxy) MemStats() (MemStats, error) {
	var m MemStats
	c := http.Client{Timeout: 10 * time.Second}
	resp, err := c.Get(fmt.Sprintf("http://127.0.0.1:%d/debug/pprof/heap?debug=1", p.Pprof))
	if err != nil {
		return m, err
	}
	defer resp.Body.Close()
	b, _ := io.ReadAll(resp.Body)
	for _, line := range strings.Split(string(b), "\n") {
		if !strings.HasPrefix(line, "# ") {
			continue
		}
		kv := strings.SplitN(strings.TrimPrefix(line, "# "), " = ", 2)
		if len(kv) != 2 {
			continue
		}
		v, err := strconv.ParseUint(strings.TrimSpace(kv[1]), 10, 64)
		if err != nil {
			continue
		}
		switch kv[0] {
		case "TotalAlloc":
			m.TotalAlloc = v
		case "HeapSys":
			m.HeapSys = v
		case "HeapAlloc":
			m.HeapAlloc = v
		case "Sys":
			m.Sys = v
		case "NumGC":
			m.NumGC = uint32(v)
		}
	}
	if m.Sys == 0 {
		return m, fmt.Errorf("no MemStats in pprof answer")
	}
	return m, nil
}

// Goroutines fetches a full goroutine dump.
func (p *Proxy) Goroutines() string {
	c := http.Client{Timeout: 10 * time.Second}
	resp, err := c.Get(fmt.Sprintf("http://127.0.0.1:%d/debug/pprof/goroutine?debug=2", p.Pprof))
	if err != nil {
		return "goroutine dump failed: " + err.Error()
	}
	defer resp.Body.Close()
	b, _ := io.ReadAll(resp.Body)
	return string(b)
}

// ProcStatus reads VmHWM / VmRSS (KiB) and the number of open descriptors.
func (p *Proxy) ProcStatus() (vmHWM, vmRSS int64, fds int) {
	b, _ := os.ReadFile(fmt.Sprintf("/proc/%d/status", p.Pid()))
	for _, l := range strings.Split(string(b), "\n") {
		f := strings.Fields(l)
		if len(f) >= 2 {
			switch f[0] {
			case "VmHWM:":
				vmHWM, _ = strconv.ParseInt(f[1], 10, 64)
			case "VmRSS:":
				vmRSS, _ = strconv.ParseInt(f[1], 10, 64)
			}
		}
	}
	es, _ := os.ReadDir(fmt.Sprintf("/proc/%d/fd", p.Pid()))
	return vmHWM, vmRSS, len(es)
}

// UDPDrops sums the drops column of /proc/net/udp for sockets bound inside prefix
// (hex little-endian address match is skipped: inside a private namespace every
// socket belongs to the run).
func UDPDrops() int64 {
	b, err := os.ReadFile("/proc/net/udp")
	if err != nil {
		return -1
	}
	var total int64
	for i, l := range strings.Split(string(b), "\n") {
		if i == 0 {
			continue
		}
		f := strings.Fields(l)
		if len(f) >= 13 {
			d, _ := strconv.ParseInt(f[len(f)-1], 10, 64)
			total += d
		}
	}
	return total
}

// JSON is a tiny helper for witness details.
func JSON(v any) string { b, _ := json.Marshal(v); return string(b) }
