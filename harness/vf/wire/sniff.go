package wire

// Egress monitor: a packet socket on the loopback device of the run's private network
// namespace sees every IP packet, also those that go to addresses where no driver socket
// listens. It records UDP datagrams and TCP segments that carry a readable SIP message
// (attributed by case identity) and TCP connection attempts (SYN). This closes the gap
// "sockets observe only where the driver listens": a second copy of a request sent to an
// address nobody listens on, or a connection opened towards a client instead of reusing
// the client's connection, is seen here.

import (
	"encoding/binary"
	"fmt"
	"net"
	"sync/atomic"
	"syscall"
	"time"
	"unsafe"

	"vf/sip"
)

// Egress is one packet seen on the loopback device.
type Egress struct {
	T      time.Duration
	Proto  string // udp | tcp
	Src    string // ip:port
	Dst    string // ip:port
	SrcIP  string
	DstIP  string
	Syn    bool   // tcp connection attempt (SYN without ACK)
	CaseID string // identity of the SIP message in the payload ("" if none / not readable)
	Req    bool
	Len    int
}

type sniffer struct {
	fd      int
	packets int64
	stopped int32
}

func htons(v uint16) uint16 { return v<<8 | v>>8 }

// StartSniffer opens the packet socket. It fails (and the caller goes on without an egress
// monitor) when the process lacks CAP_NET_RAW or the loopback device cannot be found.
func (n *Net) StartSniffer() error {
	ifi, err := net.InterfaceByName("lo")
	if err != nil {
		return err
	}
	fd, err := syscall.Socket(syscall.AF_PACKET, syscall.SOCK_DGRAM, int(htons(syscall.ETH_P_IP)))
	if err != nil {
		return err
	}
	syscall.SetsockoptInt(fd, syscall.SOL_SOCKET, syscall.SO_RCVBUFFORCE, 64<<20)
	if err := syscall.Bind(fd, &syscall.SockaddrLinklayer{Protocol: htons(syscall.ETH_P_IP), Ifindex: ifi.Index}); err != nil {
		syscall.Close(fd)
		return err
	}
	s := &sniffer{fd: fd}
	n.mu.Lock()
	n.sniff = s
	n.egressByCase = map[string][]*Egress{}
	n.mu.Unlock()
	go func() {
		buf := make([]byte, 70000)
		for atomic.LoadInt32(&s.stopped) == 0 {
			k, from, err := syscall.Recvfrom(fd, buf, 0)
			if err != nil {
				if err == syscall.EINTR || err == syscall.EAGAIN {
					continue
				}
				return
			}
			if ll, ok := from.(*syscall.SockaddrLinklayer); ok && ll.Pkttype == 4 {
				// PACKET_OUTGOING: on the loopback device every packet is seen a second time as
				// received (PACKET_HOST); one copy is enough
				continue
			}
			atomic.AddInt64(&s.packets, 1)
			if e := parseIPv4(buf[:k]); e != nil {
				e.T = n.now()
				n.mu.Lock()
				n.egress = append(n.egress, e)
				if e.CaseID != "" {
					n.egressByCase[e.CaseID] = append(n.egressByCase[e.CaseID], e)
				}
				n.cond.Broadcast()
				n.mu.Unlock()
			}
		}
	}()
	n.onClose(func() { atomic.StoreInt32(&s.stopped, 1); syscall.Close(fd) })
	return nil
}

// Sniffing reports whether the egress monitor runs.
func (n *Net) Sniffing() bool { n.mu.Lock(); defer n.mu.Unlock(); return n.sniff != nil }

// SnifferDrops returns the number of packets the kernel dropped on the packet socket since
// the last call (PACKET_STATISTICS resets on read), -1 if unknown.
func (n *Net) SnifferDrops() int {
	n.mu.Lock()
	s := n.sniff
	n.mu.Unlock()
	if s == nil {
		return -1
	}
	var st [2]uint32 // tp_packets, tp_drops
	l := uint32(8)
	_, _, e := syscall.Syscall6(syscall.SYS_GETSOCKOPT, uintptr(s.fd), 263 /* SOL_PACKET */, 6 /* PACKET_STATISTICS */, uintptr(unsafe.Pointer(&st[0])), uintptr(unsafe.Pointer(&l)), 0)
	if e != 0 {
		return -1
	}
	return int(st[1])
}

// SnifferPackets returns how many packets the monitor has looked at.
func (n *Net) SnifferPackets() int64 {
	n.mu.Lock()
	s := n.sniff
	n.mu.Unlock()
	if s == nil {
		return 0
	}
	return atomic.LoadInt64(&s.packets)
}

func parseIPv4(p []byte) *Egress {
	if len(p) < 20 || p[0]>>4 != 4 {
		return nil
	}
	ihl := int(p[0]&15) * 4
	total := int(binary.BigEndian.Uint16(p[2:4]))
	if total > len(p) || total < ihl {
		total = len(p)
	}
	if binary.BigEndian.Uint16(p[6:8])&0x3fff != 0 {
		return nil // a fragment (does not occur: the loopback MTU holds the largest datagram)
	}
	src := net.IP(p[12:16]).String()
	dst := net.IP(p[16:20]).String()
	body := p[ihl:total]
	switch p[9] {
	case 17:
		if len(body) < 8 {
			return nil
		}
		e := &Egress{Proto: "udp", SrcIP: src, DstIP: dst, Src: fmt.Sprintf("%s:%d", src, binary.BigEndian.Uint16(body[0:2])), Dst: fmt.Sprintf("%s:%d", dst, binary.BigEndian.Uint16(body[2:4])), Len: len(body) - 8}
		if m, err := sip.Read(body[8:]); err == nil {
			e.CaseID = CaseIDOf(m)
			e.Req = m.IsRequest()
		}
		return e
	case 6:
		if len(body) < 20 {
			return nil
		}
		off := int(body[12]>>4) * 4
		flags := body[13]
		e := &Egress{Proto: "tcp", SrcIP: src, DstIP: dst, Src: fmt.Sprintf("%s:%d", src, binary.BigEndian.Uint16(body[0:2])), Dst: fmt.Sprintf("%s:%d", dst, binary.BigEndian.Uint16(body[2:4]))}
		e.Syn = flags&0x02 != 0 && flags&0x10 == 0
		if off <= len(body) && len(body)-off > 0 {
			e.Len = len(body) - off
			if m, err := sip.Read(body[off:]); err == nil {
				e.CaseID = CaseIDOf(m)
				e.Req = m.IsRequest()
			}
		}
		if !e.Syn && e.CaseID == "" {
			return nil // plain acknowledgements and segments without a readable message start
		}
		return e
	}
	return nil
}

// EgressForCase returns the packets seen so far that carry the case identity.
func (n *Net) EgressForCase(id string) []*Egress {
	n.mu.Lock()
	defer n.mu.Unlock()
	return append([]*Egress{}, n.egressByCase[id]...)
}

// WaitEgress blocks until a packet with the case identity that satisfies pred was seen, or the
// bound has passed. Packets are seen in the order they were sent, so once the packet of a
// later message (a sentinel) is there, every earlier packet has been recorded.
func (n *Net) WaitEgress(id string, pred func(*Egress) bool, bound time.Duration) bool {
	deadline := time.Now().Add(bound)
	for {
		n.mu.Lock()
		for _, e := range n.egressByCase[id] {
			if pred(e) {
				n.mu.Unlock()
				return true
			}
		}
		n.mu.Unlock()
		if time.Now().After(deadline) {
			return false
		}
		time.Sleep(200 * time.Microsecond)
	}
}

// EgressSince returns the packets recorded from index from on, and the next index.
func (n *Net) EgressSince(from int) ([]*Egress, int) {
	n.mu.Lock()
	defer n.mu.Unlock()
	if from > len(n.egress) {
		from = len(n.egress)
	}
	return append([]*Egress{}, n.egress[from:]...), len(n.egress)
}

// EgressMark returns the current length of the packet log.
func (n *Net) EgressMark() int { n.mu.Lock(); defer n.mu.Unlock(); return len(n.egress) }

// TrimEgress forgets the packet log (marks taken before are invalid afterwards).
func (n *Net) TrimEgress() {
	n.mu.Lock()
	n.egress = n.egress[:0]
	n.egressByCase = map[string][]*Egress{}
	n.mu.Unlock()
}
