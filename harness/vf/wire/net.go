package wire

import (
	"fmt"
	"net"
	"strings"
	"sync"
	"sync/atomic"
	"syscall"
	"time"
	"unsafe"

	"vf/sip"
)

// Obs is one message observed at a driver endpoint.
type Obs struct {
	Seq    int64
	T      time.Duration // since run start, one monotonic clock
	Ep     string        // endpoint name
	Proto  string        // udp | tcp
	Conn   int           // tcp connection id (0 for udp)
	Local  string        // local ip:port
	Peer   string        // remote ip:port
	Raw    []byte
	Msg    *sip.Msg // nil if unreadable
	CaseID string   // "" if none of the identity carriers survived
}

// Sent is one message sent by the driver (logged before the syscall).
type Sent struct {
	Seq    int64
	T      time.Duration
	Ep     string
	Proto  string
	Conn   int
	Dst    string
	Raw    []byte
	CaseID string
}

// CaseIDOf extracts the case identity from any of its three carriers.
func CaseIDOf(m *sip.Msg) string {
	if m == nil {
		return ""
	}
	if v, ok := m.First("x-vf"); ok && v != "" {
		return v
	}
	if v, ok := m.First("call-id"); ok {
		if i := strings.IndexByte(v, '@'); i > 0 && strings.HasSuffix(v, "@vf") {
			return v[:i]
		}
	}
	for _, e := range m.List("via") {
		if i := strings.Index(e, "branch=z9hG4bKvf"); i >= 0 {
			rest := e[i+len("branch=z9hG4bKvf"):]
			if j := strings.IndexAny(rest, ";, \t"); j >= 0 {
				rest = rest[:j]
			}
			return rest
		}
	}
	return ""
}

// Net owns all driver sockets of a run and the central observation log.
type Net struct {
	start    time.Time
	seq      int64
	mu       sync.Mutex
	cond     *sync.Cond
	obs      []*Obs
	byCase   map[string][]*Obs
	sent     []*Sent
	socks    []syscall.RawConn
	connSeq  int32
	closed   int32
	closers  []func()
	keepSent bool
	// Accepts counts inbound TCP connections per listener endpoint name.
	accepts map[string]int
	subs    []chan *Obs
	// egress monitor (sniff.go)
	sniff        *sniffer
	egress       []*Egress
	egressByCase map[string][]*Egress
}

// Subscribe returns a channel that receives every observation from now on
// (never blocks the recorder: a full channel drops for that subscriber only).
func (n *Net) Subscribe(buf int) chan *Obs {
	ch := make(chan *Obs, buf)
	n.mu.Lock()
	n.subs = append(n.subs, ch)
	n.mu.Unlock()
	return ch
}

// NewNet creates the observation hub.
func NewNet() *Net {
	n := &Net{start: time.Now(), byCase: map[string][]*Obs{}, accepts: map[string]int{}, keepSent: true}
	n.cond = sync.NewCond(&n.mu)
	return n
}

func (n *Net) now() time.Duration { return time.Since(n.start) }

func (n *Net) record(o *Obs) {
	o.Seq = atomic.AddInt64(&n.seq, 1)
	o.T = n.now()
	if m, err := sip.Read(o.Raw); err == nil {
		o.Msg = m
		o.CaseID = CaseIDOf(m)
	}
	n.mu.Lock()
	n.obs = append(n.obs, o)
	n.byCase[o.CaseID] = append(n.byCase[o.CaseID], o)
	subs := n.subs
	n.cond.Broadcast()
	n.mu.Unlock()
	for _, ch := range subs {
		select {
		case ch <- o:
		default:
		}
	}
}

func (n *Net) logSent(s *Sent) {
	s.Seq = atomic.AddInt64(&n.seq, 1)
	s.T = n.now()
	if n.keepSent {
		n.mu.Lock()
		n.sent = append(n.sent, s)
		n.mu.Unlock()
	}
}

// Count returns how many observations were recorded so far.
func (n *Net) Count() int { n.mu.Lock(); defer n.mu.Unlock(); return len(n.obs) }

// ForCase returns the observations attributed to id so far.
func (n *Net) ForCase(id string) []*Obs {
	n.mu.Lock()
	defer n.mu.Unlock()
	return append([]*Obs{}, n.byCase[id]...)
}

// All returns every observation so far.
func (n *Net) All() []*Obs { n.mu.Lock(); defer n.mu.Unlock(); return append([]*Obs{}, n.obs...) }

// Since returns observations with index >= from.
func (n *Net) Since(from int) []*Obs {
	n.mu.Lock()
	defer n.mu.Unlock()
	if from > len(n.obs) {
		from = len(n.obs)
	}
	return append([]*Obs{}, n.obs[from:]...)
}

// Forget drops the per-case index entry (memory control in long runs).
func (n *Net) Forget(id string) { n.mu.Lock(); delete(n.byCase, id); n.mu.Unlock() }

// Trim drops the observation list up to the current point (the per-case index is kept).
func (n *Net) Trim() { n.mu.Lock(); n.obs = n.obs[:0]; n.sent = n.sent[:0]; n.mu.Unlock() }

// WaitCase waits until pred holds for the observations of id, or the timeout passes.
func (n *Net) WaitCase(id string, pred func([]*Obs) bool, timeout time.Duration) ([]*Obs, bool) {
	deadline := time.Now().Add(timeout)
	timer := time.AfterFunc(timeout, func() { n.mu.Lock(); n.cond.Broadcast(); n.mu.Unlock() })
	defer timer.Stop()
	n.mu.Lock()
	defer n.mu.Unlock()
	for {
		o := n.byCase[id]
		if pred(o) {
			return append([]*Obs{}, o...), true
		}
		if !time.Now().Before(deadline) {
			return append([]*Obs{}, o...), false
		}
		n.cond.Wait()
	}
}

func (n *Net) addSock(c syscall.Conn) {
	if rc, err := c.SyscallConn(); err == nil {
		n.mu.Lock()
		n.socks = append(n.socks, rc)
		n.mu.Unlock()
	}
}

// pending reports whether any driver socket has unread bytes in the kernel.
func (n *Net) pending() bool {
	n.mu.Lock()
	socks := append([]syscall.RawConn{}, n.socks...)
	n.mu.Unlock()
	any := false
	for _, rc := range socks {
		rc.Control(func(fd uintptr) {
			var k int32
			_, _, e := syscall.Syscall(syscall.SYS_IOCTL, fd, uintptr(syscall.TIOCINQ), uintptr(unsafe.Pointer(&k)))
			if e == 0 && k > 0 {
				any = true
			}
		})
		if any {
			return true
		}
	}
	return false
}

// Drain waits (bounded) until no driver socket has unread input and the
// observation count has been stable over two consecutive looks.
func (n *Net) Drain() {
	deadline := time.Now().Add(60 * time.Millisecond)
	stable := 0
	last := -1
	for time.Now().Before(deadline) {
		c := n.Count()
		if !n.pending() && c == last {
			stable++
			if stable >= 2 {
				return
			}
		} else {
			stable = 0
		}
		last = c
		time.Sleep(60 * time.Microsecond)
	}
}

// Close closes every socket.
func (n *Net) Close() {
	atomic.StoreInt32(&n.closed, 1)
	n.mu.Lock()
	cl := n.closers
	n.closers = nil
	n.mu.Unlock()
	for _, f := range cl {
		f()
	}
}

func (n *Net) onClose(f func()) { n.mu.Lock(); n.closers = append(n.closers, f); n.mu.Unlock() }

// UDPEndpoint is a bound loopback UDP socket that records what it receives.
type UDPEndpoint struct {
	Name string
	Addr string // ip:port
	conn *net.UDPConn
	n    *Net
}

// UDP binds addr ("ip:port", port 0 allowed) and starts recording.
func (n *Net) UDP(name, addr string) (*UDPEndpoint, error) {
	a, err := net.ResolveUDPAddr("udp", addr)
	if err != nil {
		return nil, err
	}
	c, err := net.ListenUDP("udp", a)
	if err != nil {
		return nil, fmt.Errorf("bind udp %s: %w", addr, err)
	}
	setRcvBuf(c, 16<<20)
	e := &UDPEndpoint{Name: name, Addr: c.LocalAddr().String(), conn: c, n: n}
	n.addSock(c)
	n.onClose(func() { c.Close() })
	go func() {
		buf := make([]byte, 66000)
		for {
			k, peer, err := c.ReadFromUDP(buf)
			if err != nil {
				return
			}
			n.record(&Obs{Ep: name, Proto: "udp", Local: e.Addr, Peer: peer.String(), Raw: append([]byte{}, buf[:k]...)})
		}
	}()
	return e, nil
}

func setRcvBuf(c syscall.Conn, size int) {
	rc, err := c.SyscallConn()
	if err != nil {
		return
	}
	rc.Control(func(fd uintptr) {
		// SO_RCVBUFFORCE (33) ignores rmem_max when privileged; fall back to SO_RCVBUF
		if syscall.SetsockoptInt(int(fd), syscall.SOL_SOCKET, 33, size) != nil {
			syscall.SetsockoptInt(int(fd), syscall.SOL_SOCKET, syscall.SO_RCVBUF, size)
		}
	})
}

// Send sends raw to dst ("ip:port").
func (e *UDPEndpoint) Send(dst string, raw []byte, caseID string) error {
	a, err := net.ResolveUDPAddr("udp", dst)
	if err != nil {
		return err
	}
	e.n.logSent(&Sent{Ep: e.Name, Proto: "udp", Dst: dst, Raw: raw, CaseID: caseID})
	_, err = e.conn.WriteToUDP(raw, a)
	return err
}

// Port returns the bound port.
func (e *UDPEndpoint) Port() int { return e.conn.LocalAddr().(*net.UDPAddr).Port }

// IP returns the bound IP.
func (e *UDPEndpoint) IP() string { return e.conn.LocalAddr().(*net.UDPAddr).IP.String() }

// TCPConn is one TCP connection of the driver (dialled or accepted).
type TCPConn struct {
	ID    int
	Name  string
	Local string
	Peer  string
	c     net.Conn
	n     *Net
	wmu   sync.Mutex
	mu    sync.Mutex
	raw   []byte // every byte received, unframed
	eof   bool
	slow  *int64 // ns to sleep before each read (a peer that reads slowly); nil = never
}

func (n *Net) newConn(name string, c net.Conn) *TCPConn {
	t := n.newConnObj(name, c)
	t.start()
	return t
}

// newConnObj creates the connection object without starting its reader, so
// that a listener can register it before the first observation can appear.
func (n *Net) newConnObj(name string, c net.Conn) *TCPConn {
	t := &TCPConn{ID: int(atomic.AddInt32(&n.connSeq, 1)), Name: name, Local: c.LocalAddr().String(), Peer: c.RemoteAddr().String(), c: c, n: n}
	if sc, ok := c.(syscall.Conn); ok {
		n.addSock(sc)
	}
	n.onClose(func() { c.Close() })
	return t
}

func (t *TCPConn) start() {
	n, c, name := t.n, t.c, t.Name
	go func() {
		var pend []byte
		b := make([]byte, 65536)
		for {
			if t.slow != nil {
				if d := atomic.LoadInt64(t.slow); d > 0 {
					time.Sleep(time.Duration(d))
				}
			}
			k, err := c.Read(b)
			if k > 0 {
				t.mu.Lock()
				t.raw = append(t.raw, b[:k]...)
				t.mu.Unlock()
				pend = append(pend, b[:k]...)
				var msgs [][]byte
				msgs, pend = sip.FrameTCP(pend)
				for _, m := range msgs {
					n.record(&Obs{Ep: name, Proto: "tcp", Conn: t.ID, Local: t.Local, Peer: t.Peer, Raw: m})
				}
			}
			if err != nil {
				t.mu.Lock()
				t.eof = true
				t.mu.Unlock()
				if len(pend) > 0 {
					// unframeable tail: record it as it is, so that nothing goes unseen
					n.record(&Obs{Ep: name, Proto: "tcp", Conn: t.ID, Local: t.Local, Peer: t.Peer, Raw: pend})
				}
				n.mu.Lock()
				n.cond.Broadcast()
				n.mu.Unlock()
				return
			}
		}
	}()
}

// Dial opens a TCP connection from local ("ip:0" or "ip:port") to dst.
func (n *Net) Dial(name, local, dst string) (*TCPConn, error) {
	la, err := net.ResolveTCPAddr("tcp", local)
	if err != nil {
		return nil, err
	}
	d := net.Dialer{LocalAddr: la, Timeout: 5 * time.Second}
	c, err := d.Dial("tcp", dst)
	if err != nil {
		return nil, err
	}
	c.(*net.TCPConn).SetNoDelay(true)
	return n.newConn(name, c), nil
}

// Send writes raw on the connection.
func (t *TCPConn) Send(raw []byte, caseID string) error {
	t.n.logSent(&Sent{Ep: t.Name, Proto: "tcp", Conn: t.ID, Dst: t.Peer, Raw: raw, CaseID: caseID})
	t.wmu.Lock()
	defer t.wmu.Unlock()
	t.c.SetWriteDeadline(time.Now().Add(20 * time.Second))
	_, err := t.c.Write(raw)
	return err
}

// EOF reports whether the peer closed the connection.
func (t *TCPConn) EOF() bool { t.mu.Lock(); defer t.mu.Unlock(); return t.eof }

// RawLen returns the number of bytes received so far.
func (t *TCPConn) RawLen() int { t.mu.Lock(); defer t.mu.Unlock(); return len(t.raw) }

// RawFrom returns the received bytes from offset off.
func (t *TCPConn) RawFrom(off int) []byte {
	t.mu.Lock()
	defer t.mu.Unlock()
	if off > len(t.raw) {
		off = len(t.raw)
	}
	return append([]byte{}, t.raw[off:]...)
}

// Close closes the connection (reset = true sends RST).
func (t *TCPConn) Close(reset bool) {
	if tc, ok := t.c.(*net.TCPConn); ok && reset {
		tc.SetLinger(0)
	}
	t.c.Close()
}

// TCPListener is a listening driver endpoint; accepted connections record
// what they receive under the listener's name.
type TCPListener struct {
	Name  string
	Addr  string
	ln    net.Listener
	n     *Net
	mu    sync.Mutex
	conns []*TCPConn
	slow  int64
	small bool
}

// SlowRead makes every connection of the listener sleep d before each read (0 = full
// speed again); with smallWindow, connections accepted from now on get a 8 KiB
// receive buffer so that the peer's writes block early.
func (l *TCPListener) SlowRead(d time.Duration, smallWindow bool) {
	atomic.StoreInt64(&l.slow, int64(d))
	l.mu.Lock()
	l.small = smallWindow
	l.mu.Unlock()
}

// Listen binds a TCP listener.
func (n *Net) Listen(name, addr string) (*TCPListener, error) {
	ln, err := net.Listen("tcp", addr)
	if err != nil {
		return nil, fmt.Errorf("listen tcp %s: %w", addr, err)
	}
	l := &TCPListener{Name: name, Addr: ln.Addr().String(), ln: ln, n: n}
	n.onClose(func() { ln.Close() })
	go func() {
		for {
			c, err := ln.Accept()
			if err != nil {
				return
			}
			c.(*net.TCPConn).SetNoDelay(true)
			t := n.newConnObj(name, c)
			t.slow = &l.slow
			l.mu.Lock()
			if l.small {
				c.(*net.TCPConn).SetReadBuffer(8192)
			}
			l.conns = append(l.conns, t)
			l.mu.Unlock()
			n.mu.Lock()
			n.accepts[name]++
			n.cond.Broadcast()
			n.mu.Unlock()
			// only now may its first message be observed (ConnByID must find it)
			t.start()
		}
	}()
	return l, nil
}

// Conns returns the connections accepted so far.
func (l *TCPListener) Conns() []*TCPConn {
	l.mu.Lock()
	defer l.mu.Unlock()
	return append([]*TCPConn{}, l.conns...)
}

// ConnByID finds an accepted connection.
func (l *TCPListener) ConnByID(id int) *TCPConn {
	l.mu.Lock()
	defer l.mu.Unlock()
	for _, c := range l.conns {
		if c.ID == id {
			return c
		}
	}
	return nil
}

// Accepts returns how many connections endpoint name accepted.
func (n *Net) Accepts(name string) int { n.mu.Lock(); defer n.mu.Unlock(); return n.accepts[name] }

// Close stops listening.
func (l *TCPListener) Close() { l.ln.Close() }
