package wire

import (
	"fmt"
	"net"
	"os"
	"path/filepath"
	"regexp"
	"strings"
	"sync"
	"time"

	"vf/sip"
)

// Svc is one service of the standard world with its driver-side endpoints.
type Svc struct {
	*Service
	IP       string // listener address
	UDP, TCP int    // listener ports
	Keep     bool
	MustRR   bool
	NoRecv   bool // no-received: true
	HasDef   bool // static route table has a default entry
	BeUDP    []*UDPEndpoint
	BeTCP    []*TCPListener
	names    []string
	pats     []*regexp.Regexp
}

// Hop is one next hop: UDP sockets and TCP listeners on two ports.
type Hop struct {
	IP   string
	Name string // host-table name
	UDP  map[int]*UDPEndpoint
	TCP  map[int]*TCPListener
}

// UA is one user agent address.
type UA struct {
	Index int
	IP    string
	Name  string
	UDP   *UDPEndpoint // bound to ip:5060
	mu    sync.Mutex
	conns map[string]*TCPConn // per destination listener
}

// World is the standard wire configuration: proxy process + all peers.
type World struct {
	Plan     Plan
	Net      *Net
	Cfg      *Config
	Proxy    *Proxy
	Svcs     []*Svc
	Hops     []*Hop
	UAs      []*UA
	Sentinel *UDPEndpoint
	Dir      string
	Bin      string
	barrier  int
	// BarrierWait is the watchdog of one barrier.
	BarrierWait time.Duration
	// Barriers counts completed barriers, BarrierMisses those that timed out.
	Barriers, BarrierMisses int
	ExtraEnv                []string
	// EgressReady: the egress monitor runs and had caught up with the proxy at the last barrier
	EgressReady bool
}

// Opts selects the shape of the standard world.
type Opts struct {
	Services      int // number of services (bits: 1 keep-next-hop, 2 must-record-route, 4 no-received, 8 default route)
	DialogTimeout int
	Backends      int // UDP backends per service (plus one TCP backend when TCPBackend)
	TCPBackend    bool
	UAs           int
	Hops          int
	// Mutate lets a check adjust the configuration before the proxy starts.
	Mutate func(*Config, Plan)
	// PreStart runs after every driver endpoint is bound and before the proxy is
	// started (e.g. to replace backend addresses by host names and start a DNS server).
	PreStart func(*World) error
}

// AliasName returns the host-table alias of service s's listener. Some are written
// with capital letters: an alias is used in Route entries exactly as configured.
func AliasName(s int) string {
	if s%3 == 1 {
		return fmt.Sprintf("Alias%d.Verif.TEST", s)
	}
	return fmt.Sprintf("alias%d.verif.test", s)
}

// ServiceNames returns the `name:` value of service s.
func ServiceNames(s int) string {
	// the last two names are good literals but not valid regular expressions
	return fmt.Sprintf("svc%d.verif.test,bob@users%d.verif.test,^rx%d-[a-z]+@regex\\.verif\\.test$,urn:service:sos.s%d,^tel:\\+99%d[0-9]*$,*69@pbx%d.verif.test,+1800555%d@ims.verif.test", s, s, s, s, s, s, s)
}

// UAName / HopName: the host-table names of the user agents and next hops. Some are written
// with capital letters - the table is looked up with the name exactly as a Via, Route or
// static route spells it, and the driver always spells a name as the table does.
func UAName(i int) string {
	if i%2 == 0 {
		return fmt.Sprintf("Ua%d.Verif.test", i)
	}
	return fmt.Sprintf("ua%d.verif.test", i)
}

// SelfName and PeerName are defined in the host table of every service, with another address
// in each: the service's own listener and one of the next hops.
const (
	SelfName = "self.verif.test"
	PeerName = "peer.verif.test"
)

func HopName(i int) string {
	if i >= 4 && i%2 == 0 {
		return fmt.Sprintf("NH%d.verif.test", i)
	}
	return fmt.Sprintf("nh%d.verif.test", i)
}

// BuildConfig renders the standard configuration for plan p.
func BuildConfig(p Plan, o Opts) *Config {
	cfg := &Config{}
	for i := 1; i <= o.UAs; i++ {
		cfg.Hosts = append(cfg.Hosts, HostIP{UAName(i), p.UA(i)})
	}
	for i := 1; i <= o.Hops; i++ {
		cfg.Hosts = append(cfg.Hosts, HostIP{HopName(i), p.NextHop(i)})
	}
	cfg.Hosts = append(cfg.Hosts, HostIP{"sentinel.verif.test", p.Sentinel()})
	// the host that the regular-expression service names are about is also a machine: a next hop
	cfg.Hosts = append(cfg.Hosts, HostIP{"regex.verif.test", p.NextHop(1)})
	// the names every service defines for itself also stand in the global table, with other
	// addresses: the entry of the service counts
	cfg.Hosts = append(cfg.Hosts, HostIP{SelfName, p.Decoy(1)}, HostIP{PeerName, p.Decoy(2)})
	for s := 0; s < o.Services; s++ {
		cfg.Hosts = append(cfg.Hosts, HostIP{AliasName(s), p.Listener(s, 0)})
		cfg.Hosts = append(cfg.Hosts, HostIP{fmt.Sprintf("other%d.verif.test", s), p.Listener((s+1)%o.Services, 0)})
	}
	for s := 0; s < o.Services; s++ {
		svc := &Service{Index: s, Name: ServiceNames(s), DialogTimeout: o.DialogTimeout, KeepNextHopRoute: s&1 != 0}
		// names that every service defines for itself, each with another meaning
		nhops := o.Hops
		if nhops == 0 {
			nhops = 4
		}
		svc.Hosts = append(svc.Hosts, HostIP{SelfName, p.Listener(s, 0)}, HostIP{PeerName, p.NextHop(1 + s%nhops)})
		l := Listen{Address: p.Listener(s, 0), UDPPort: UDPPort, TCPPort: TCPPort, MustRecordRoute: s&2 != 0}
		if s%4 == 3 {
			l.TCPPort = UDPPort // both transports on 5060: "alias without port" designates them
		}
		if s&4 != 0 {
			t := true
			l.NoReceived = &t
		} else if s&8 != 0 {
			f := false
			l.NoReceived = &f // explicit false vs. omitted
		}
		for k := 1; k <= o.Backends; k++ {
			l.Backends = append(l.Backends, fmt.Sprintf("udp://%s:%d", p.Backend(s, k), BackendPort))
		}
		if o.TCPBackend {
			l.Backends = append(l.Backends, fmt.Sprintf("tcp://%s:%d", p.Backend(s, o.Backends+1), BackendPort))
		}
		svc.Listens = []Listen{l}
		svc.Routes = []Route{
			{Dests: []string{"exact.verif.test", "exact2.verif.test"}, Protocol: "udp", NextHop: fmt.Sprintf("%s:%d", p.NextHop(1), NextHopPortA)},
			{Dests: []string{"tcpx.verif.test"}, Protocol: "tcp", NextHop: fmt.Sprintf("nh2.verif.test:%d", NextHopPortB)},
			{Dests: []string{"*.wild.verif.test"}, Protocol: "udp", NextHop: "nh1.verif.test"},
			{Dests: []string{"*.wtcp.verif.test"}, Protocol: "tcp", NextHop: p.NextHop(2)},
			{Dests: []string{"tlsx.verif.test", "*.wtls.verif.test"}, Protocol: "tls", NextHop: fmt.Sprintf("%s:5061", p.NextHop(1))},
			// several wildcards in one pattern
			{Dests: []string{"*.*.*.multi.verif.test"}, Protocol: "udp", NextHop: fmt.Sprintf("%s:%d", p.NextHop(1), NextHopPortA)},
		}
		if s&8 != 0 {
			svc.Routes = append(svc.Routes, Route{Dests: []string{"default"}, Protocol: "udp", NextHop: fmt.Sprintf("nh3.verif.test:%d", NextHopPortB)})
		}
		cfg.Services = append(cfg.Services, svc)
	}
	if o.Mutate != nil {
		o.Mutate(cfg, p)
	}
	return cfg
}

// NewWorld binds every driver endpoint, starts the proxy and waits until every
// service relays the sentinel.
func NewWorld(bin, dir string, o Opts) (*World, error) {
	if o.Services == 0 {
		o.Services = 16
	}
	if o.Backends == 0 {
		o.Backends = 3
	}
	if o.UAs == 0 {
		o.UAs = 4
	}
	if o.Hops == 0 {
		o.Hops = 4
	}
	p := NewPlan()
	w := &World{Plan: p, Net: NewNet(), Dir: dir, Bin: bin, BarrierWait: 5 * time.Second}
	if os.Getenv("VF_IN_NS") == "1" && os.Getenv("VF_SNIFF") != "0" {
		// private network namespace: every packet on its loopback device belongs to this run
		w.Net.StartSniffer()
	}
	w.Cfg = BuildConfig(p, o)
	var err error
	if w.Sentinel, err = w.Net.UDP("sentinel", fmt.Sprintf("%s:%d", p.Sentinel(), SentinelUDP)); err != nil {
		return nil, err
	}
	for i := 1; i <= o.UAs; i++ {
		u := &UA{Index: i, IP: p.UA(i), Name: UAName(i), conns: map[string]*TCPConn{}}
		if u.UDP, err = w.Net.UDP(fmt.Sprintf("ua%d", i), fmt.Sprintf("%s:%d", u.IP, UDPPort)); err != nil {
			return nil, err
		}
		w.UAs = append(w.UAs, u)
	}
	for i := 1; i <= o.Hops; i++ {
		h := &Hop{IP: p.NextHop(i), Name: HopName(i), UDP: map[int]*UDPEndpoint{}, TCP: map[int]*TCPListener{}}
		for _, port := range []int{NextHopPortA, NextHopPortB} {
			if h.UDP[port], err = w.Net.UDP(fmt.Sprintf("nh%d:%d/udp", i, port), fmt.Sprintf("%s:%d", h.IP, port)); err != nil {
				return nil, err
			}
			if h.TCP[port], err = w.Net.Listen(fmt.Sprintf("nh%d:%d/tcp", i, port), fmt.Sprintf("%s:%d", h.IP, port)); err != nil {
				return nil, err
			}
		}
		w.Hops = append(w.Hops, h)
	}
	for _, s := range w.Cfg.Services {
		l := s.Listens[0]
		sv := &Svc{Service: s, IP: l.Address, UDP: l.UDPPort, TCP: l.TCPPort, Keep: s.KeepNextHopRoute, MustRR: l.MustRecordRoute,
			NoRecv: l.NoReceived != nil && *l.NoReceived}
		for _, r := range s.Routes {
			for _, d := range r.Dests {
				if d == "default" {
					sv.HasDef = true
				}
			}
		}
		for _, piece := range strings.Split(s.Name, ",") {
			piece = strings.TrimSpace(piece)
			sv.names = append(sv.names, piece)
			if re, err := regexp.Compile(piece); err == nil {
				sv.pats = append(sv.pats, re)
			}
		}
		for k, be := range l.Backends {
			addr := be[strings.Index(be, "://")+3:]
			if strings.HasPrefix(be, "udp://") {
				e, err := w.Net.UDP(fmt.Sprintf("be%d.%d/udp", s.Index, k+1), addr)
				if err != nil {
					return nil, err
				}
				sv.BeUDP = append(sv.BeUDP, e)
			} else {
				e, err := w.Net.Listen(fmt.Sprintf("be%d.%d/tcp", s.Index, k+1), addr)
				if err != nil {
					return nil, err
				}
				sv.BeTCP = append(sv.BeTCP, e)
			}
		}
		w.Svcs = append(w.Svcs, sv)
	}
	if o.PreStart != nil {
		if err := o.PreStart(w); err != nil {
			return nil, err
		}
	}
	if err := w.StartProxy(); err != nil {
		return nil, err
	}
	return w, nil
}

// StartProxy (re)starts the binary with the world's configuration.
func (w *World) StartProxy() error {
	if w.Proxy != nil {
		w.Proxy.Stop()
	}
	n := 0
	for {
		if _, err := os.Stat(filepath.Join(w.Dir, fmt.Sprintf("proxy%d", n))); err != nil {
			break
		}
		n++
	}
	var err error
	w.Proxy, err = StartProxy(w.Bin, filepath.Join(w.Dir, fmt.Sprintf("proxy%d", n)), w.Cfg, w.Plan.PprofPort(), w.ExtraEnv...)
	if err != nil {
		return err
	}
	return w.WaitReady(20 * time.Second)
}

// WaitReady sends sentinels through every service's UDP listener until each
// one has been relayed, and checks every TCP listener accepts.
func (w *World) WaitReady(bound time.Duration) error {
	deadline := time.Now().Add(bound)
	for _, sv := range w.Svcs {
		ok := false
		for time.Now().Before(deadline) && !ok {
			if !w.Proxy.Alive() {
				return fmt.Errorf("proxy exited during start-up: %s\n%s", w.Proxy.ExitInfo(), w.Proxy.Stderr(4000))
			}
			saved := w.BarrierWait
			w.BarrierWait = 150 * time.Millisecond
			ok = w.Barrier(Path{UA: 0, Svc: sv.Index, Proto: "udp"})
			w.BarrierWait = saved
			if !ok {
				w.BarrierMisses--
			}
		}
		if !ok {
			return fmt.Errorf("service %d never relayed the sentinel within %v\n%s", sv.Index, bound, w.Proxy.Stderr(4000))
		}
	}
	return nil
}

// Path names an ingress path: which UA sends to which service over which transport.
type Path struct {
	UA    int // index into World.UAs
	Svc   int
	Proto string // udp | tcp
}

// ListenerAddr returns the proxy address a path sends to.
func (w *World) ListenerAddr(p Path) string {
	sv := w.Svcs[p.Svc]
	if p.Proto == "tcp" {
		return fmt.Sprintf("%s:%d", sv.IP, sv.TCP)
	}
	return fmt.Sprintf("%s:%d", sv.IP, sv.UDP)
}

// Conn returns (dialling if needed) the UA's TCP connection to the service.
func (w *World) Conn(p Path) (*TCPConn, error) {
	u := w.UAs[p.UA]
	dst := w.ListenerAddr(p)
	u.mu.Lock()
	defer u.mu.Unlock()
	if c, ok := u.conns[dst]; ok && !c.EOF() {
		return c, nil
	}
	c, err := w.Net.Dial(fmt.Sprintf("ua%d/tcp", u.Index), u.IP+":0", dst)
	if err != nil {
		return nil, err
	}
	u.conns[dst] = c
	return c, nil
}

// DropConn forgets (and closes) the UA's cached connection for a path.
func (w *World) DropConn(p Path) {
	u := w.UAs[p.UA]
	dst := w.ListenerAddr(p)
	u.mu.Lock()
	if c, ok := u.conns[dst]; ok {
		c.Close(false)
		delete(u.conns, dst)
	}
	u.mu.Unlock()
}

// Send sends raw along the path.
func (w *World) Send(p Path, raw []byte, id string) error {
	if p.Proto == "tcp" {
		c, err := w.Conn(p)
		if err != nil {
			return err
		}
		return c.Send(raw, id)
	}
	return w.UAs[p.UA].UDP.Send(w.ListenerAddr(p), raw, id)
}

// SentinelMsg builds the barrier request for a path.
func (w *World) SentinelMsg(p Path, id string) []byte {
	u := w.UAs[p.UA]
	return []byte(fmt.Sprintf("OPTIONS sip:sentinel@sentinel.verif.test SIP/2.0\r\nVia: SIP/2.0/%s %s:%d;branch=z9hG4bKvf%s\r\nRoute: <sip:%s:%d;lr>\r\nMax-Forwards: 70\r\nFrom: <sip:barrier@%s>;tag=b\r\nTo: <sip:sentinel@sentinel.verif.test>\r\nCall-ID: %s@vf\r\nCSeq: 1 OPTIONS\r\nX-Vf: %s\r\nContent-Length: 0\r\n\r\n",
		strings.ToUpper(p.Proto), u.IP, UDPPort, id, w.Plan.Sentinel(), SentinelUDP, u.IP, id, id))
}

// Barrier sends a sentinel through the same ingress path and waits until it
// has been relayed to the sentinel sink, then drains every driver socket. It
// returns false when the sentinel did not arrive within BarrierWait.
func (w *World) Barrier(p Path) bool {
	w.barrier++
	id := fmt.Sprintf("b%d", w.barrier)
	if err := w.Send(p, w.SentinelMsg(p, id), id); err != nil {
		w.BarrierMisses++
		return false
	}
	_, ok := w.Net.WaitCase(id, func(o []*Obs) bool { return len(o) > 0 }, w.BarrierWait)
	w.Net.Forget(id)
	if !ok {
		w.BarrierMisses++
		return false
	}
	w.Barriers++
	w.Net.Drain()
	w.EgressReady = false
	if w.Net.Sniffing() {
		// the egress monitor sees packets in the order they were sent: once it has the relayed
		// sentinel, it has everything the proxy sent before
		sent := w.Plan.Sentinel()
		w.EgressReady = w.Net.WaitEgress(id, func(e *Egress) bool { return e.DstIP == sent }, 2*time.Second)
	}
	return true
}

// FromProxy reports whether a packet was sent by the proxy process (every driver socket is
// bound to an address of a driver role; the proxy sends from its listener addresses or,
// for sockets it did not bind to an address, from 127.0.0.1).
func (w *World) FromProxy(e *Egress) bool {
	if e.SrcIP == "127.0.0.1" {
		return true
	}
	ip := net.ParseIP(e.SrcIP).To4()
	return ip != nil && ip[0] == 127 && int(ip[1]) == w.Plan.B && ip[2] < 32
}

// ToProxy reports whether a packet is addressed to one of the proxy's listener addresses.
func (w *World) ToProxy(e *Egress) bool {
	ip := net.ParseIP(e.DstIP).To4()
	return ip != nil && ip[0] == 127 && int(ip[1]) == w.Plan.B && ip[2] < 32
}

// IsBarrierID reports whether a case id belongs to a barrier.
func IsBarrierID(id string) bool { return len(id) > 1 && id[0] == 'b' && id[1] >= '0' && id[1] <= '9' }

// MatchesService reports whether a Request-URI designates service sv by name
// (literal or regexp) - the model's own evaluation of rule (3).
func (sv *Svc) MatchesService(ruri string) bool {
	if strings.HasPrefix(ruri, "sip:") || strings.HasPrefix(ruri, "sips:") {
		rest := ruri[strings.IndexByte(ruri, ':')+1:]
		if i := strings.IndexAny(rest, ";?"); i >= 0 {
			rest = rest[:i]
		}
		user, host := "", rest
		if i := strings.IndexByte(rest, '@'); i >= 0 {
			user, host = rest[:i], rest[i+1:]
			if j := strings.IndexByte(user, ':'); j >= 0 {
				user = user[:j]
			}
		}
		if j := strings.IndexByte(host, ':'); j >= 0 {
			host = host[:j]
		}
		for _, n := range sv.names {
			if i := strings.IndexByte(n, '@'); i < 0 {
				if host == n {
					return true
				}
			} else if host == n[i+1:] && user == n[:i] {
				return true
			}
		}
		uh := user + "@" + host
		for _, re := range sv.pats {
			if re.MatchString(uh) {
				return true
			}
		}
		return false
	}
	for _, n := range sv.names {
		if ruri == n {
			return true
		}
	}
	for _, re := range sv.pats {
		if re.MatchString(ruri) {
			return true
		}
	}
	return false
}

// BackendEndpointNames returns the endpoint names of the service's backends.
func (sv *Svc) BackendEndpointNames() map[string]bool {
	r := map[string]bool{}
	for _, e := range sv.BeUDP {
		r[e.Name] = true
	}
	for _, e := range sv.BeTCP {
		r[e.Name] = true
	}
	return r
}

// Observable reports whether the driver owns a socket at proto ip:port, i.e.
// whether a message sent there can be seen at all.
func (w *World) Observable(proto, ip string, port int) bool {
	addr := fmt.Sprintf("%s:%d", ip, port)
	if proto == "udp" {
		if w.Sentinel.Addr == addr {
			return true
		}
		for _, u := range w.UAs {
			if u.UDP.Addr == addr {
				return true
			}
		}
		for _, h := range w.Hops {
			for _, e := range h.UDP {
				if e.Addr == addr {
					return true
				}
			}
		}
		for _, sv := range w.Svcs {
			for _, e := range sv.BeUDP {
				if e.Addr == addr {
					return true
				}
			}
		}
		return false
	}
	for _, h := range w.Hops {
		for _, e := range h.TCP {
			if e.Addr == addr {
				return true
			}
		}
	}
	for _, sv := range w.Svcs {
		for _, e := range sv.BeTCP {
			if e.Addr == addr {
				return true
			}
		}
	}
	return false
}

// Close stops the proxy and closes all sockets.
func (w *World) Close() {
	if w.Proxy != nil {
		w.Proxy.Stop()
	}
	w.Net.Close()
}

// Health returns a non-empty description when the proxy process is gone or
// has written a panic / fatal error.
func (w *World) Health() string {
	if !w.Proxy.Alive() {
		return "proxy process exited: " + w.Proxy.ExitInfo() + "\n" + w.Proxy.StderrHead(3000)
	}
	if w.Proxy.Crashed() {
		return "proxy wrote a panic/fatal error:\n" + w.Proxy.StderrHead(3000)
	}
	return ""
}

// StdRequest builds a plain request skeleton for a case.
func StdRequest(id, method, ruri, viaProto, viaHost string, viaPort int) *sip.Msg {
	via := fmt.Sprintf("SIP/2.0/%s %s", strings.ToUpper(viaProto), viaHost)
	if viaPort > 0 {
		via += fmt.Sprintf(":%d", viaPort)
	}
	via += ";branch=z9hG4bKvf" + id
	return &sip.Msg{Start: method + " " + ruri + " SIP/2.0", Headers: []sip.Header{
		{Name: "Via", Value: via},
		{Name: "Max-Forwards", Value: "70"},
		{Name: "From", Value: "<sip:alice@ua.verif.test>;tag=f" + id},
		{Name: "To", Value: "<sip:nobody@nowhere.invalid>"},
		{Name: "Call-ID", Value: id + "@vf"},
		{Name: "CSeq", Value: "1 " + method},
		{Name: "X-Vf", Value: id},
		{Name: "Content-Length", Value: "0"},
	}}
}

// SetHeader replaces the first header denoting canon or appends it.
func SetHeader(m *sip.Msg, name, value string) {
	for i, h := range m.Headers {
		if sip.Is(h.Name, sip.Canon(name)) {
			m.Headers[i].Value = value
			return
		}
	}
	m.Headers = append(m.Headers, sip.Header{Name: name, Value: value})
}

// InsertBefore inserts header h before the first header denoting canon (or at the end).
func InsertBefore(m *sip.Msg, canon string, h ...sip.Header) {
	for i, x := range m.Headers {
		if sip.Is(x.Name, canon) {
			hs := append([]sip.Header{}, m.Headers[:i]...)
			hs = append(hs, h...)
			m.Headers = append(hs, m.Headers[i:]...)
			return
		}
	}
	m.Headers = append(m.Headers, h...)
}

// WithBody sets the body and the Content-Length header.
func WithBody(m *sip.Msg, body []byte) {
	m.Body = body
	SetHeader(m, "Content-Length", fmt.Sprint(len(body)))
}
