// Package wire drives the real proxy binary over loopback sockets and records
// everything that enters and leaves it. It names no identifier of the
// repository: only the YAML format, the command line and the wire behaviour.
package wire

import (
	"fmt"
	"os"
	"strconv"
	"strings"
)

// Plan is the address plan of one run: everything lives in 127.<B>.0.0/16.
type Plan struct{ B int }

// NewPlan picks B: fixed inside a private namespace, VF_SLOT-derived otherwise.
func NewPlan() Plan {
	b := 10
	if s := os.Getenv("VF_SLOT"); s != "" {
		if n, err := strconv.Atoi(s); err == nil && n >= 0 && n < 200 {
			b = 20 + n
		}
	}
	return Plan{B: b}
}

func (p Plan) ip(role, x int) string { return fmt.Sprintf("127.%d.%d.%d", p.B, role, x) }

// Listener returns the address of listener l of service s.
func (p Plan) Listener(s, l int) string { return p.ip(s, l+1) }

// UA returns the address of user agent i (1-based).
func (p Plan) UA(i int) string { return p.ip(100, i) }

// NextHop returns the address of next hop i (1-based).
func (p Plan) NextHop(i int) string { return p.ip(101, i) }

// Backend returns the address of backend k (1-based) of service s.
func (p Plan) Backend(s, k int) string { return p.ip(128+s, k) }

// Sentinel returns the sentinel sink address.
func (p Plan) Sentinel() string { return p.ip(109, 9) }

// Decoy returns an address nobody legitimate uses (for spoofed received etc.).
func (p Plan) Decoy(i int) string { return p.ip(110, i) }

// PprofPort returns the profiling port of this run.
func (p Plan) PprofPort() int { return 9100 + p.B }

const (
	// UDPPort and TCPPort are the default listener ports.
	UDPPort      = 5060
	TCPPort      = 5070
	BackendPort  = 7000
	SentinelUDP  = 9999
	SentinelTCP  = 9998
	NextHopPortA = 5060
	NextHopPortB = 6001
)

// Listen is one `listens:` entry.
type Listen struct {
	Address         string
	UDPPort         int
	TCPPort         int
	Backends        []string // udp://ip:port, tcp://ip:port, udp://name:port
	NoReceived      *bool    // nil = omitted
	MustRecordRoute bool
}

// Route is one static route block.
type Route struct {
	Dests    []string
	Protocol string
	NextHop  string
}

// HostIP is one host table entry.
type HostIP struct{ Name, IP string }

// Service is one `proxies:` entry.
type Service struct {
	Index            int
	Name             string // comma separated literals / regexps
	DialogTimeout    int
	KeepNextHopRoute bool
	Listens          []Listen
	Routes           []Route
	Hosts            []HostIP
}

// Config is the whole YAML document.
type Config struct {
	Services []*Service
	Hosts    []HostIP
}

func yq(s string) string { return "'" + strings.ReplaceAll(s, "'", "''") + "'" }

// YAML renders the configuration in the format the binary reads.
func (c *Config) YAML() string {
	var b strings.Builder
	b.WriteString("admin:\n  addr: \"\"\nproxies:\n")
	for _, s := range c.Services {
		fmt.Fprintf(&b, "- name: %s\n", yq(s.Name))
		if s.DialogTimeout > 0 {
			fmt.Fprintf(&b, "  dialogTimeout: %d\n", s.DialogTimeout)
		}
		// every spelling the configuration accepts for on / off
		on := []string{"true", "yes", "1", "on", "t", "y", "True", "YES", "On"}
		off := []string{"false", "no", "0", "off", "n", "False"}
		if s.KeepNextHopRoute {
			fmt.Fprintf(&b, "  keepNextHopRoute: %q\n", on[s.Index%len(on)])
		} else if s.Index%4 == 2 {
			// not mentioned at all: off is the default, whatever the services before it say
		} else {
			fmt.Fprintf(&b, "  keepNextHopRoute: %q\n", off[s.Index%len(off)])
		}
		b.WriteString("  listens:\n")
		for _, l := range s.Listens {
			fmt.Fprintf(&b, "  - address: %s\n", l.Address)
			if l.UDPPort > 0 {
				fmt.Fprintf(&b, "    udp-port: %d\n", l.UDPPort)
			}
			if l.TCPPort > 0 {
				fmt.Fprintf(&b, "    tcp-port: %d\n", l.TCPPort)
			}
			fmt.Fprintf(&b, "    backend-local-address: %s\n", l.Address)
			if l.NoReceived != nil {
				fmt.Fprintf(&b, "    no-received: %v\n", *l.NoReceived)
			}
			if l.MustRecordRoute {
				b.WriteString("    must-record-route: true\n")
			}
			if len(l.Backends) > 0 {
				b.WriteString("    backends:\n")
				for _, be := range l.Backends {
					fmt.Fprintf(&b, "    - %s\n", be)
				}
			}
		}
		if len(s.Routes) > 0 {
			b.WriteString("  route:\n")
			for _, r := range s.Routes {
				b.WriteString("  - dests:\n")
				for _, d := range r.Dests {
					fmt.Fprintf(&b, "    - %s\n", yq(d))
				}
				fmt.Fprintf(&b, "    protocol: %s\n    nexthop: %s\n", r.Protocol, yq(r.NextHop))
			}
		}
		if len(s.Hosts) > 0 {
			b.WriteString("  hosts:\n")
			for _, h := range s.Hosts {
				fmt.Fprintf(&b, "  - name: %s\n    ip: %s\n", h.Name, h.IP)
			}
		}
	}
	if len(c.Hosts) > 0 {
		b.WriteString("hosts:\n")
		for _, h := range c.Hosts {
			fmt.Fprintf(&b, "- name: %s\n  ip: %s\n", h.Name, h.IP)
		}
	}
	return b.String()
}

// Lookup resolves a host through the configured tables (service first is not
// needed: the binary merges both, the service table overriding).
func (c *Config) Lookup(s *Service, host string) (string, bool) {
	if s != nil {
		for _, h := range s.Hosts {
			if h.Name == host {
				return h.IP, true
			}
		}
	}
	for _, h := range c.Hosts {
		if h.Name == host {
			return h.IP, true
		}
	}
	return "", false
}
