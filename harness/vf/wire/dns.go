package wire

import (
	"encoding/binary"
	"net"
	"strings"
	"sync"
	"time"
)

// FakeDNS answers A queries from a script: name -> addresses, or NXDOMAIN when
// the name's current answer is nil. AAAA queries get an empty NOERROR answer.
type FakeDNS struct {
	conn    *net.UDPConn
	mu      sync.Mutex
	answers map[string][]string // lower-case FQDN without trailing dot
	queries map[string]int      // A queries seen per name
	lastQ   map[string]time.Time
	rounds  map[string]int // distinct polling rounds per name (a repeat within 1 s is a retry)
	// scripts: per name the answer of polling round 1, 2, ... (an entry that is nil
	// means NXDOMAIN); the last entry repeats. A scripted name ignores Set.
	scripts map[string][][]string
	Log     []string
}

// Script installs the per-round answers of name.
func (d *FakeDNS) Script(name string, rounds [][]string) {
	d.mu.Lock()
	if d.scripts == nil {
		d.scripts = map[string][][]string{}
	}
	d.scripts[strings.ToLower(name)] = rounds
	d.mu.Unlock()
}

// StartFakeDNS binds addr (e.g. 127.0.0.1:53).
func StartFakeDNS(addr string) (*FakeDNS, error) {
	a, err := net.ResolveUDPAddr("udp", addr)
	if err != nil {
		return nil, err
	}
	c, err := net.ListenUDP("udp", a)
	if err != nil {
		return nil, err
	}
	d := &FakeDNS{conn: c, answers: map[string][]string{}, queries: map[string]int{}, lastQ: map[string]time.Time{}, rounds: map[string]int{}}
	go d.serve()
	return d, nil
}

// Set replaces the answer of name (nil = NXDOMAIN).
func (d *FakeDNS) Set(name string, ips []string) {
	d.mu.Lock()
	d.answers[strings.ToLower(name)] = ips
	d.mu.Unlock()
}

// Rounds returns how many polling rounds were seen for name.
func (d *FakeDNS) Rounds(name string) int {
	d.mu.Lock()
	defer d.mu.Unlock()
	return d.rounds[strings.ToLower(name)]
}

// Close stops the server.
func (d *FakeDNS) Close() { d.conn.Close() }

func (d *FakeDNS) serve() {
	buf := make([]byte, 1500)
	for {
		n, peer, err := d.conn.ReadFromUDP(buf)
		if err != nil {
			return
		}
		if n < 12 {
			continue
		}
		q := buf[:n]
		// parse the first question
		off := 12
		var labels []string
		for off < n && q[off] != 0 {
			l := int(q[off])
			if off+1+l > n {
				break
			}
			labels = append(labels, string(q[off+1:off+1+l]))
			off += 1 + l
		}
		if off+5 > n {
			continue
		}
		name := strings.ToLower(strings.Join(labels, "."))
		qtype := binary.BigEndian.Uint16(q[off+1:])
		qend := off + 5
		resp := make([]byte, 0, 512)
		resp = append(resp, q[0], q[1], 0x85, 0x80) // QR, AA, RD, RA
		resp = append(resp, 0, 1)                   // QDCOUNT
		d.mu.Lock()
		ips, known := d.answers[name]
		if qtype == 1 {
			d.queries[name]++
			if time.Since(d.lastQ[name]) > time.Second {
				d.rounds[name]++
			}
			d.lastQ[name] = time.Now()
		}
		if sc, ok := d.scripts[name]; ok && len(sc) > 0 {
			idx := d.rounds[name] - 1
			if idx < 0 {
				idx = 0
			}
			if idx >= len(sc) {
				idx = len(sc) - 1
			}
			ips, known = sc[idx], true
		}
		d.mu.Unlock()
		var answers [][]byte
		rcode := byte(0)
		switch {
		case !known || ips == nil:
			rcode = 3 // NXDOMAIN
		case qtype == 1:
			for _, ip := range ips {
				p := net.ParseIP(ip).To4()
				if p == nil {
					continue
				}
				rr := []byte{0xc0, 0x0c, 0, 1, 0, 1, 0, 0, 0, 0, 0, 4}
				rr = append(rr, p...)
				answers = append(answers, rr)
			}
		}
		resp[3] |= rcode
		resp = append(resp, byte(len(answers)>>8), byte(len(answers)), 0, 0, 0, 0)
		resp = append(resp, q[12:qend]...)
		for _, rr := range answers {
			resp = append(resp, rr...)
		}
		d.conn.WriteToUDP(resp, peer)
	}
}
