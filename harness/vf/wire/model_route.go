package wire

import (
	"fmt"
	"net"
	"strings"
)

// RouteEntry is the abstract value of one Route entry of a generated request.
type RouteEntry struct {
	Text      string // exact text of the entry as sent
	Host      string
	Port      int    // 0 = absent
	Transport string // "" = absent
}

// RReq is what the routing model needs to know about a request.
type RReq struct {
	Routes  []RouteEntry
	ToHost  string // host of the To URI ("" if To is not a SIP URI)
	RURI    string // Request-URI text
	RHost   string // host of a SIP Request-URI ("" otherwise)
	RPort   int    // explicit port of a SIP Request-URI (0 absent)
	RTransp string // transport parameter of a SIP Request-URI
}

// Dest is the model's answer.
type Dest struct {
	Drop    bool
	Why     string
	Rule    string // route | static | backend | none
	Proto   string // udp | tcp
	IP      string
	Port    int
	Backend bool // any backend socket of service Svc
	Svc     int
	Routes  []string // Route entries the relayed request must carry
	OwnPop  bool     // the first entry designated the receiving listener
	Hops    int      // how often the request re-entered the proxy
}

func (d Dest) String() string {
	if d.Drop {
		return "drop(" + d.Why + ")"
	}
	if d.Backend {
		return fmt.Sprintf("backend of service %d", d.Svc)
	}
	return fmt.Sprintf("%s %s:%d", d.Proto, d.IP, d.Port)
}

func (w *World) resolve(sv *Svc, host string) (string, bool) {
	if net.ParseIP(host) != nil {
		return host, true
	}
	return w.Cfg.Lookup(sv.Service, host)
}

func glob(pat, s string) bool {
	if pat == "" {
		return s == ""
	}
	if pat[0] == '*' {
		for i := 0; i <= len(s); i++ {
			if glob(pat[1:], s[i:]) {
				return true
			}
		}
		return false
	}
	return s != "" && pat[0] == s[0] && glob(pat[1:], s[1:])
}

// StaticRoutes returns the routes the reference lookup allows for host.
func (sv *Svc) StaticRoutes(host string) []Route {
	var wild []Route
	var def *Route
	for i, r := range sv.Routes {
		for _, d := range r.Dests {
			if d == host {
				return []Route{r}
			}
			if d == "default" {
				def = &sv.Routes[i]
			} else if strings.Contains(d, "*") && glob(d, host) {
				wild = append(wild, r)
			}
		}
	}
	if len(wild) > 0 {
		return wild
	}
	if def != nil {
		return []Route{*def}
	}
	return nil
}

func splitHostPort(nextHop, proto string) (string, int) {
	if i := strings.LastIndexByte(nextHop, ':'); i >= 0 {
		var p int
		fmt.Sscanf(nextHop[i+1:], "%d", &p)
		return nextHop[:i], p
	}
	if strings.EqualFold(proto, "tls") {
		return nextHop, 5061
	}
	return nextHop, 5060
}

// RouteModel computes where a request entering service svc over ingress
// transport proto must go and which Route entries it must carry there.
func (w *World) RouteModel(svc int, proto string, r RReq) Dest {
	return w.routeModel(svc, proto, r, 0)
}

func (w *World) routeModel(svc int, proto string, r RReq, depth int) Dest {
	sv := w.Svcs[svc]
	myPort := sv.UDP
	if proto == "tcp" {
		myPort = sv.TCP
	}
	routes := r.Routes
	own := false
	if len(routes) > 0 {
		e := routes[0]
		port := e.Port
		if port == 0 {
			port = 5060
			if e.Transport == "tls" {
				port = 5061
			}
		}
		if port == myPort {
			if e.Host == sv.IP {
				own = true
			} else if ip, ok := w.resolve(sv, e.Host); ok && ip == sv.IP {
				own = true
			}
		}
		if own {
			routes = routes[1:]
		}
	}
	texts := func(es []RouteEntry) []string {
		var t []string
		for _, e := range es {
			t = append(t, e.Text)
		}
		return t
	}
	finish := func(d Dest) Dest {
		d.OwnPop = d.OwnPop || own
		d.Svc = svc
		if d.Drop || d.Backend || depth >= 3 {
			return d
		}
		// does the destination designate a listener of the proxy itself?
		for _, t := range w.Svcs {
			lp := t.UDP
			if d.Proto == "tcp" {
				lp = t.TCP
			}
			if d.IP == t.IP && d.Port == lp {
				nr := r
				nr.Routes = nil
				for _, txt := range d.Routes {
					for _, e := range r.Routes {
						if e.Text == txt {
							nr.Routes = append(nr.Routes, e)
							break
						}
					}
				}
				nd := w.routeModel(t.Index, d.Proto, nr, depth+1)
				nd.Hops = nd.Hops + 1
				nd.OwnPop = nd.OwnPop || own
				return nd
			}
		}
		return d
	}
	if len(routes) > 0 {
		e := routes[0]
		tr := e.Transport
		if tr == "" {
			tr = "udp"
		}
		port := e.Port
		if port == 0 {
			port = 5060
			if tr == "tls" {
				port = 5061
			}
		}
		rest := routes
		if !sv.Keep {
			rest = routes[1:]
		}
		ltr := strings.ToLower(tr)
		if ltr != "udp" && ltr != "tcp" {
			return finish(Dest{Drop: true, Why: "next hop transport " + tr + " unsupported", Rule: "route"})
		}
		ip, ok := w.resolve(sv, e.Host)
		if !ok {
			return finish(Dest{Drop: true, Why: "next hop host unknown", Rule: "route"})
		}
		return finish(Dest{Rule: "route", Proto: ltr, IP: ip, Port: port, Routes: texts(rest)})
	}
	if r.ToHost != "" {
		if rs := sv.StaticRoutes(r.ToHost); len(rs) > 0 {
			rt := rs[0]
			host, port := splitHostPort(rt.NextHop, rt.Protocol)
			lp := strings.ToLower(rt.Protocol)
			if lp != "udp" && lp != "tcp" {
				return finish(Dest{Drop: true, Why: "static route protocol " + rt.Protocol + " unsupported", Rule: "static"})
			}
			ip, ok := w.resolve(sv, host)
			if !ok {
				return finish(Dest{Drop: true, Why: "static next hop unknown", Rule: "static"})
			}
			return finish(Dest{Rule: "static", Proto: lp, IP: ip, Port: port})
		}
	}
	if sv.MatchesService(r.RURI) {
		return finish(Dest{Rule: "backend", Backend: true})
	}
	if r.RHost != "" && r.RHost == sv.IP {
		port := r.RPort
		if port == 0 {
			port = 5060
			if r.RTransp == "tls" {
				port = 5061
			}
		}
		if port == myPort {
			return finish(Dest{Rule: "backend", Backend: true})
		}
	}
	return finish(Dest{Drop: true, Why: "matches no rule", Rule: "none"})
}
