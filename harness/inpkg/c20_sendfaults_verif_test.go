//go:build verif

package main

// C20 - sending under connection faults: exhaustive fault patterns with scripted
// net.Conn doubles as cached connections and real loopback listeners as dial
// targets; sinks record exactly what was written.

import (
	"bytes"
	"errors"
	"fmt"
	"io"
	"math/rand"
	"net"
	"os"
	"strconv"
	"sync"
	"sync/atomic"
	"syscall"
	"testing"
	"time"

	"vf/ev"
)

type c20Conn struct {
	mu             sync.Mutex
	failAt         int // fail on the k-th Write call; 0 = healthy
	partial        bool
	calls          int
	good           [][]byte
	failed, closed bool
	callsAfterDead int
	done           chan struct{}
}

var c20ErrCursor int64

func newC20Conn(failAt int, partial bool) *c20Conn {
	return &c20Conn{failAt: failAt, partial: partial, done: make(chan struct{})}
}
func (c *c20Conn) Read(b []byte) (int, error) { <-c.done; return 0, io.EOF }
func (c *c20Conn) Write(b []byte) (int, error) {
	c.mu.Lock()
	defer c.mu.Unlock()
	c.calls++
	if c.failed || c.closed {
		c.callsAfterDead++
		return 0, errors.New("write on dead connection")
	}
	if c.failAt > 0 && c.calls >= c.failAt {
		c.failed = true
		if c.partial {
			return len(b) / 2, errors.New("connection reset by peer (scripted, partial write)")
		}
		// the failure walks through the kinds of error a dead connection reports
		switch atomic.AddInt64(&c20ErrCursor, 1) % 5 {
		case 0:
			return 0, &net.OpError{Op: "write", Net: "tcp", Err: os.NewSyscallError("write", syscall.ETIMEDOUT)}
		case 1:
			return 0, &net.OpError{Op: "write", Net: "tcp", Err: os.NewSyscallError("write", syscall.EPIPE)}
		case 2:
			return 0, &net.OpError{Op: "write", Net: "tcp", Err: os.ErrDeadlineExceeded}
		case 3:
			return 0, &net.OpError{Op: "write", Net: "tcp", Err: os.NewSyscallError("write", syscall.ECONNRESET)}
		}
		return 0, errors.New("connection reset by peer (scripted)")
	}
	c.good = append(c.good, append([]byte{}, b...))
	return len(b), nil
}
func (c *c20Conn) Close() error {
	c.mu.Lock()
	defer c.mu.Unlock()
	if !c.closed {
		c.closed = true
		close(c.done)
	}
	return nil
}
func (c *c20Conn) LocalAddr() net.Addr                { return &net.TCPAddr{IP: net.IPv4(127, 0, 0, 1), Port: 5070} }
func (c *c20Conn) RemoteAddr() net.Addr               { return &net.TCPAddr{IP: net.IPv4(127, 0, 0, 1), Port: 40000} }
func (c *c20Conn) SetDeadline(t time.Time) error      { return nil }
func (c *c20Conn) SetReadDeadline(t time.Time) error  { return nil }
func (c *c20Conn) SetWriteDeadline(t time.Time) error { return nil }

// c20Sink is a real loopback listener. mode: "healthy" reads everything,
// "reset" accepts and resets at once, "first-then-reset" resets each accepted
// connection after it has carried one complete message of size msgLen.
type c20Sink struct {
	ln   net.Listener
	mode string
	mu   sync.Mutex
	bufs []*bytes.Buffer
	wg   sync.WaitGroup
}

func newC20Sink(mode string) (*c20Sink, error) { return newC20SinkAt(mode, 0) }

func newC20SinkAt(mode string, port int) (*c20Sink, error) {
	ln, err := net.Listen("tcp", net.JoinHostPort("127.0.0.1", strconv.Itoa(port)))
	if err != nil {
		return nil, err
	}
	s := &c20Sink{ln: ln, mode: mode}
	go func() {
		for {
			c, err := ln.Accept()
			if err != nil {
				return
			}
			s.mu.Lock()
			buf := &bytes.Buffer{}
			s.bufs = append(s.bufs, buf)
			s.mu.Unlock()
			if s.mode == "reset" {
				c.(*net.TCPConn).SetLinger(0)
				c.Close()
				continue
			}
			s.wg.Add(1)
			go func() {
				defer s.wg.Done()
				b := make([]byte, 65536)
				for {
					n, err := c.Read(b)
					s.mu.Lock()
					buf.Write(b[:n])
					s.mu.Unlock()
					if err != nil {
						return
					}
				}
			}()
		}
	}()
	return s, nil
}
func (s *c20Sink) port() int { return s.ln.Addr().(*net.TCPAddr).Port }
func (s *c20Sink) snapshot() [][]byte {
	s.mu.Lock()
	defer s.mu.Unlock()
	r := make([][]byte, len(s.bufs))
	for i, b := range s.bufs {
		r[i] = append([]byte{}, b.Bytes()...)
	}
	return r
}
func (s *c20Sink) close() { s.ln.Close() }

func c20FreePort() int {
	ln, _ := net.Listen("tcp", "127.0.0.1:0")
	p := ln.Addr().(*net.TCPAddr).Port
	ln.Close()
	return p
}

func c20Message(i int, size int, rnd *rand.Rand) (*Message, []byte) {
	body := make([]byte, size)
	for k := range body {
		body[k] = byte('a' + rnd.Intn(26))
	}
	text := fmt.Sprintf("MESSAGE sip:svc@example.com SIP/2.0\r\nVia: SIP/2.0/TCP 127.0.0.1:5070;branch=z9hG4bKc20m%d\r\nFrom: <sip:a@x>;tag=1\r\nTo: <sip:b@y>\r\nCall-ID: c20-%d-%d\r\nCSeq: %d MESSAGE\r\nContent-Length: %d\r\n\r\n", i, i, rnd.Int63(), i+1, size)
	m, err := vfParseTCP(append([]byte(text), body...))
	if err != nil {
		panic(err)
	}
	b, _ := m.Bytes()
	return m, b
}

type c20Config struct {
	Target     string `json:"target"`    // client | backend
	Inbound    string `json:"inbound"`   // absent | healthy | fail@k | fail@k-partial
	Reconnect  string `json:"reconnect"` // absent | fresh | stale-once | refusing | accept-reset | accept-closed
	Messages   int    `json:"messages"`
	Size       int    `json:"message_size"`
	inFailAt   int
	inPartial  bool
	hasInbound bool
	// Rereg: before every message after the first a new inbound connection is registered on the
	// same fail-over pair, the way the proxy does with every request that arrives over TCP (the
	// client has reconnected); that connection fails on its first write as well
	Rereg bool `json:"new_failing_inbound_connection_registered_before_each_later_message"`
	// Repeat: every message of the sequence is the same message, byte for byte (a retransmission
	// handed down by the layer above)
	Repeat bool `json:"the_same_message_every_time"`
	// WaitMs: time that passes between the creation of the transports and the first message
	WaitMs int `json:"idle_ms_before_first_message"`
}

// c20Run executes one configuration and returns a violation description or "".
func c20Run(cfg c20Config, rnd *rand.Rand) (why string, detail map[string]any) {
	var inbound *c20Conn
	if cfg.hasInbound {
		inbound = newC20Conn(cfg.inFailAt, cfg.inPartial)
	}
	var sink *c20Sink
	port := 0
	var stale *c20Conn
	switch cfg.Reconnect {
	case "fresh", "stale-once":
		sink, _ = newC20Sink("healthy")
		port = sink.port()
		if cfg.Reconnect == "stale-once" {
			stale = newC20Conn(1, false)
		}
	case "accept-reset":
		sink, _ = newC20Sink("reset")
		port = sink.port()
	case "accept-closed":
		// the destination accepts and resets, and the reset is noticed (by what the proxy starts on
		// every new connection) before the message is written: the new connection is already
		// closed on the proxy's side when the write comes. Deterministic: every write fails.
		sink, _ = newC20Sink("healthy")
		port = sink.port()
	case "refusing", "refusing-then-fresh":
		// refusing-then-fresh: nobody listens while message 0 is sent; from message 1 on a healthy
		// destination listens on that very port (the peer has come back)
		port = c20FreePort()
	}
	defer func() {
		if sink != nil {
			sink.close()
		}
	}()
	established := 0
	var estMu sync.Mutex
	onEst := func(c net.Conn) {
		estMu.Lock()
		established++
		estMu.Unlock()
		if cfg.Reconnect == "accept-closed" {
			c.Close()
		}
	}
	var send func(m *Message) error
	var fct *FailOverClientTransport
	if cfg.Target == "client" {
		var primary, secondary ClientTransport
		if inbound != nil {
			p, _ := NewTCPClientTransportWithConn(inbound)
			primary = p
		}
		if cfg.Reconnect != "absent" {
			s, _ := NewTCPClientTransport("127.0.0.1", port, "127.0.0.1", onEst)
			if stale != nil {
				s.conn = stale
			}
			secondary = s
		}
		fct = NewFailOverClientTransport(primary, secondary)
		send = fct.Send
	} else {
		be, _ := NewTCPBackend("127.0.0.1:0", net.JoinHostPort("127.0.0.1", strconv.Itoa(port)), onEst)
		if inbound != nil {
			be.conn = inbound
		}
		send = be.Send
	}
	type res struct {
		err      error
		panicked string
		hung     bool
	}
	if cfg.WaitMs > 0 {
		time.Sleep(time.Duration(cfg.WaitMs) * time.Millisecond)
	}
	results := make([]res, cfg.Messages)
	wire := make([][]byte, cfg.Messages)
	var firstMsg *Message
	for i := 0; i < cfg.Messages; i++ {
		m, b := c20Message(i, cfg.Size, rnd)
		if cfg.Repeat && i > 0 {
			m, b = firstMsg, wire[0]
		}
		if i == 0 {
			firstMsg = m
		}
		wire[i] = b
		if cfg.Reconnect == "refusing-then-fresh" && i == 1 {
			var lerr error
			if sink, lerr = newC20SinkAt("healthy", port); lerr != nil {
				return "", map[string]any{"inconclusive": "the port could not be listened on: " + lerr.Error()}
			}
		}
		if cfg.Rereg && i > 0 && fct != nil {
			p, _ := NewTCPClientTransportWithConn(newC20Conn(1, false))
			fct.primary = p
		}
		done := make(chan res, 1)
		go func() {
			var r res
			r.panicked = vfRecover("Send", func() { r.err = send(m) })
			done <- r
		}()
		select {
		case results[i] = <-done:
		case <-time.After(20 * time.Second):
			results[i].hung = true
		}
		if results[i].hung {
			return "send did not return within 20 s", map[string]any{"message_index": i}
		}
		if results[i].panicked != "" {
			return results[i].panicked, map[string]any{"message_index": i}
		}
	}
	detail = map[string]any{}
	errs := make([]string, cfg.Messages)
	for i, r := range results {
		if r.err != nil {
			errs[i] = r.err.Error()
		}
	}
	detail["send_results"] = errs
	// wait (bounded) until the real sink has everything that must be there
	count := func(hay [][]byte, needle []byte) int {
		n := 0
		for _, h := range hay {
			n += bytes.Count(h, needle)
		}
		return n
	}
	inboundGood := func() [][]byte {
		if inbound == nil {
			return nil
		}
		inbound.mu.Lock()
		defer inbound.mu.Unlock()
		return append([][]byte{}, inbound.good...)
	}
	staleGood := func() [][]byte {
		if stale == nil {
			return nil
		}
		stale.mu.Lock()
		defer stale.mu.Unlock()
		return append([][]byte{}, stale.good...)
	}
	deadline := time.Now().Add(5 * time.Second)
	var sinkBufs [][]byte
	for {
		sinkBufs = nil
		if sink != nil {
			sinkBufs = sink.snapshot()
		}
		missing := false
		if cfg.Repeat {
			okSends := 0
			for _, r := range results {
				if r.err == nil {
					okSends++
				}
			}
			missing = count(sinkBufs, wire[0])+count(inboundGood(), wire[0])+count(staleGood(), wire[0]) < okSends
		}
		for i, r := range results {
			if cfg.Repeat {
				break
			}
			if r.err == nil && cfg.Reconnect != "accept-reset" {
				if count(sinkBufs, wire[i])+count(inboundGood(), wire[i])+count(staleGood(), wire[i]) < 1 {
					missing = true
				}
			}
		}
		if !missing || time.Now().After(deadline) {
			break
		}
		time.Sleep(2 * time.Millisecond)
	}
	detail["connections_accepted_by_destination"] = len(sinkBufs)
	if cfg.Repeat {
		// a working path exists for every send of these configurations: every send succeeds and
		// every copy is written exactly once
		copies := count(sinkBufs, wire[0]) + count(inboundGood(), wire[0]) + count(staleGood(), wire[0])
		for i, r := range results {
			if r.err != nil {
				return fmt.Sprintf("send %d of the repeated message failed (%v) although a working path existed", i, r.err), detail
			}
		}
		if copies != cfg.Messages {
			return fmt.Sprintf("the same message was sent %d times, every send reported success, %d copies were written", cfg.Messages, copies), detail
		}
		return "", detail
	}
	inboundAlive := func(i int) bool { // was the inbound connection usable when message i was sent?
		if cfg.Rereg && i > 0 {
			return false
		}
		return cfg.hasInbound && (cfg.inFailAt == 0 || i+1 < cfg.inFailAt)
	}
	for i, r := range results {
		total := count(sinkBufs, wire[i]) + count(inboundGood(), wire[i]) + count(staleGood(), wire[i])
		freshPossible := cfg.Reconnect == "fresh" || cfg.Reconnect == "stale-once" || (cfg.Reconnect == "refusing-then-fresh" && i >= 1)
		switch {
		case cfg.Reconnect == "accept-reset" && !inboundAlive(i):
			// don't-care: a write into a connection that is being reset may or may not succeed
			if total > 1 {
				return fmt.Sprintf("message %d delivered %d times", i, total), detail
			}
		case r.err == nil && total != 1:
			return fmt.Sprintf("send %d reported success but the message is on %d sinks/times", i, total), detail
		case r.err != nil && total != 0:
			return fmt.Sprintf("send %d reported an error but the whole message was delivered %d times", i, total), detail
		case r.err != nil && (inboundAlive(i) || freshPossible):
			return fmt.Sprintf("send %d failed (%v) although a working path existed", i, r.err), detail
		}
	}
	// later messages go straight to the working path
	if inbound != nil {
		inbound.mu.Lock()
		dead := inbound.callsAfterDead
		inbound.mu.Unlock()
		if dead > 0 {
			return fmt.Sprintf("the failed cached connection was written to %d more times", dead), detail
		}
	}
	if stale != nil {
		stale.mu.Lock()
		dead := stale.callsAfterDead
		stale.mu.Unlock()
		if dead > 0 {
			return fmt.Sprintf("the failed stale connection was written to %d more times", dead), detail
		}
	}
	if (cfg.Reconnect == "fresh" || cfg.Reconnect == "stale-once" || cfg.Reconnect == "refusing-then-fresh") && len(sinkBufs) > 1 {
		return fmt.Sprintf("%d connections were opened to a healthy destination (at most one is needed)", len(sinkBufs)), detail
	}
	if cfg.Reconnect == "fresh" || cfg.Reconnect == "stale-once" || cfg.Reconnect == "refusing-then-fresh" {
		// whatever reached the destination must be exactly the concatenation of
		// the messages that were not taken by the inbound connection, in order
		var want []byte
		for i := range results {
			if count(inboundGood(), wire[i]) == 0 && count(staleGood(), wire[i]) == 0 && results[i].err == nil {
				want = append(want, wire[i]...)
			}
		}
		var got []byte
		for _, b := range sinkBufs {
			got = append(got, b...)
		}
		if !bytes.Equal(got, want) {
			return fmt.Sprintf("destination received %d bytes, expected exactly the %d bytes of the messages sent there", len(got), len(want)), detail
		}
	}
	return "", detail
}

// c20RealSink is a loopback listener that keeps the connections it accepted, so that it can
// close or reset them on demand; every byte is recorded per connection.
type c20RealSink struct {
	ln    net.Listener
	mu    sync.Mutex
	bufs  []*bytes.Buffer
	conns []net.Conn
}

func newC20RealSink() (*c20RealSink, error) {
	ln, err := net.Listen("tcp", "127.0.0.1:0")
	if err != nil {
		return nil, err
	}
	s := &c20RealSink{ln: ln}
	go func() {
		for {
			c, err := ln.Accept()
			if err != nil {
				return
			}
			buf := &bytes.Buffer{}
			s.mu.Lock()
			s.bufs = append(s.bufs, buf)
			s.conns = append(s.conns, c)
			s.mu.Unlock()
			go func() {
				defer c.Close()
				b := make([]byte, 65536)
				for {
					n, err := c.Read(b)
					s.mu.Lock()
					buf.Write(b[:n])
					s.mu.Unlock()
					if err != nil {
						return
					}
				}
			}()
		}
	}()
	return s, nil
}

func (s *c20RealSink) addr() string { return s.ln.Addr().String() }
func (s *c20RealSink) snapshot() [][]byte {
	s.mu.Lock()
	defer s.mu.Unlock()
	r := make([][]byte, len(s.bufs))
	for i, b := range s.bufs {
		r[i] = append([]byte{}, b.Bytes()...)
	}
	return r
}
func (s *c20RealSink) dropConns(reset bool) {
	s.mu.Lock()
	cs := append([]net.Conn{}, s.conns...)
	s.mu.Unlock()
	for _, c := range cs {
		if reset {
			c.(*net.TCPConn).SetLinger(0)
		}
		c.Close()
	}
}
func (s *c20RealSink) close() { s.ln.Close(); s.dropConns(false) }

// c20LocalPortRun: two TCP backends of one listener (one configured local address for both,
// with or without a fixed local port), real sockets throughout. Message 0 goes to backend A,
// message 1 to backend B; then A's cached connection goes stale for the given cause; messages
// 2 and 3 go to A. Every send must succeed (a healthy destination is listening all the time),
// each message must be on exactly one connection of its destination, message 3 must use the
// connection message 2 opened.
func c20LocalPortRun(cause string, fixed bool, rnd *rand.Rand) (why string, detail map[string]any) {
	sa, err := newC20RealSink()
	if err != nil {
		return "", nil
	}
	defer sa.close()
	sb, err := newC20RealSink()
	if err != nil {
		return "", nil
	}
	defer sb.close()
	local := "127.0.0.1:0"
	if fixed {
		local = net.JoinHostPort("127.0.0.1", strconv.Itoa(c20FreePort()))
	}
	// what the proxy starts on every connection it opens: a reader that closes the connection
	// when the peer has closed or reset it
	var rmu sync.Mutex
	readersDone := 0
	onEst := func(c net.Conn) {
		go func() {
			b := make([]byte, 4096)
			for {
				if _, err := c.Read(b); err != nil {
					c.Close()
					rmu.Lock()
					readersDone++
					rmu.Unlock()
					return
				}
			}
		}()
	}
	beA, _ := NewTCPBackend(local, sa.addr(), onEst)
	beB, _ := NewTCPBackend(local, sb.addr(), onEst)
	detail = map[string]any{"configured_local_address_of_the_backends": local}
	wire := make([][]byte, 4)
	msgs := make([]*Message, 4)
	for i := range msgs {
		msgs[i], wire[i] = c20Message(i, 200, rnd)
	}
	errs := make([]string, 4)
	send := func(i int, be *TCPBackend) string {
		done := make(chan error, 1)
		var pan string
		go func() {
			var e error
			pan = vfRecover("Send", func() { e = be.Send(msgs[i]) })
			done <- e
		}()
		select {
		case e := <-done:
			if pan != "" {
				return pan
			}
			if e != nil {
				errs[i] = e.Error()
			}
		case <-time.After(20 * time.Second):
			return fmt.Sprintf("send %d did not return within 20 s", i)
		}
		return ""
	}
	waitFor := func(s *c20RealSink, want [][]byte) [][]byte {
		deadline := time.Now().Add(5 * time.Second)
		for {
			got := s.snapshot()
			ok := len(got) >= len(want)
			for i := 0; ok && i < len(want); i++ {
				ok = len(got[i]) >= len(want[i])
			}
			if ok || time.Now().After(deadline) {
				return got
			}
			time.Sleep(time.Millisecond)
		}
	}
	if w := send(0, beA); w != "" {
		return w, detail
	}
	if w := send(1, beB); w != "" {
		return w, detail
	}
	waitFor(sa, [][]byte{wire[0]})
	waitFor(sb, [][]byte{wire[1]})
	switch cause {
	case "closed-by-proxy":
		beA.Close()
	case "closed-by-destination", "reset-by-destination":
		sa.dropConns(cause == "reset-by-destination")
		// until the proxy's reader on that connection has seen it
		deadline := time.Now().Add(5 * time.Second)
		for {
			rmu.Lock()
			d := readersDone
			rmu.Unlock()
			if d > 0 || time.Now().After(deadline) {
				break
			}
			time.Sleep(time.Millisecond)
		}
	}
	if w := send(2, beA); w != "" {
		return w, detail
	}
	if w := send(3, beA); w != "" {
		return w, detail
	}
	detail["send_results"] = errs
	wantA := [][]byte{wire[0], append(append([]byte{}, wire[2]...), wire[3]...)}
	wantB := [][]byte{wire[1]}
	gotA := waitFor(sa, wantA)
	gotB := waitFor(sb, wantB)
	detail["connections_accepted_by_destination_A"] = len(gotA)
	detail["connections_accepted_by_destination_B"] = len(gotB)
	for i, e := range errs {
		if e != "" {
			return fmt.Sprintf("send %d failed (%s) although its destination accepts connections", i, e), detail
		}
	}
	eq := func(got, want [][]byte) bool {
		if len(got) != len(want) {
			return false
		}
		for i := range got {
			if !bytes.Equal(got[i], want[i]) {
				return false
			}
		}
		return true
	}
	if !eq(gotA, wantA) {
		lens := []int{}
		for _, g := range gotA {
			lens = append(lens, len(g))
		}
		detail["bytes_per_connection_at_A"] = lens
		return "destination A did not receive message 0 on the first connection and messages 2, 3 on one fresh connection", detail
	}
	if !eq(gotB, wantB) {
		return "destination B did not receive exactly message 1 on one connection", detail
	}
	return "", detail
}

func TestVerifC20(t *testing.T) {
	run := ev.New("C20", "fault_enumeration",
		"every fault pattern {cached connection: absent, healthy, failing on write k (clean or after a partial write)} x {reconnectable path: absent, fresh, stale-once, refusing, accept-then-reset, accepted-but-closed-before-the-write} x 1-3 messages x message sizes, "+
			"for FailOverClientTransport over TCPClientTransport and for TCPBackend; sinks (scripted conns, real loopback listeners) record every byte; distinct = distinct fault patterns")
	rnd := rand.New(rand.NewSource(run.Seed))
	sizes := []int{0, 300, 70000}
	reps := ev.Pick(1, 12)
	if ev.Thorough() {
		sizes = []int{0, 1, 300, 4096, 70000, 1 << 20}
	}
	type inb struct {
		name    string
		has     bool
		failAt  int
		partial bool
	}
	inbs := []inb{{"absent", false, 0, false}, {"healthy", true, 0, false}}
	for k := 1; k <= 3; k++ {
		inbs = append(inbs, inb{fmt.Sprintf("fail@%d", k), true, k, false}, inb{fmt.Sprintf("fail@%d-partial", k), true, k, true})
	}
	n := 0
	for rep := 0; rep < reps; rep++ {
		for _, target := range []string{"client", "backend"} {
			for _, in := range inbs {
				for _, rc := range []string{"absent", "fresh", "stale-once", "refusing", "accept-reset", "accept-closed", "refusing-then-fresh"} {
					if target == "backend" && (rc == "absent" || rc == "stale-once") {
						continue // a TCP backend always has a dial target; its stale connection is the cached one
					}
					for msgs := 1; msgs <= 3; msgs++ {
						if in.failAt > msgs || (rc == "refusing-then-fresh" && msgs < 2) {
							continue
						}
						for _, size := range sizes {
							if run.Violations() > 5 {
								break
							}
							for _, rereg := range []bool{false, true} {
								if rereg && (target != "client" || msgs < 2 || rc == "accept-reset") {
									continue
								}
								cfg := c20Config{Target: target, Inbound: in.name, Reconnect: rc, Messages: msgs, Size: size,
									inFailAt: in.failAt, inPartial: in.partial, hasInbound: in.has, Rereg: rereg}
								why, detail := c20Run(cfg, rnd)
								if why == "" && detail != nil && detail["inconclusive"] != nil {
									run.Inconclusive(1)
								}
								if why != "" {
									// confirm once before reporting (real sockets are involved)
									why2, _ := c20Run(cfg, rnd)
									if why2 != "" {
										run.Violation(fmt.Sprintf("%s/%s/%s: %s", target, in.name, rc, why), map[string]any{"config": cfg, "why": why, "observed": detail})
									} else {
										run.Inconclusive(1)
									}
								}
								n++
								run.Eval(fmt.Sprintf("%s|%s|%s|%d|%d|rereg=%v", target, in.name, rc, msgs, size, rereg))
								if run.WantSample() && in.failAt == 2 && rc == "fresh" && msgs == 3 {
									run.Sample(map[string]any{"config": cfg, "observed": detail})
								}
							}
						}
					}
				}
			}
		}
	}
	// the same fault patterns after the transports have been idle for a while (what was set up
	// when a transport object was created must still hold when it is first needed)
	{
		var late []c20Config
		for _, target := range []string{"client", "backend"} {
			for _, in := range []inb{{"absent", false, 0, false}, {"fail@1", true, 1, false}, {"healthy", true, 0, false}} {
				for _, rc := range []string{"fresh", "stale-once"} {
					if target == "backend" && rc == "stale-once" {
						continue
					}
					late = append(late, c20Config{Target: target, Inbound: in.name, Reconnect: rc, Messages: 2, Size: sizes[0],
						inFailAt: in.failAt, inPartial: in.partial, hasInbound: in.has, WaitMs: 5600})
				}
			}
		}
		var lwg sync.WaitGroup
		for k, cfg := range late {
			lwg.Add(1)
			go func(k int, cfg c20Config) {
				defer lwg.Done()
				lr := rand.New(rand.NewSource(run.Seed*977 + int64(k)))
				if why, detail := c20Run(cfg, lr); why != "" {
					if why2, _ := c20Run(cfg, lr); why2 != "" {
						run.Violation(fmt.Sprintf("%s/%s/%s after %d ms of idleness: %s", cfg.Target, cfg.Inbound, cfg.Reconnect, cfg.WaitMs, why), map[string]any{"config": cfg, "why": why, "observed": detail})
					} else {
						run.Inconclusive(1)
					}
				}
				run.Eval(fmt.Sprintf("%s|%s|%s|idle%d", cfg.Target, cfg.Inbound, cfg.Reconnect, cfg.WaitMs))
			}(k, cfg)
		}
		lwg.Wait()
		n += len(late)
	}
	// the same message handed down two or three times (the layer above repeats it): every copy
	// is written, whatever became of the connection in between
	for _, target := range []string{"client", "backend"} {
		for _, in := range []inb{{"absent", false, 0, false}, {"healthy", true, 0, false}, {"fail@1", true, 1, false}, {"fail@2", true, 2, false}} {
			for _, rc := range []string{"fresh", "stale-once"} {
				if target == "backend" && rc == "stale-once" {
					continue
				}
				for msgs := 2; msgs <= 3; msgs++ {
					cfg := c20Config{Target: target, Inbound: in.name, Reconnect: rc, Messages: msgs, Size: 300, inFailAt: in.failAt, inPartial: in.partial, hasInbound: in.has, Repeat: true}
					if why, detail := c20Run(cfg, rnd); why != "" {
						if why2, _ := c20Run(cfg, rnd); why2 != "" {
							run.Violation(fmt.Sprintf("%s/%s/%s, the same message %d times: %s", target, in.name, rc, msgs, why), map[string]any{"config": cfg, "why": why, "observed": detail})
						} else {
							run.Inconclusive(1)
						}
					}
					n++
					run.Eval(fmt.Sprintf("%s|%s|%s|%d|repeat", target, in.name, rc, msgs))
				}
			}
		}
	}
	// TCP backends of a listener that is configured with a fixed local port for its backends
	// (backend-local-port): the cached connection is a real socket and goes stale because the
	// proxy itself closed it (what RemoveBackend does while a dialog still holds the backend
	// object), or because the destination closed / reset it; two backends of the same listener
	// share the configured local address
	{
		for rep := 0; rep < ev.Pick(2, 10); rep++ {
			for _, cause := range []string{"closed-by-proxy", "closed-by-destination", "reset-by-destination"} {
				for _, fixed := range []bool{false, true} {
					cfgName := fmt.Sprintf("backend|real-cached-connection|%s|fixed-local-port=%v", cause, fixed)
					why, detail := c20LocalPortRun(cause, fixed, rnd)
					if why != "" {
						if why2, _ := c20LocalPortRun(cause, fixed, rnd); why2 != "" {
							run.Violation("backend with a real cached connection: "+why, map[string]any{"stale_because": cause, "backend_local_port_configured": fixed, "observed": detail})
						} else {
							run.Inconclusive(1)
						}
					}
					n++
					run.Eval(cfgName)
				}
			}
		}
	}
	run.Observe("configurations_executed", n)
	run.Exhaustive(true)
	run.Assume("accept-then-reset destinations are a stated don't-care for success/failure; only duplication, hangs and panics are judged there")
	run.Assume("the cached connection of a client transport is modelled by a scripted net.Conn; dial targets are real loopback listeners")
	vfFinish(t, run, 100)
}
