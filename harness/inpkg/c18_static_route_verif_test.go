//go:build verif

package main

// C18 - static route lookup against an independent reference lookup.

import (
	"fmt"
	"net"
	"sort"
	"strings"
	"sync/atomic"
	"testing"
	"time"

	"vf/ev"
	"vf/sip"
)

// c18Glob: '*' matches any sequence, every other byte matches itself.
func c18Glob(pat, s string) bool {
	if pat == "" {
		return s == ""
	}
	if pat[0] == '*' {
		for i := 0; i <= len(s); i++ {
			if c18Glob(pat[1:], s[i:]) {
				return true
			}
		}
		return false
	}
	return s != "" && pat[0] == s[0] && c18Glob(pat[1:], s[1:])
}

// c18Allowed returns the set of pattern names the lookup may answer with
// ("" = not routable).
func c18Allowed(table []string, host string) map[string]bool {
	for _, p := range table {
		if p == host {
			return map[string]bool{p: true}
		}
	}
	r := map[string]bool{}
	for _, p := range table {
		if strings.Contains(p, "*") && c18Glob(p, host) {
			r[p] = true
		}
	}
	if len(r) > 0 {
		return r
	}
	for _, p := range table {
		if p == "default" {
			return map[string]bool{p: true}
		}
	}
	return map[string]bool{"": true}
}

func c18Check(run *ev.Run, table []string, hosts []string, repeats int, rebuilds int) {
	protos := []string{"udp", "tcp", "tls"}
	for rb := 0; rb < rebuilds; rb++ {
		pcr := NewPreConfigRoute()
		ident := map[string]string{} // "proto host port" -> pattern
		for i, p := range table {
			// insertion order varies between rebuilds
			j := (i + rb) % len(table)
			p = table[j]
			nh := fmt.Sprintf("nh%d.verif.test:%d", j, 6000+j)
			if err := pcr.AddRouteItem(protos[j%3], p, nh); err != nil {
				run.Violation("AddRouteItem failed", map[string]any{"pattern": p, "error": err.Error()})
				return
			}
			ident[fmt.Sprintf("%s nh%d.verif.test %d", protos[j%3], j, 6000+j)] = p
		}
		firstOf := map[string]string{}
		for _, h := range hosts {
			allowed := c18Allowed(table, h)
			first := "\x00"
			for k := 0; k < repeats; k++ {
				proto, host, port, err := pcr.FindRoute(h)
				ans := ""
				if err == nil {
					var ok bool
					ans, ok = ident[fmt.Sprintf("%s %s %d", proto, host, port)]
					if !ok {
						run.Violation("answer is no configured entry", map[string]any{"table": table, "host": h, "answer": fmt.Sprintf("%s %s:%d", proto, host, port)})
						return
					}
				}
				if !allowed[ans] {
					keys := []string{}
					for a := range allowed {
						keys = append(keys, a)
					}
					sort.Strings(keys)
					run.Violation("lookup answered outside the reference's allowed set", map[string]any{"table": table, "host": h, "answered_pattern": ans, "allowed": keys})
					return
				}
				if first == "\x00" {
					first = ans
				} else if ans != first {
					run.Violation("unstable answer for the same host on the same table", map[string]any{"table": table, "host": h, "answer_1": first, "answer_2": ans, "repeat": k})
					return
				}
			}
			sig := ""
			switch {
			case allowed[""]:
				sig = "none"
			case len(allowed) > 1:
				sig = fmt.Sprintf("multi-wildcard%d", len(allowed))
			case allowed["default"] && h != "default":
				sig = "default"
			case allowed[h]:
				sig = "exact"
			default:
				sig = "wildcard"
			}
			run.EvalN(fmt.Sprintf("%s|%v|%s", sig, table, h), int64(repeats))
			run.Count("cell_"+sig, 1)
			if sig == "multi-wildcard2" && run.WantSample() {
				run.Sample(map[string]any{"table": table, "host": h, "answered": first, "repeats": repeats})
			}
			firstOf[h] = first
		}
		// the answer must not depend on what was looked up before: every ordered pair (a, b)
		// of hosts as the history a, b, a on the same table object
		answer := func(h string) string {
			proto, host, port, err := pcr.FindRoute(h)
			if err != nil {
				return ""
			}
			return ident[fmt.Sprintf("%s %s %d", proto, host, port)]
		}
		for _, a := range hosts {
			if rb != 0 {
				break // (one insertion order is enough for this phase)
			}
			for _, b := range hosts {
				if a == b {
					continue
				}
				r1, r2, r3 := answer(a), answer(b), answer(a)
				if r1 != firstOf[a] || r2 != firstOf[b] || r3 != firstOf[a] {
					run.Violation("the answer for a host depends on which host was looked up before", map[string]any{"table": table, "history": []string{a, b, a}, "answers": []string{r1, r2, r3}, "answers_alone": []string{firstOf[a], firstOf[b], firstOf[a]}})
					return
				}
			}
		}
		run.EvalN(fmt.Sprintf("history|%v", table), int64(3*len(hosts)*(len(hosts)-1)))
	}
}

func TestVerifC18(t *testing.T) {
	run := ev.New("C18", "exploration",
		"all route tables of <= N entries over a pattern universe x all hosts of the universe x 50 repeats x 2 insertion orders, random larger tables, next-hop strings with/without port for udp/tcp/tls; "+
			"oracle = independent reference lookup (exact > any matching wildcard > default > none) + stability monitor; distinct = distinct (cell kind, table, host)")
	patterns := []string{"example.com", "a.example.com", "*.example.com", "a.*", "*", "default", "aXexample.com", "*.com", "*example.com"}
	hosts := []string{"example.com", "a.example.com", "b.example.com", "aXexample.com", "a.org", "default", "x.a.example.com", "com", "other.net", "a.example.comX", "bXexampleXcom"}
	// equal-length, equally shaped wildcard patterns that all match one host: a
	// lookup that orders candidates by any key with ties would show here
	ties := []string{"*.b.c", "a.b.*", "a.*.c"}
	hosts = append(hosts, "a.b.c", "x.b.c")
	maxEntries := 4
	if ev.Thorough() {
		patterns = append(patterns, "*.a.example.com", "b.*.com", "a.example.*")
		hosts = append(hosts, "b.x.com", "a.example.org", "y.a.example.com")
		maxEntries = 5
	}
	tables := 0
	var rec func(start int, cur []string)
	rec = func(start int, cur []string) {
		if run.Violations() > 10 {
			return
		}
		if len(cur) > 0 {
			tables++
			c18Check(run, append([]string{}, cur...), hosts, 50, 2)
		}
		if len(cur) == maxEntries {
			return
		}
		for i := start; i < len(patterns); i++ {
			rec(i+1, append(cur, patterns[i]))
		}
	}
	rec(0, nil)
	// tables that contain the tie patterns (up to 3 entries from the whole universe in the quick tier)
	base := patterns
	patterns = append(append([]string{}, base...), ties...)
	saved := maxEntries
	if !ev.Thorough() {
		maxEntries = 3
	}
	var rec2 func(start int, cur []string, hasTie bool)
	rec2 = func(start int, cur []string, hasTie bool) {
		if run.Violations() > 10 {
			return
		}
		if len(cur) > 0 && hasTie {
			tables++
			c18Check(run, append([]string{}, cur...), hosts, 50, 2)
		}
		if len(cur) == maxEntries {
			return
		}
		for i := start; i < len(patterns); i++ {
			rec2(i+1, append(cur, patterns[i]), hasTie || i >= len(base))
		}
	}
	rec2(0, nil, false)
	maxEntries = saved
	// the empty table
	pcr := NewPreConfigRoute()
	for _, h := range hosts {
		if _, _, _, err := pcr.FindRoute(h); err == nil {
			run.Violation("empty table routes a host", map[string]any{"host": h})
		}
		run.Eval("")
	}
	run.Observe("tables_enumerated", tables)
	// random larger tables
	g := sip.NewGen(run.Seed)
	nrand := ev.Pick(150, 3000)
	for i := 0; i < nrand && run.Violations() <= 10; i++ {
		n := 5 + g.R.Intn(26)
		seen := map[string]bool{}
		var table []string
		for len(table) < n {
			p := g.Hostname()
			switch g.R.Intn(5) {
			case 0:
				parts := strings.Split(p, ".")
				parts[g.R.Intn(len(parts))] = "*"
				p = strings.Join(parts, ".")
			case 1:
				p = "*" + p[len(p)/2:]
			case 2:
				p = p[:len(p)/2] + "*"
			}
			if g.R.Intn(15) == 0 {
				p = "default"
			}
			if !seen[p] {
				seen[p] = true
				table = append(table, p)
			}
		}
		var hs []string
		for k := 0; k < 12; k++ {
			p := table[g.R.Intn(len(table))]
			h := strings.ReplaceAll(p, "*", g.Hostname())
			if g.R.Intn(4) == 0 {
				h = g.Hostname()
			}
			if g.R.Intn(6) == 0 {
				h = strings.Replace(h, ".", "X", 1)
			}
			hs = append(hs, h)
		}
		c18Check(run, table, hs, 20, 1)
	}
	// tables built the way the binary builds them: YAML `route:` blocks (several dests
	// per entry, wildcards at any position) through the configuration loader
	nyaml := ev.Pick(150, 3000)
	for i := 0; i < nyaml && run.Violations() <= 10; i++ {
		nent := 1 + g.R.Intn(4)
		var y strings.Builder
		y.WriteString("proxies:\n- name: x\n  route:\n")
		seen := map[string]bool{}
		var flat []string
		type ent struct {
			proto, nh string
			dests     []string
		}
		var ents []ent
		for e := 0; e < nent; e++ {
			en := ent{proto: []string{"udp", "tcp", "tls"}[g.R.Intn(3)], nh: fmt.Sprintf("nh%d.verif.test:%d", e, 6000+e)}
			for k := 1 + g.R.Intn(4); k > 0; k-- {
				pool := append(append([]string{}, patterns...), ties...)
				d := pool[g.R.Intn(len(pool))]
				if !seen[d] {
					seen[d] = true
					en.dests = append(en.dests, d)
					flat = append(flat, d)
				}
			}
			if len(en.dests) == 0 {
				continue
			}
			ents = append(ents, en)
			y.WriteString("  - dests:\n")
			for _, d := range en.dests {
				fmt.Fprintf(&y, "    - '%s'\n", d)
			}
			fmt.Fprintf(&y, "    protocol: %s\n    nexthop: %s\n", en.proto, en.nh)
		}
		if len(flat) == 0 {
			continue
		}
		cfg, err := loadConfigFromReader(strings.NewReader(y.String()))
		if err != nil || len(cfg.Proxies) != 1 {
			run.Violation("generated YAML not loaded", map[string]any{"yaml": y.String(), "error": fmt.Sprint(err)})
			continue
		}
		pcr := createPreConfigRoute(cfg.Proxies[0])
		// a proxy object of its own for this table, built by the constructor the binary uses
		// (each one keeps a goroutine, so not every table of the thorough tier gets one)
		var px *Proxy
		if i < 150 || i%20 == 0 {
			px = NewProxy("c18.verif.test", 1200, "127.0.0.1", false, pcr, NewPreConfigHostResolver(), NewSelfLearnRoute(), false, false)
		}
		owner := map[string]string{} // "proto host port" -> entry index
		destOf := map[string]int{}
		for ei, en := range ents {
			hp := strings.SplitN(en.nh, ":", 2)
			owner[fmt.Sprintf("%s %s %s", en.proto, hp[0], hp[1])] = fmt.Sprint(ei)
			for _, d := range en.dests {
				destOf[d] = ei
			}
		}
		// entries were numbered by position among the non-empty ones
		for _, h := range hosts {
			allowed := c18Allowed(flat, h)
			okEntries := map[string]bool{}
			for d := range allowed {
				if d == "" {
					okEntries[""] = true
				} else {
					okEntries[fmt.Sprint(destOf[d])] = true
				}
			}
			first := "\x00"
			for k := 0; k < 20; k++ {
				proto, host, port, err := pcr.FindRoute(h)
				ans := ""
				if err == nil {
					ans = owner[fmt.Sprintf("%s %s %d", proto, host, port)]
					if ans == "" {
						ans = "?"
					}
				}
				// the entry index in `owner` counts non-empty entries in order, which is how ents was built
				if !okEntries[ans] {
					run.Violation("table loaded from YAML: lookup answered outside the reference's allowed set", map[string]any{"yaml": y.String(), "host": h, "answered_entry": ans, "allowed_patterns": fmt.Sprint(allowed)})
					break
				}
				if first == "\x00" {
					first = ans
				} else if ans != first {
					run.Violation("table loaded from YAML: unstable answer", map[string]any{"yaml": y.String(), "host": h})
					break
				}
			}
			run.EvalN(fmt.Sprintf("yaml|%d|%s", i, h), 20)
			// the same lookup as a request meets it: To host -> next hop through the proxy's
			// own routing step (no Route header), in several spellings of the To header
			if first != "\x00" && px != nil {
				for vi, to := range []string{"<sip:bob@" + h + ">", "\"B\" <sip:" + h + ";user=phone>;tag=x", "sip:carol@" + h, "<sip:dave@" + h + ":5080;transport=tcp>"} {
					raw := "MESSAGE sip:x@foreign.example SIP/2.0\r\nVia: SIP/2.0/UDP 192.0.2.1:5060;branch=z9hG4bKc18\r\nMax-Forwards: 70\r\nFrom: <sip:a@b>;tag=1\r\nTo: " + to + "\r\nCall-ID: c18@vf\r\nCSeq: 1 MESSAGE\r\nContent-Length: 0\r\n\r\n"
					msg, err := vfParseUDP([]byte(raw))
					if err != nil {
						run.Violation("harness: request not decodable", map[string]any{"raw": raw})
						break
					}
					host, port, proto, err := px.getNextRequestHop(msg)
					ans := ""
					if err == nil {
						ans = owner[fmt.Sprintf("%s %s %d", proto, host, port)]
						if ans == "" {
							ans = "?"
						}
					}
					if ans != first {
						run.Violation("the routing step of a request answers differently from the table lookup for the same To host", map[string]any{"yaml": y.String(), "to": to, "host": h, "table_lookup_entry": first, "request_path_entry": ans})
						break
					}
					run.Eval(fmt.Sprintf("yaml-request|%d|%s|%d", i, h, vi))
				}
			}
		}
		if run.WantSample() && nent > 1 {
			run.Sample(map[string]any{"yaml_route_table": y.String()})
		}
	}
	// one listener meets hundreds of distinct To hosts, several times over: the answer of the
	// routing step for a host stays the table's answer however many other hosts were routed
	// in between
	{
		table := []string{"*.b.c", "a.b.*", "*.example.com", "example.com", "default", "a.*.c", "gw.example.com", "*.d"}
		pcr := NewPreConfigRoute()
		for j, p := range table {
			pcr.AddRouteItem([]string{"udp", "tcp"}[j%2], p, fmt.Sprintf("nh%d.verif.test:%d", j, 6000+j))
		}
		px := NewProxy("c18m.verif.test", 1200, "127.0.0.1", false, pcr, NewPreConfigHostResolver(), NewSelfLearnRoute(), false, false)
		nhosts := ev.Pick(420, 3000)
		var many []string
		for k := 0; k < nhosts; k++ {
			switch k % 6 {
			case 0:
				many = append(many, fmt.Sprintf("h%d.b.c", k))
			case 1:
				many = append(many, fmt.Sprintf("a.b.x%d", k))
			case 2:
				many = append(many, fmt.Sprintf("u%d.example.com", k))
			case 3:
				many = append(many, fmt.Sprintf("n%d.other.org", k)) // default
			case 4:
				many = append(many, fmt.Sprintf("a.m%d.c", k))
			default:
				many = append(many, []string{"example.com", "gw.example.com", "x.d"}[k/6%3])
			}
		}
		type ans struct {
			host, proto string
			port        int
			err         bool
		}
		want := map[string]ans{}
		for _, h := range many {
			proto, host, port, err := pcr.FindRoute(h)
			want[h] = ans{host, proto, port, err != nil}
		}
		misrouted := 0
		for pass := 0; pass < 3 && misrouted == 0; pass++ {
			for _, h := range many {
				raw := "MESSAGE sip:x@foreign.example SIP/2.0\r\nVia: SIP/2.0/UDP 192.0.2.1:5060;branch=z9hG4bKc18m\r\nMax-Forwards: 70\r\nFrom: <sip:a@b>;tag=1\r\nTo: <sip:bob@" + h + ">\r\nCall-ID: c18m@vf\r\nCSeq: 1 MESSAGE\r\nContent-Length: 0\r\n\r\n"
				msg, err := vfParseUDP([]byte(raw))
				if err != nil {
					continue
				}
				host, port, proto, err := px.getNextRequestHop(msg)
				got := ans{host, proto, port, err != nil}
				w := want[h]
				if got.err != w.err || (!got.err && (got.host != w.host || got.port != w.port || !strings.EqualFold(got.proto, w.proto))) {
					misrouted++
					run.Violation("after many other To hosts were routed through the listener, the routing step answers differently from the table for this host", map[string]any{"to_host": h, "pass": pass, "distinct_hosts_routed": len(want), "table": table, "table_answer": fmt.Sprintf("%s %s:%d", w.proto, w.host, w.port), "request_path_answer": fmt.Sprintf("%s %s:%d err=%v", got.proto, got.host, got.port, got.err)})
					break
				}
				run.Eval(fmt.Sprintf("manyhosts|%d|%d", pass, len(h)%7))
			}
		}
		run.Observe("distinct_to_hosts_routed_through_one_listener", len(want))
	}
	// the answer does not depend on what became of earlier requests either: requests for hosts
	// whose next hop (tcp) refuses the connection pass through a real listener, then the same
	// hosts are looked up again - in the table and as a request meets it
	{
		pcr := NewPreConfigRoute()
		dead1, dead2 := c18ClosedPort(), c18ClosedPort()
		pcr.AddRouteItem("tcp", "gw.example.com", fmt.Sprintf("127.6.0.1:%d", dead1))
		pcr.AddRouteItem("tcp", "*.example.com", fmt.Sprintf("127.6.0.2:%d", dead2))
		pcr.AddRouteItem("udp", "*.example.org", "127.6.0.3:6000")
		pcr.AddRouteItem("udp", "default", "127.6.0.4:6000")
		sinks := newVfSinks()
		sinks.listenUDP("127.6.0.3:6000")
		sinks.listenUDP("127.6.0.4:6000")
		fx, err := newVfFixture("c18f.verif.test", "127.6.0.10", 5060, nil, 1200, false, false, false, pcr, nil)
		if err != nil {
			run.Inconclusive(1)
		} else {
			type ans struct {
				proto, host string
				port        int
				err         bool
			}
			look := func(h string) ans {
				proto, host, port, err := pcr.FindRoute(h)
				return ans{proto, host, port, err != nil}
			}
			hostsF := []string{"gw.example.com", "x.example.com", "y.example.org", "other.net"}
			before := map[string]ans{}
			for _, h := range hostsF {
				before[h] = look(h)
			}
			req := func(h, id string) []byte {
				return []byte("MESSAGE sip:x@foreign.example SIP/2.0\r\nVia: SIP/2.0/UDP 127.6.0.99:5060;branch=z9hG4bK" + id + "\r\nMax-Forwards: 70\r\nFrom: <sip:a@b>;tag=1\r\nTo: <sip:bob@" + h + ">\r\nCall-ID: " + id + "@vf\r\nCSeq: 1 MESSAGE\r\nX-Vf-Probe: " + id + "\r\nContent-Length: 0\r\n\r\n")
			}
			failed := 0
			for rnd := 0; rnd < 3 && run.Violations() <= 10; rnd++ {
				for k, h := range []string{"gw.example.com", "x.example.com"} {
					fx.inject("127.6.0.99", 5060, req(h, fmt.Sprintf("c18f-%d-%d", rnd, k)))
					failed++
				}
				// behind them, through the same loop: one that has somewhere to go
				mid := fmt.Sprintf("c18f-mark-%d", rnd)
				fx.inject("127.6.0.99", 5060, req("other.net", mid))
				if len(sinks.wait(mid, 1, 20*time.Second)) == 0 {
					run.Violation("a request for a host of the default entry was not relayed after requests whose next hop refused the connection", map[string]any{"round": rnd})
					break
				}
				for _, h := range hostsF {
					if a := look(h); a != before[h] {
						run.Violation("the table answers differently for a host after a request to its next hop could not be sent", map[string]any{"host": h, "before": fmt.Sprintf("%+v", before[h]), "after": fmt.Sprintf("%+v", a), "requests_whose_next_hop_refused": failed})
					}
					if msg, err := vfParseUDP(req(h, "c18f-look")); err == nil {
						host, port, proto, err := fx.proxy.getNextRequestHop(msg)
						b := before[h]
						if (err != nil) != b.err || (err == nil && (host != b.host || port != b.port || !strings.EqualFold(proto, b.proto))) {
							run.Violation("the routing step answers differently for a host after a request to its next hop could not be sent", map[string]any{"host": h, "table_answer_before": fmt.Sprintf("%+v", b), "request_path_answer": fmt.Sprintf("%s %s:%d err=%v", proto, host, port, err)})
						}
					}
					run.Eval(fmt.Sprintf("after-failed-send|%d|%s", rnd, h))
				}
			}
			run.Observe("requests_whose_static_next_hop_refused_the_connection", failed)
		}
		sinks.close()
	}
	// concurrent lookups on one table (the listeners of a service share it): same answers
	{
		table := []string{"*.b.c", "a.b.*", "*.example.com", "example.com", "default", "a.*.c"}
		pcr := NewPreConfigRoute()
		ident := map[string]string{}
		for j, p := range table {
			pcr.AddRouteItem("udp", p, fmt.Sprintf("nh%d.verif.test:%d", j, 6000+j))
			ident[fmt.Sprintf("nh%d.verif.test %d", j, 6000+j)] = p
		}
		want := map[string]string{}
		for _, h := range hosts {
			_, host, port, err := pcr.FindRoute(h)
			if err == nil {
				want[h] = ident[fmt.Sprintf("%s %d", host, port)]
			}
		}
		var bad int32
		var firstBad atomic.Value
		per := ev.Pick(4000, 60000)
		vfWorkers(8, func(w int) {
			for k := 0; k < per && atomic.LoadInt32(&bad) == 0; k++ {
				h := hosts[(k+w)%len(hosts)]
				got := ""
				var err error
				var host string
				var port int
				if p := vfRecover("FindRoute", func() { _, host, port, err = pcr.FindRoute(h) }); p != "" {
					atomic.StoreInt32(&bad, 1)
					firstBad.Store(p)
					return
				}
				if err == nil {
					got = ident[fmt.Sprintf("%s %d", host, port)]
				}
				if got != want[h] {
					atomic.StoreInt32(&bad, 1)
					firstBad.Store(fmt.Sprintf("host %s: %q under concurrent lookups, %q alone", h, got, want[h]))
					return
				}
			}
		})
		run.EvalN("concurrent-lookups", int64(8*per))
		if atomic.LoadInt32(&bad) != 0 {
			run.Violation("the answer for a host changes when several listeners look it up at the same time", map[string]any{"table": table, "first": firstBad.Load()})
		}
	}
	// next-hop strings
	nh := 0
	for _, proto := range []string{"udp", "tcp", "tls", "TLS", "UDP"} {
		for _, host := range []string{"h.example.com", "192.0.2.5", "nh"} {
			for _, port := range []int{0, 1, 5060, 5061, 7, 65535} {
				s := host
				if port != 0 {
					s = fmt.Sprintf("%s:%d", host, port)
				}
				want := port
				if port == 0 {
					want = 5060
					if strings.EqualFold(proto, "tls") {
						want = 5061
					}
				}
				pcr := NewPreConfigRoute()
				if err := pcr.AddRouteItem(proto, "d.example", s); err != nil {
					run.Violation("next hop rejected", map[string]any{"next_hop": s, "error": err.Error()})
					continue
				}
				p, h, pt, err := pcr.FindRoute("d.example")
				nh++
				if err != nil || p != proto || h != host || pt != want {
					run.Violation("next hop decoded wrongly", map[string]any{"protocol": proto, "next_hop": s, "got": fmt.Sprintf("%s %s %d %v", p, h, pt, err), "want_port": want})
				}
				run.Eval(fmt.Sprintf("nexthop|%s|%s|%d", proto, host, port))
			}
		}
	}
	run.Observe("next_hop_strings", nh)
	run.Exhaustive(false)
	run.Assume(fmt.Sprintf("exhaustive over tables of <= %d entries from %d patterns and %d hosts; random tables beyond that", maxEntries, len(patterns), len(hosts)))
	vfFinish(t, run, 1000)
}

func c18ClosedPort() int {
	ln, err := net.Listen("tcp", "127.0.0.1:0")
	if err != nil {
		return 1
	}
	p := ln.Addr().(*net.TCPAddr).Port
	ln.Close()
	return p
}
