//go:build verif

package main

// In-process pipeline fixture: a real Proxy (NewProxy + NewProxyItem, loop
// goroutine running) whose listener sockets are never opened. Messages enter
// through the same channel the transports use, so everything is processed by
// the proxy's own loop goroutine; outputs are observed on real loopback sockets.

import (
	"fmt"
	"net"
	"sync"
	"time"

	"vf/sip"
)

type vfFixture struct {
	proxy *Proxy
	item  *ProxyItem
	trans ServerTransport
	slr   *SelfLearnRoute
}

func newVfFixture(name string, listenAddr string, udpPort int, backends []string, dialogTimeout int64, keepNextHop, mustRR, receivedSupport bool, routes *PreConfigRoute, hosts *PreConfigHostResolver) (*vfFixture, error) {
	return newVfFixtureLP(name, listenAddr, udpPort, backends, dialogTimeout, keepNextHop, mustRR, receivedSupport, routes, hosts, 0)
}

// backendLocalPort: the listener's backend-local-port setting (0 = not configured)
func newVfFixtureLP(name string, listenAddr string, udpPort int, backends []string, dialogTimeout int64, keepNextHop, mustRR, receivedSupport bool, routes *PreConfigRoute, hosts *PreConfigHostResolver, backendLocalPort int) (*vfFixture, error) {
	if routes == nil {
		routes = NewPreConfigRoute()
	}
	if hosts == nil {
		hosts = NewPreConfigHostResolver()
	}
	slr := NewSelfLearnRoute()
	p := NewProxy(name, dialogTimeout, listenAddr, keepNextHop, routes, hosts, slr, receivedSupport, mustRR)
	item, err := NewProxyItem(listenAddr, udpPort, 0, listenAddr, backendLocalPort, backends, nil, receivedSupport, false, p, slr, p)
	if err != nil {
		return nil, err
	}
	if len(item.transports) == 0 {
		return nil, fmt.Errorf("no transport")
	}
	p.AddItem(item)
	return &vfFixture{proxy: p, item: item, trans: item.transports[0], slr: slr}, nil
}

// startUDP opens the listener's UDP socket as Start() does in the binary, so
// that sending from the listener socket (learned hops) works as in production.
func (f *vfFixture) startUDP() error {
	return f.trans.Start(f.proxy)
}

// inject parses raw like the UDP listener and queues it for the loop.
func (f *vfFixture) inject(peerAddr string, peerPort int, raw []byte) error {
	m, err := vfParseUDP(raw)
	if err != nil {
		return err
	}
	f.proxy.HandleRawMessage(NewRawMessage(peerAddr, peerPort, f.trans, false, m))
	return nil
}

// vfSinks owns loopback UDP sockets and TCP listeners and files every message
// that arrives under the value of its X-Vf-Probe header.
type vfSinks struct {
	mu       sync.Mutex
	got      map[string][]string // probe id -> addresses (ip:port) that received it, in arrival order
	udp      []*net.UDPConn
	udpAt    map[string]*net.UDPConn
	lastRaw  map[string][]byte
	tcpAt    map[string]net.Listener
	tcpConns map[string][]net.Conn
	tcp      []net.Listener
	addrs    []string
}

func newVfSinks() *vfSinks { return &vfSinks{got: map[string][]string{}} }

func (s *vfSinks) record(addr string, raw []byte) {
	m, err := sip.Read(raw)
	id := "?"
	if err == nil {
		if v, ok := m.First("x-vf-probe"); ok {
			id = v
		}
	}
	s.mu.Lock()
	s.got[id] = append(s.got[id], addr)
	if s.lastRaw == nil {
		s.lastRaw = map[string][]byte{}
	}
	s.lastRaw[id] = append([]byte{}, raw...)
	s.mu.Unlock()
}

// last returns the bytes of the message that arrived last under probe id.
func (s *vfSinks) last(id string) []byte {
	s.mu.Lock()
	defer s.mu.Unlock()
	return s.lastRaw[id]
}

func (s *vfSinks) listenUDP(addr string) error {
	a, err := net.ResolveUDPAddr("udp", addr)
	if err != nil {
		return err
	}
	c, err := net.ListenUDP("udp", a)
	if err != nil {
		return err
	}
	s.udp = append(s.udp, c)
	s.mu.Lock()
	if s.udpAt == nil {
		s.udpAt = map[string]*net.UDPConn{}
	}
	s.udpAt[addr] = c
	s.mu.Unlock()
	go func() {
		b := make([]byte, 65536)
		for {
			n, _, err := c.ReadFromUDP(b)
			if err != nil {
				return
			}
			s.record(addr, append([]byte{}, b[:n]...))
		}
	}()
	return nil
}

// dropTCP closes the listener at addr and resets the connections it accepted (the backend there
// refuses connections until listenTCP is called again).
func (s *vfSinks) dropTCP(addr string) {
	s.mu.Lock()
	ln := s.tcpAt[addr]
	conns := s.tcpConns[addr]
	delete(s.tcpAt, addr)
	delete(s.tcpConns, addr)
	s.mu.Unlock()
	if ln != nil {
		ln.Close()
	}
	for _, c := range conns {
		if tc, ok := c.(*net.TCPConn); ok {
			tc.SetLinger(0)
		}
		c.Close()
	}
}

// dropUDP closes the socket at addr (the backend there is down until listenUDP is called again).
func (s *vfSinks) dropUDP(addr string) {
	s.mu.Lock()
	c := s.udpAt[addr]
	delete(s.udpAt, addr)
	s.mu.Unlock()
	if c != nil {
		c.Close()
	}
}

func (s *vfSinks) listenTCP(addr string) error {
	ln, err := net.Listen("tcp", addr)
	if err != nil {
		return err
	}
	s.tcp = append(s.tcp, ln)
	s.mu.Lock()
	if s.tcpAt == nil {
		s.tcpAt = map[string]net.Listener{}
		s.tcpConns = map[string][]net.Conn{}
	}
	s.tcpAt[addr] = ln
	s.mu.Unlock()
	go func() {
		for {
			c, err := ln.Accept()
			if err != nil {
				return
			}
			s.mu.Lock()
			s.tcpConns[addr] = append(s.tcpConns[addr], c)
			s.mu.Unlock()
			go func() {
				defer c.Close() // (the descriptor goes back when the peer has closed its side)
				var buf []byte
				b := make([]byte, 65536)
				for {
					n, err := c.Read(b)
					buf = append(buf, b[:n]...)
					var msgs [][]byte
					msgs, buf = sip.FrameTCP(buf)
					for _, m := range msgs {
						s.record(addr, m)
					}
					if err != nil {
						return
					}
				}
			}()
		}
	}()
	return nil
}

// wait returns the arrivals filed under id once n have arrived or the bound passed.
func (s *vfSinks) wait(id string, n int, bound time.Duration) []string {
	deadline := time.Now().Add(bound)
	for {
		s.mu.Lock()
		g := append([]string{}, s.got[id]...)
		s.mu.Unlock()
		if len(g) >= n || time.Now().After(deadline) {
			return g
		}
		time.Sleep(200 * time.Microsecond)
	}
}

func (s *vfSinks) forgetRaw(id string) {
	s.mu.Lock()
	delete(s.lastRaw, id)
	s.mu.Unlock()
}

func (s *vfSinks) forget(id string) {
	s.mu.Lock()
	delete(s.got, id)
	s.mu.Unlock()
}

func (s *vfSinks) close() {
	for _, c := range s.udp {
		c.Close()
	}
	for _, l := range s.tcp {
		l.Close()
	}
}
