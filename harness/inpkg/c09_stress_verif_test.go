//go:build verif

package main

// C09 (in-package part) - race-detector stress of exactly the sharing patterns
// the program has: the self-learned route table shared by the loops of several
// listeners, the UDP buffer pool between receive and parse goroutine, name
// resolution callbacks vs. registration, rotation membership changed by the
// resolver while the loop dispatches (including TCP backends being closed while
// the loop sends). Structures owned by one loop goroutine are never touched
// from a second goroutine here.

import (
	"bytes"
	"errors"
	"fmt"
	"math/rand"
	"net"
	"os"
	"os/exec"
	"runtime"
	"sort"
	"strings"
	"sync"
	"sync/atomic"
	"syscall"
	"testing"
	"time"

	"vf/ev"
	"vf/wire"
)

// TestVerifC09 runs the stress in a child process: a panic or runtime fatal
// error in a goroutine of the code under test (which ends the process) is then a
// verdict with its stack, not a harness failure.
// c09BlockedRepoGoroutines returns the goroutines of a runtime dump that have been
// waiting for minutes and have a frame of the code under test on their stack.
func c09BlockedRepoGoroutines(dump string) []string {
	var r []string
	for _, g := range strings.Split(dump, "\n\n") {
		head := strings.SplitN(g, "\n", 2)[0]
		if !strings.HasPrefix(head, "goroutine ") || !strings.Contains(head, "minutes]") {
			continue
		}
		repo := false
		for _, line := range strings.Split(g, "\n") {
			// a frame of the code under test that is not a frame of this harness
			if strings.Contains(line, "ochinchina/sipproxy.") && !strings.Contains(line, "TestVerif") && !strings.Contains(line, "TestMain") && !strings.Contains(line, "sipproxy.vf") && !strings.Contains(line, "sipproxy.c0") && !strings.Contains(line, "sipproxy.c1") && !strings.Contains(line, "sipproxy.(*vf") && !strings.Contains(line, "sipproxy.newVf") {
				repo = true
			}
		}
		if repo {
			if len(g) > 900 {
				g = g[:900]
			}
			r = append(r, g)
		}
		if len(r) >= 6 {
			break
		}
	}
	return r
}

type c09Sink struct{ addr string }

func (b *c09Sink) Send(*Message) error { return nil }
func (b *c09Sink) GetAddress() string  { return b.addr }
func (b *c09Sink) Close()              {}

func TestVerifC09(t *testing.T) {
	if os.Getenv("VF_C09_CHILD") == "" {
		cmd := exec.Command(os.Args[0], "-test.run", "^TestVerifC09$", "-test.timeout", "0")
		cmd.Env = append(os.Environ(), "VF_C09_CHILD=1", "GOTRACEBACK=all")
		var out bytes.Buffer
		cmd.Stdout, cmd.Stderr = &out, &out
		var err error
		stalled := false
		if err = cmd.Start(); err == nil {
			done := make(chan error, 1)
			go func() { done <- cmd.Wait() }()
			bound := time.Duration(ev.Pick(6, 45)) * time.Minute
			select {
			case err = <-done:
			case <-time.After(bound):
				// far beyond anything a healthy run needs: ask the runtime for a goroutine dump
				stalled = true
				cmd.Process.Signal(syscall.SIGQUIT)
				select {
				case err = <-done:
				case <-time.After(30 * time.Second):
					cmd.Process.Kill()
				}
			}
		}
		text := out.String()
		if stalled {
			run := ev.New("C09", "exploration", "in-process stress of the program's real sharing patterns (child process stalled)")
			run.Eval("child-stalled")
			run.Eval("child-stalled-2")
			// a verdict only if the dump shows goroutines of the code under test blocked for minutes
			blocked := c09BlockedRepoGoroutines(text)
			if len(blocked) > 0 {
				run.Violation("goroutines of the proxy block each other for good (no progress under concurrent load)", map[string]any{"blocked_for_minutes": blocked})
			} else {
				run.Inconclusive(1)
				fmt.Println("INCONCLUSIVE C09 in-package stress did not finish within its watchdog but no goroutine of the code under test is blocked")
			}
			vfFinish(t, run, 1)
			return
		}
		for _, line := range strings.Split(text, "\n") {
			if strings.HasPrefix(line, "VIOLATION") || strings.HasPrefix(line, "SUMMARY") || strings.HasPrefix(line, "KNOWN-FINDING") || strings.HasPrefix(line, "EVIDENCE-WRITE-FAILED") {
				fmt.Println(line)
			}
		}
		crashed := strings.Contains(text, "panic:") || strings.Contains(text, "fatal error:")
		if crashed || (err != nil && !strings.Contains(text, "SUMMARY property=C09")) {
			run := ev.New("C09", "exploration", "in-process stress of the program's real sharing patterns (child process died)")
			i := strings.Index(text, "panic:")
			if j := strings.Index(text, "fatal error:"); i < 0 || (j >= 0 && j < i) {
				i = j
			}
			if i < 0 {
				i = 0
			}
			tail := text[i:]
			if len(tail) > 4000 {
				tail = tail[:4000]
			}
			run.Eval("child-died")
			run.Eval("child-died-2")
			run.Violation("the code under test crashed under concurrent membership changes and dispatch", map[string]any{"exit": fmt.Sprint(err), "output": tail})
			vfFinish(t, run, 1)
		}
		return
	}
	// resolution results without quiescence legitimately leave duplicate UDP backends
	// (one socket each) behind: give the stress room
	var lim syscall.Rlimit
	if syscall.Getrlimit(syscall.RLIMIT_NOFILE, &lim) == nil {
		lim.Cur = lim.Max
		syscall.Setrlimit(syscall.RLIMIT_NOFILE, &lim)
	}
	run := ev.New("C09", "exploration",
		"in-process stress under the race detector of the program's real sharing patterns: (a) two proxies (= two listeners of one service) with their own loops sharing one learned-route table, fed concurrently; (b) buffer pool between an allocating and a freeing goroutine; "+
			"(c) host-name registration by several listeners concurrent with resolution results and their notification goroutines; (d) rotation membership driven by resolution results while the loop dispatches to UDP and TCP backends (backends closed while sends are in progress); oracle = deduplicated race reports of this process + panics; distinct = stress patterns x rounds")
	dynamicHostResolver.Stop()
	dynamicHostResolver = &DynamicHostResolver{interval: time.Hour, stop: 1, hostIPs: make(map[string]*AddressWithCallback)}
	rounds := ev.Pick(8, 100)
	var ops int64
	for round := 0; round < rounds; round++ {
		// (a) shared learned-route table, two loops
		slr := NewSelfLearnRoute()
		// the listeners of a service also share one static route table and one host table
		routes := NewPreConfigRoute()
		routes.AddRouteItem("udp", "*.wild.verif.test", fmt.Sprintf("127.5.%d.250:5060", round))
		routes.AddRouteItem("udp", "x.*.verif.test", fmt.Sprintf("127.5.%d.251:5060", round))
		routes.AddRouteItem("udp", "exact.verif.test", fmt.Sprintf("127.5.%d.252:5060", round))
		hostTable := NewPreConfigHostResolver()
		hostTable.AddHostIP("nh.verif.test", fmt.Sprintf("127.5.%d.253", round))
		mk := func(i int) *vfFixture {
			p := NewProxy("svc.verif.test", 1200, fmt.Sprintf("127.5.%d.%d", round, i+1), false, routes, hostTable, slr, true, false)
			item, _ := NewProxyItem(fmt.Sprintf("127.5.%d.%d", round, i+1), 5060, 0, fmt.Sprintf("127.5.%d.%d", round, i+1), 0, []string{fmt.Sprintf("udp://127.5.%d.20%d:7000", round, i)}, nil, true, false, p, slr, p)
			p.AddItem(item)
			return &vfFixture{proxy: p, item: item, trans: item.transports[0], slr: slr}
		}
		fxs := []*vfFixture{mk(0), mk(1), mk(2)}
		var wg sync.WaitGroup
		for i, fx := range fxs {
			wg.Add(1)
			go func(i int, fx *vfFixture) {
				defer wg.Done()
				for k := 0; k < 400; k++ {
					to := "<tel:+1>"
					switch k % 4 {
					case 1:
						to = "<sip:u@a.wild.verif.test>" // static route found by the wildcard scan
					case 2:
						to = "<sip:u@x.y.verif.test>"
					}
					m := fmt.Sprintf("OPTIONS sip:svc.verif.test SIP/2.0\r\nVia: SIP/2.0/UDP 127.5.9.%d:5060;branch=z9hG4bK%d-%d, SIP/2.0/UDP shared.invalid;branch=z9hG4bKx\r\nFrom: <sip:a@x>;tag=1\r\nTo: %s\r\nCall-ID: %d-%d\r\nCSeq: 1 OPTIONS\r\nContent-Length: 0\r\n\r\n", k%5, i, k, to, i, k)
					fx.inject(fmt.Sprintf("127.5.9.%d", k%5), 5060, []byte(m))
					atomic.AddInt64(&ops, 1)
				}
			}(i, fx)
		}
		wg.Wait()
		// (b) buffer pool: one goroutine allocates, another frees (as receive and parse do)
		pool := NewByteArrayPool(64, 1024)
		ch := make(chan []byte, 128)
		wg.Add(2)
		go func() {
			defer wg.Done()
			for k := 0; k < 5000; k++ {
				b := pool.Alloc()
				b[0] = byte(k)
				ch <- b
			}
			close(ch)
		}()
		go func() {
			defer wg.Done()
			for b := range ch {
				_ = b[0]
				pool.Free(b)
				atomic.AddInt64(&ops, 1)
			}
		}()
		wg.Wait()
		// (c) registration of one host name by several listeners while results arrive
		host := fmt.Sprintf("shared%d.verif.test", round)
		var rbs []*RoundRobinBackend
		var rbMu sync.Mutex
		wg.Add(1)
		go func() {
			defer wg.Done()
			for k := 0; k < 40; k++ {
				var err error
				set := []string{fmt.Sprintf("127.5.%d.3%d", round, k%4), fmt.Sprintf("127.5.%d.4%d", round, k%3)}
				if k%7 == 6 {
					err = errors.New("injected failure")
					set = nil
				}
				dynamicHostResolver.addressResolved(host, set, err)
				atomic.AddInt64(&ops, 1)
				time.Sleep(200 * time.Microsecond)
			}
		}()
		for l := 0; l < 4; l++ {
			wg.Add(1)
			go func(l int) {
				defer wg.Done()
				time.Sleep(time.Duration(l) * time.Millisecond)
				rb, err := CreateRoundRobinBackend(fmt.Sprintf("127.5.%d.%d:0", round, 50+l), []string{"udp://" + host + ":7000", "tcp://" + host + ":7001"}, func(c net.Conn) {})
				if err == nil {
					rbMu.Lock()
					rbs = append(rbs, rb)
					rbMu.Unlock()
				}
			}(l)
		}
		wg.Wait()
		// a host name that one listener has registered and that has resolved is then named by further
		// listeners: each of them gets the resolved addresses as well (bounded progress: 20 s).
		// (Sequential on purpose: under the churn above two notifications may overtake each other,
		// which the resolver's real cadence of seconds does not produce - see DESIGN.md B.4.)
		{
			host2 := fmt.Sprintf("known%d.verif.test", round)
			set2 := []string{fmt.Sprintf("127.5.%d.81", round), fmt.Sprintf("127.5.%d.82", round)}
			want := []string{}
			for _, a := range set2 {
				want = append(want, a+":7000", a+":7001")
			}
			sort.Strings(want)
			members := func(rb *RoundRobinBackend) []string {
				var m []string
				for k := range rb.GetAllBackend() {
					m = append(m, k)
				}
				sort.Strings(m)
				return m
			}
			holds := func(rb *RoundRobinBackend) bool {
				deadline := time.Now().Add(20 * time.Second)
				for strings.Join(members(rb), ",") != strings.Join(want, ",") {
					if time.Now().After(deadline) {
						return false
					}
					time.Sleep(time.Millisecond)
				}
				return true
			}
			urls := []string{"udp://" + host2 + ":7000", "tcp://" + host2 + ":7001"}
			first, err := CreateRoundRobinBackend(fmt.Sprintf("127.5.%d.58:0", round), urls, func(c net.Conn) {})
			if err == nil {
				dynamicHostResolver.addressResolved(host2, append([]string{}, set2...), nil)
				if !holds(first) {
					run.Violation("a rotation does not hold the addresses its host name resolved to", map[string]any{"round": round, "members": members(first), "resolved": want})
				} else {
					for l := 0; l < 3; l++ {
						rb, err := CreateRoundRobinBackend(fmt.Sprintf("127.5.%d.%d:0", round, 55+l), urls, func(c net.Conn) {})
						if err != nil {
							continue
						}
						if !holds(rb) {
							run.Violation("several listeners name the same backend host: a later one does not get the addresses the name has resolved to", map[string]any{"round": round, "listener": l + 2, "members": members(rb), "resolved": want})
							break
						}
						run.Eval(fmt.Sprintf("known-host-name|listener%d", l+2))
					}
				}
			}
		}
		// (d) membership changes while the loop dispatches (through a real proxy loop)
		fx, err := newVfFixture("svc.verif.test", fmt.Sprintf("127.5.%d.60", round), 5060, []string{"udp://" + host + ":7000", "tcp://" + host + ":7001"}, 1200, false, false, true, nil, nil)
		if err == nil {
			// somebody listens at every address the name will resolve to: the tcp members are
			// really dialled (and their connections registered) while the membership changes
			live := newVfSinks()
			for j := 0; j < 5; j++ {
				live.listenTCP(fmt.Sprintf("127.5.%d.7%d:7001", round, j))
				live.listenUDP(fmt.Sprintf("127.5.%d.7%d:7000", round, j))
			}
			defer live.close()
			stop := make(chan struct{})
			wg.Add(1)
			go func() {
				defer wg.Done()
				r := rand.New(rand.NewSource(int64(round)))
				// (at most ~800 change events in total: the proxy's change queue holds 1000 and
				// the resolver's real cadence is one round per 2 s - a flood beyond the queue
				// is not a schedule the program can see, see DESIGN.md B.6)
				for k := 0; k < 100; k++ {
					n := r.Intn(4)
					var set []string
					for j := 0; j < n; j++ {
						set = append(set, fmt.Sprintf("127.5.%d.7%d", round, (k+j)%5))
					}
					dynamicHostResolver.addressResolved(host, set, nil)
					atomic.AddInt64(&ops, 1)
					time.Sleep(time.Duration(200+r.Intn(600)) * time.Microsecond)
				}
				close(stop)
			}()
			k := 0
		feed:
			for {
				select {
				case <-stop:
					break feed
				default:
				}
				k++
				m := fmt.Sprintf("OPTIONS sip:svc.verif.test SIP/2.0\r\nVia: SIP/2.0/UDP 127.5.9.9:5060;branch=z9hG4bKd%d\r\nFrom: <sip:a@x>;tag=1\r\nTo: <tel:+1>\r\nCall-ID: d%d\r\nCSeq: 1 OPTIONS\r\nContent-Length: 0\r\n\r\n", k, k)
				fx.inject("127.5.9.9", 5060, []byte(m))
				atomic.AddInt64(&ops, 1)
				if k%50 == 0 {
					time.Sleep(100 * time.Microsecond)
				}
			}
			wg.Wait()
			// bounded progress: with the churn over, the loop must still relay. The set is
			// pointed at an address where a sink listens and a marker request must arrive.
			sinkIP := fmt.Sprintf("127.5.%d.99", round)
			sinks := newVfSinks()
			if sinks.listenUDP(sinkIP+":7000") == nil {
				delivered := false
				for try := 0; try < 120 && !delivered; try++ {
					dynamicHostResolver.addressResolved(host, []string{sinkIP}, nil)
					id := fmt.Sprintf("live%d-%d", round, try)
					m := fmt.Sprintf("OPTIONS sip:svc.verif.test SIP/2.0\r\nVia: SIP/2.0/UDP 127.5.9.9:5060;branch=z9hG4bK%s\r\nFrom: <sip:a@x>;tag=1\r\nTo: <tel:+1>\r\nCall-ID: %s\r\nCSeq: 1 OPTIONS\r\nX-Vf-Probe: %s\r\nContent-Length: 0\r\n\r\n", id, id, id)
					injected := make(chan struct{})
					go func() { fx.inject("127.5.9.9", 5060, []byte(m)); close(injected) }()
					select {
					case <-injected:
					case <-time.After(5 * time.Second):
					}
					delivered = len(sinks.wait(id, 1, 150*time.Millisecond)) > 0
				}
				sinks.close()
				if !delivered {
					buf := make([]byte, 1<<20)
					buf = buf[:runtime.Stack(buf, true)]
					var stuck []string
					for _, gs := range strings.Split(string(buf), "\n\n") {
						if strings.Contains(gs, "receiveAndProcessMessage") || strings.Contains(gs, "hostIPChanged") || strings.Contains(gs, "notifyAddressChanged") {
							if len(gs) > 1500 {
								gs = gs[:1500]
							}
							stuck = append(stuck, gs)
						}
					}
					if len(stuck) > 8 {
						stuck = stuck[:8]
					}
					run.Violation("after backend membership changes under load the proxy loop no longer relays (bounded progress: 120 markers over 18 s+)", map[string]any{"round": round, "goroutines": stuck})
					break
				}
			}
		}
		run.Eval(fmt.Sprintf("round%d", round))
		time.Sleep(20 * time.Millisecond)
	}
	// (e) the same sharing pattern at volume: the resolver's goroutine changes the
	// membership of a rotation while the loop's goroutine dispatches in a tight loop
	// (a panic here ends this child process, which the parent reports)
	{
		rb := NewRoundRobinBackend()
		rb.AddBackend(&c09Sink{addr: "10.9.1.1:5060"})
		stop := make(chan struct{})
		var wg sync.WaitGroup
		wg.Add(1)
		go func() {
			defer wg.Done()
			for {
				select {
				case <-stop:
					return
				default:
				}
				rb.hostIPChanged("tcp", "127.0.0.1:0", "h", []string{"10.9.1.2", "10.9.1.3"}, nil, "5060", func(net.Conn) {})
				rb.hostIPChanged("tcp", "127.0.0.1:0", "h", nil, []string{"10.9.1.3", "10.9.1.2"}, "5060", func(net.Conn) {})
			}
		}()
		n := ev.Pick(600000, 8000000)
		for i := 0; i < n; i++ {
			// TCP backends towards an address nobody listens on: the dial is refused at once
			if i%64 == 0 {
				rb.Send(NewMessage())
			} else {
				idx, err := rb.getNextBackendIndex()
				if err == nil {
					rb.getBackend(idx)
				}
			}
			atomic.AddInt64(&ops, 1)
		}
		close(stop)
		wg.Wait()
		run.Eval("rotation-hammer")
	}
	run.Observe("operations", ops)
	// this process's own race log
	logPath := ""
	for _, f := range strings.Fields(os.Getenv("GORACE")) {
		if strings.HasPrefix(f, "log_path=") {
			logPath = strings.TrimPrefix(f, "log_path=")
		}
	}
	nrep := 0
	if logPath != "" {
		dir := logPath[:strings.LastIndexByte(logPath, '/')]
		for _, rep := range wire.RaceReports(dir, "ochinchina/sipproxy") {
			// reports whose both stacks are harness-only would be the harness's fault
			if rep.Signature == "unattributed" {
				run.Violation("harness race (monitor bug, not a verdict on the repository)", map[string]any{"report": rep.Text})
				continue
			}
			nrep++
			run.Violation("data race: "+rep.Signature, map[string]any{"occurrences": rep.Count, "report": rep.Text})
		}
	} else {
		run.Violation("observed-nothing", "GORACE log_path not set: race reports cannot be collected")
	}
	run.Observe("race_signatures", nrep)
	run.Eval("patterns")
	run.Assume("structures owned by one loop goroutine (dialog table, backend index, transport table entries) are only ever driven through that loop")
	vfFinish(t, run, 2)
}
