//go:build verif

package main

// C09 (in-package part) - race-detector stress of exactly the sharing patterns
// the program has: the self-learned route table shared by the loops of several
// listeners, the UDP buffer pool between receive and parse goroutine, name
// resolution callbacks vs. registration, rotation membership changed by the
// resolver while the loop dispatches (including TCP backends being closed while
// the loop sends). Structures owned by one loop goroutine are never touched
// from a second goroutine here.

import (
	"errors"
	"fmt"
	"math/rand"
	"net"
	"os"
	"strings"
	"sync"
	"sync/atomic"
	"testing"
	"time"

	"vf/ev"
	"vf/wire"
)

func TestVerifC09(t *testing.T) {
	run := ev.New("C09", "exploration",
		"in-process stress under the race detector of the program's real sharing patterns: (a) two proxies (= two listeners of one service) with their own loops sharing one learned-route table, fed concurrently; (b) buffer pool between an allocating and a freeing goroutine; "+
			"(c) host-name registration by several listeners concurrent with resolution results and their notification goroutines; (d) rotation membership driven by resolution results while the loop dispatches to UDP and TCP backends (backends closed while sends are in progress); oracle = deduplicated race reports of this process + panics; distinct = stress patterns x rounds")
	dynamicHostResolver.Stop()
	dynamicHostResolver = &DynamicHostResolver{interval: time.Hour, stop: 1, hostIPs: make(map[string]*AddressWithCallback)}
	rounds := ev.Pick(12, 120)
	var ops int64
	for round := 0; round < rounds; round++ {
		// (a) shared learned-route table, two loops
		slr := NewSelfLearnRoute()
		mk := func(i int) *vfFixture {
			p := NewProxy("svc.verif.test", 1200, fmt.Sprintf("127.5.%d.%d", round, i+1), false, NewPreConfigRoute(), NewPreConfigHostResolver(), slr, true, false)
			item, _ := NewProxyItem(fmt.Sprintf("127.5.%d.%d", round, i+1), 5060, 0, fmt.Sprintf("127.5.%d.%d", round, i+1), 0, []string{fmt.Sprintf("udp://127.5.%d.20%d:7000", round, i)}, nil, true, false, p, slr, p)
			p.AddItem(item)
			return &vfFixture{proxy: p, item: item, trans: item.transports[0], slr: slr}
		}
		fxs := []*vfFixture{mk(0), mk(1), mk(2)}
		var wg sync.WaitGroup
		for i, fx := range fxs {
			wg.Add(1)
			go func(i int, fx *vfFixture) {
				defer wg.Done()
				for k := 0; k < 400; k++ {
					m := fmt.Sprintf("OPTIONS sip:svc.verif.test SIP/2.0\r\nVia: SIP/2.0/UDP 127.5.9.%d:5060;branch=z9hG4bK%d-%d, SIP/2.0/UDP shared.invalid;branch=z9hG4bKx\r\nFrom: <sip:a@x>;tag=1\r\nTo: <tel:+1>\r\nCall-ID: %d-%d\r\nCSeq: 1 OPTIONS\r\nContent-Length: 0\r\n\r\n", k%5, i, k, i, k)
					fx.inject(fmt.Sprintf("127.5.9.%d", k%5), 5060, []byte(m))
					atomic.AddInt64(&ops, 1)
				}
			}(i, fx)
		}
		wg.Wait()
		// (b) buffer pool: one goroutine allocates, another frees (as receive and parse do)
		pool := NewByteArrayPool(64, 1024)
		ch := make(chan []byte, 128)
		wg.Add(2)
		go func() {
			defer wg.Done()
			for k := 0; k < 5000; k++ {
				b := pool.Alloc()
				b[0] = byte(k)
				ch <- b
			}
			close(ch)
		}()
		go func() {
			defer wg.Done()
			for b := range ch {
				_ = b[0]
				pool.Free(b)
				atomic.AddInt64(&ops, 1)
			}
		}()
		wg.Wait()
		// (c) registration of one host name by several listeners while results arrive
		host := fmt.Sprintf("shared%d.verif.test", round)
		var rbs []*RoundRobinBackend
		var rbMu sync.Mutex
		wg.Add(1)
		go func() {
			defer wg.Done()
			for k := 0; k < 40; k++ {
				var err error
				set := []string{fmt.Sprintf("127.5.%d.3%d", round, k%4), fmt.Sprintf("127.5.%d.4%d", round, k%3)}
				if k%7 == 6 {
					err = errors.New("injected failure")
					set = nil
				}
				dynamicHostResolver.addressResolved(host, set, err)
				atomic.AddInt64(&ops, 1)
				time.Sleep(200 * time.Microsecond)
			}
		}()
		for l := 0; l < 4; l++ {
			wg.Add(1)
			go func(l int) {
				defer wg.Done()
				time.Sleep(time.Duration(l) * time.Millisecond)
				rb, err := CreateRoundRobinBackend(fmt.Sprintf("127.5.%d.%d:0", round, 50+l), []string{"udp://" + host + ":7000", "tcp://" + host + ":7001"}, func(c net.Conn) {})
				if err == nil {
					rbMu.Lock()
					rbs = append(rbs, rb)
					rbMu.Unlock()
				}
			}(l)
		}
		wg.Wait()
		// (d) membership changes while the loop dispatches (through a real proxy loop)
		fx, err := newVfFixture("svc.verif.test", fmt.Sprintf("127.5.%d.60", round), 5060, []string{"udp://" + host + ":7000", "tcp://" + host + ":7001"}, 1200, false, false, true, nil, nil)
		if err == nil {
			stop := make(chan struct{})
			wg.Add(1)
			go func() {
				defer wg.Done()
				r := rand.New(rand.NewSource(int64(round)))
				for k := 0; k < 150; k++ {
					n := r.Intn(4)
					var set []string
					for j := 0; j < n; j++ {
						set = append(set, fmt.Sprintf("127.5.%d.7%d", round, (k+j)%5))
					}
					dynamicHostResolver.addressResolved(host, set, nil)
					atomic.AddInt64(&ops, 1)
					time.Sleep(300 * time.Microsecond)
				}
				close(stop)
			}()
			k := 0
		feed:
			for {
				select {
				case <-stop:
					break feed
				default:
				}
				k++
				m := fmt.Sprintf("OPTIONS sip:svc.verif.test SIP/2.0\r\nVia: SIP/2.0/UDP 127.5.9.9:5060;branch=z9hG4bKd%d\r\nFrom: <sip:a@x>;tag=1\r\nTo: <tel:+1>\r\nCall-ID: d%d\r\nCSeq: 1 OPTIONS\r\nContent-Length: 0\r\n\r\n", k, k)
				fx.inject("127.5.9.9", 5060, []byte(m))
				atomic.AddInt64(&ops, 1)
				if k%50 == 0 {
					time.Sleep(100 * time.Microsecond)
				}
			}
			wg.Wait()
		}
		run.Eval(fmt.Sprintf("round%d", round))
		time.Sleep(20 * time.Millisecond)
	}
	run.Observe("operations", ops)
	// this process's own race log
	logPath := ""
	for _, f := range strings.Fields(os.Getenv("GORACE")) {
		if strings.HasPrefix(f, "log_path=") {
			logPath = strings.TrimPrefix(f, "log_path=")
		}
	}
	nrep := 0
	if logPath != "" {
		dir := logPath[:strings.LastIndexByte(logPath, '/')]
		for _, rep := range wire.RaceReports(dir, "ochinchina/sipproxy") {
			// reports whose both stacks are harness-only would be the harness's fault
			if rep.Signature == "unattributed" {
				run.Violation("harness race (monitor bug, not a verdict on the repository)", map[string]any{"report": rep.Text})
				continue
			}
			nrep++
			run.Violation("data race: "+rep.Signature, map[string]any{"occurrences": rep.Count, "report": rep.Text})
		}
	} else {
		run.Violation("observed-nothing", "GORACE log_path not set: race reports cannot be collected")
	}
	run.Observe("race_signatures", nrep)
	run.Eval("patterns")
	run.Assume("structures owned by one loop goroutine (dialog table, backend index, transport table entries) are only ever driven through that loop")
	vfFinish(t, run, 2)
}
