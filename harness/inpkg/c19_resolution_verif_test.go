//go:build verif

package main

// C19 - the rotation follows name resolution. Resolution outcomes are injected
// through the function the resolver's own polling loop calls; membership is read
// through locked accessors, dispatch and attribution are observed on real
// loopback sockets behind a real Proxy loop.

import (
	"errors"
	"fmt"
	"math/rand"
	"sort"
	"strings"
	"sync"
	"sync/atomic"
	"testing"
	"time"

	"vf/ev"
	"vf/sip"
)

type c19Name struct {
	port   int
	name   string
	pool   []string // candidate IPs
	addrs  []string // model: current addresses
	failed int
	ever   map[string]bool
}

func (n *c19Name) apply(success bool, set []string) {
	if success {
		n.addrs = append([]string{}, set...)
		n.failed = 0
		for _, a := range set {
			n.ever[a] = true
		}
		return
	}
	n.failed++
	if n.failed > 3 && len(n.addrs) > 0 {
		n.addrs = nil
		n.failed = 0
	}
}

type c19Worker struct {
	id      int
	scheme  string
	port    int
	fx      *vfFixture
	sinks   *vfSinks
	names   []*c19Name
	svc     string
	probeNo int64
	run     *ev.Run
	stats   *c19Stats
	// forceAttrib: the attribution probes follow every sequence, not one in four
	forceAttrib bool
}

type c19Stats struct {
	steps, dispatchProbes, attribMember, attribRemoved, attribNever, keptOnFailure, emptiedOnFourth, membershipChanges, lateAnswers int64
}

func (w *c19Worker) members() []string {
	var m []string
	for _, n := range w.names {
		for _, a := range n.addrs {
			m = append(m, fmt.Sprintf("%s:%d", a, n.port))
		}
	}
	sort.Strings(m)
	return m
}

func (w *c19Worker) actual() []string {
	var m []string
	for k := range w.fx.item.backend.GetAllBackend() {
		m = append(m, k)
	}
	sort.Strings(m)
	return m
}

func (w *c19Worker) quiesce(trace []string) bool {
	want := strings.Join(w.members(), ",")
	deadline := time.Now().Add(30 * time.Second)
	for {
		got := strings.Join(w.actual(), ",")
		if got == want {
			return true
		}
		if time.Now().After(deadline) {
			w.run.Violation("rotation membership does not match the resolution outcomes", map[string]any{"want_members": want, "rotation_members": got, "outcomes": trace, "scheme": w.scheme})
			return false
		}
		time.Sleep(50 * time.Microsecond)
	}
}

func (w *c19Worker) request(method, probe, callID, fromTag, toTag string) []byte {
	to := "<sip:bob@" + w.svc + ">"
	if toTag != "" {
		to += ";tag=" + toTag
	}
	return []byte(fmt.Sprintf("%s sip:%s SIP/2.0\r\nVia: SIP/2.0/UDP 127.1.0.1:5060;branch=z9hG4bK%s\r\nFrom: <sip:alice@ua.verif.test>;tag=%s\r\nTo: %s\r\nCall-ID: %s\r\nCSeq: 1 %s\r\nX-Vf-Probe: %s\r\nContent-Length: 0\r\n\r\n",
		method, w.svc, probe+callID, fromTag, to, callID, method, probe))
}

// dispatchProbe sends k unpinned requests and checks they reach each member once.
func (w *c19Worker) dispatchProbe(trace []string) bool {
	m := w.members()
	k := len(m)
	id := fmt.Sprintf("w%dd%d", w.id, atomic.AddInt64(&w.probeNo, 1))
	n := k
	if k == 0 {
		n = 2
	}
	for i := 0; i < n; i++ {
		w.fx.inject("127.1.0.1", 5060, w.request("OPTIONS", id, fmt.Sprintf("%s-%d", id, i), "a", ""))
	}
	bound := 10 * time.Second
	if k == 0 {
		bound = 3 * time.Millisecond
	}
	got := w.sinks.wait(id, vfMax(k, 1), bound)
	defer w.sinks.forget(id)
	atomic.AddInt64(&w.stats.dispatchProbes, 1)
	if k == 0 {
		if len(got) != 0 {
			w.run.Violation("requests were dispatched although resolution left no backend", map[string]any{"arrived_at": got, "outcomes": trace})
			return false
		}
		return true
	}
	sort.Strings(got)
	if strings.Join(got, ",") != strings.Join(m, ",") {
		w.run.Violation("dispatch targets differ from the resolved membership", map[string]any{"members": m, "k_dispatches_arrived_at": got, "outcomes": trace, "scheme": w.scheme})
		return false
	}
	return true
}

// lateAnswerProbe: a call is dispatched to a member and left unanswered, the member then drops
// out of the resolution, and only then does its 200 arrive (same transaction, from its own
// address). The sender is no longer in the index: the dialog must follow the rotation - three
// in-dialog requests reach current members, and not all the same one.
func (w *c19Worker) lateAnswerProbe(trace []string) bool {
	if w.scheme != "udp" {
		return true
	}
	m := w.members()
	if len(m) < 3 {
		return true
	}
	id := fmt.Sprintf("w%dl%d", w.id, atomic.AddInt64(&w.probeNo, 1))
	call := id + "-call"
	w.fx.inject("127.1.0.1", 5060, w.request("INVITE", id, call, "ft", ""))
	got := w.sinks.wait(id, 1, 10*time.Second)
	raw := w.sinks.last(id)
	w.sinks.forget(id)
	w.sinks.forgetRaw(id)
	if len(got) != 1 || raw == nil {
		w.run.Violation("a new call was not dispatched although members are registered", map[string]any{"members": m, "outcomes": trace})
		return false
	}
	x := got[0]
	xip := x[:strings.LastIndexByte(x, ':')]
	xport := w.port
	fmt.Sscanf(x[strings.LastIndexByte(x, ':')+1:], "%d", &xport)
	// the member drops out of the resolution of the name that brought it
	for ni, n := range w.names {
		if n.port != xport {
			continue
		}
		var rest []string
		found := false
		for _, a := range n.addrs {
			if a == xip {
				found = true
			} else {
				rest = append(rest, a)
			}
		}
		if !found {
			continue
		}
		dynamicHostResolver.addressResolved(n.name, append([]string{}, rest...), nil)
		n.apply(true, rest)
		trace = append(trace, c19Outcome{ni, true, rest}.String(), "late 200 from "+x)
		break
	}
	if !w.quiesce(trace) {
		return false
	}
	// the rotation has dropped the member; the proxy loop learns of it through an event of its
	// own. The late answer is only late once the loop has taken that event: let the idle loop
	// take it, then pass a whole round of requests through the loop.
	time.Sleep(30 * time.Millisecond)
	if !w.dispatchProbe(trace) {
		return false
	}
	// its answer, built from what it received
	req, err := sip.Read(raw)
	if err != nil {
		return true
	}
	resp := &sip.Msg{Start: "SIP/2.0 200 OK"}
	for _, h := range req.Headers {
		switch sip.Canon(h.Name) {
		case "via", "from", "call-id", "cseq":
			resp.Headers = append(resp.Headers, h)
		case "to":
			resp.Headers = append(resp.Headers, sip.Header{Name: h.Name, Value: h.Value + ";tag=tt"})
		}
	}
	resp.Headers = append(resp.Headers, sip.Header{Name: "Content-Length", Value: "0"})
	w.fx.inject(xip, xport, resp.Bytes())
	id2 := id + "q"
	for i := 0; i < 3; i++ {
		w.fx.inject("127.1.0.1", 5060, w.request("INFO", id2, call, "ft", "tt"))
	}
	cur := w.members()
	arr := w.sinks.wait(id2, 3, 10*time.Second)
	w.sinks.forget(id2)
	atomic.AddInt64(&w.stats.lateAnswers, 1)
	ok := len(arr) == 3 && !(arr[0] == arr[1] && arr[1] == arr[2])
	for _, a := range arr {
		in := false
		for _, c := range cur {
			if c == a {
				in = true
			}
		}
		ok = ok && in
	}
	if !ok {
		w.run.Violation("the late answer of a member that has dropped out of the resolution was attributed to a backend", map[string]any{"answer_from": x, "members_now": cur, "in_dialog_requests_arrived_at": arr, "outcomes": trace, "scheme": w.scheme})
		return false
	}
	return true
}

// dispatchProbeAligned is dispatchProbe for a rotation that may stand anywhere after lost
// dispatches: k requests must still reach each of the k members exactly once (any k consecutive
// dispatches between two membership changes do).
func (w *c19Worker) dispatchProbeAligned(trace []string) bool { return w.dispatchProbe(trace) }

// attribution: an INVITE 200 with both tags sent from address x pins its dialog
// iff x is recognised as a backend; three in-dialog requests show which it was.
func (w *c19Worker) attributionProbe(x string, trace []string) bool {
	m := w.members()
	isMember := false
	for _, a := range m {
		if a == x {
			isMember = true
		}
	}
	ip := x[:strings.LastIndexByte(x, ':')]
	xport := w.port
	fmt.Sscanf(x[strings.LastIndexByte(x, ':')+1:], "%d", &xport)
	var last []string
	for attempt := 0; attempt < 4; attempt++ {
		id := fmt.Sprintf("w%da%d", w.id, atomic.AddInt64(&w.probeNo, 1))
		call := id + "-call"
		resp := fmt.Sprintf("SIP/2.0 200 OK\r\nVia: SIP/2.0/UDP 127.0.0.1:5060;branch=z9hG4bKunknown%s\r\nFrom: <sip:alice@ua.verif.test>;tag=ft\r\nTo: <sip:bob@%s>;tag=tt\r\nCall-ID: %s\r\nCSeq: 1 INVITE\r\nContent-Length: 0\r\n\r\n", id, w.svc, call)
		w.fx.inject(ip, xport, []byte(resp))
		for i := 0; i < 3; i++ {
			req := w.request("INFO", id, call, "ft", "tt")
			w.fx.inject("127.1.0.1", 5060, req)
		}
		want := 3
		if len(m) == 0 && !isMember {
			want = 0
		}
		bound := 300 * time.Millisecond
		got := w.sinks.wait(id, vfMax(want, 1), bound)
		if want == 0 {
			time.Sleep(2 * time.Millisecond)
			got = w.sinks.wait(id, 99, 0)
		}
		w.sinks.forget(id)
		last = got
		ok := len(got) == want
		for _, g := range got {
			if isMember && g != x {
				ok = false
			}
			if !isMember {
				in := false
				for _, a := range m {
					if a == g {
						in = true
					}
				}
				if !in {
					ok = false
				}
			}
		}
		if ok && !isMember && len(m) >= 2 && len(got) == 3 && got[0] == got[1] && got[1] == got[2] {
			// three consecutive requests on one member of several: they were pinned, not rotated
			ok = false
		}
		if ok {
			return true
		}
		time.Sleep(20 * time.Millisecond)
	}
	what := "a response from a current member was not attributed to it"
	if !isMember {
		what = "a response from an address that is not (or no longer) a member was attributed to a backend"
	}
	w.run.Violation(what, map[string]any{"address": x, "members": m, "in_dialog_requests_arrived_at": last, "outcomes": trace, "scheme": w.scheme})
	return false
}

func vfMax(a, b int) int {
	if a > b {
		return a
	}
	return b
}

type c19Outcome struct {
	name    int
	success bool
	set     []string
}

func (o c19Outcome) String() string {
	if !o.success {
		return fmt.Sprintf("n%d:fail", o.name)
	}
	var s []string
	for _, a := range o.set {
		s = append(s, a[strings.LastIndexByte(a, '.')+1:])
	}
	return fmt.Sprintf("n%d:{%s}", o.name, strings.Join(s, ","))
}

// runSequence applies the outcomes with quiescence between steps, then resets.
func (w *c19Worker) runSequence(seq []c19Outcome, probeEvery bool, rnd *rand.Rand) bool {
	var trace []string
	ok := true
	for i, o := range seq {
		n := w.names[o.name]
		before := len(n.addrs)
		beforeFailed := n.failed
		var err error
		if !o.success {
			err = errors.New("injected resolution failure")
		}
		dynamicHostResolver.addressResolved(n.name, append([]string{}, o.set...), err)
		n.apply(o.success, o.set)
		trace = append(trace, o.String())
		atomic.AddInt64(&w.stats.steps, 1)
		if !o.success && before > 0 {
			if beforeFailed < 3 {
				atomic.AddInt64(&w.stats.keptOnFailure, 1)
			} else {
				atomic.AddInt64(&w.stats.emptiedOnFourth, 1)
			}
		}
		if !w.quiesce(trace) {
			ok = false
			break
		}
		got := dynamicHostResolver.GetAddrsOfHost(n.name)
		if strings.Join(got, ",") != strings.Join(n.addrs, ",") {
			w.run.Violation("resolver's own address list differs from the outcome", map[string]any{"want": n.addrs, "got": got, "outcomes": trace})
			ok = false
			break
		}
		if probeEvery || i == len(seq)-1 {
			if !w.dispatchProbe(trace) {
				ok = false
				break
			}
		}
	}
	if ok && rnd != nil && (w.forceAttrib || rnd.Intn(3) == 0) {
		ok = w.lateAnswerProbe(trace)
	}
	if ok && rnd != nil && (w.forceAttrib || rnd.Intn(4) == 0) {
		// attribution probes: a member, a removed address, a never-member
		m := w.members()
		if len(m) >= 2 {
			atomic.AddInt64(&w.stats.attribMember, 1)
			ok = w.attributionProbe(m[rnd.Intn(len(m))], trace) && ok
		}
		for _, n := range w.names {
			for a := range n.ever {
				x := fmt.Sprintf("%s:%d", a, n.port)
				cur := false
				for _, c := range n.addrs {
					if c == a {
						cur = true
					}
				}
				if !cur && ok {
					atomic.AddInt64(&w.stats.attribRemoved, 1)
					ok = w.attributionProbe(x, trace) && ok
					break
				}
			}
		}
		if ok {
			atomic.AddInt64(&w.stats.attribNever, 1)
			ok = w.attributionProbe(fmt.Sprintf("127.4.%d.99:%d", w.id, w.port), trace) && ok
		}
	}
	// reset to the initial state: successful resolution with no address
	for _, n := range w.names {
		dynamicHostResolver.addressResolved(n.name, []string{}, nil)
		n.apply(true, nil)
		n.ever = map[string]bool{}
	}
	if !w.quiesce(append(trace, "reset")) {
		return false
	}
	return ok
}

func newC19Worker(id int, scheme string, twoNames bool, run *ev.Run, stats *c19Stats) (*c19Worker, error) {
	return newC19WorkerX(id, scheme, twoNames, false, run, stats)
}

// samePort: the two host names of the rotation use one port (their address sets must then be
// disjoint at every moment; only scripted sequences are run on such a worker).
// backendLocalPort (optional): [0] the backend-local-port setting of the listener; only meaningful for
// tcp rotations (udp backends of one listener cannot share a fixed local port); [1] = 1: the
// listener address (= backend-local-address) is the address of the first backend of the pool.
func newC19WorkerX(id int, scheme string, twoNames, samePort bool, run *ev.Run, stats *c19Stats, backendLocalPort ...int) (*c19Worker, error) {
	w := &c19Worker{id: id, scheme: scheme, port: 7000, run: run, stats: stats, sinks: newVfSinks(), svc: fmt.Sprintf("svc%d.verif.test", id)}
	if scheme == "tcp" {
		w.port = 7001
	}
	for k := 1; k <= 5; k++ {
		// the second host name of a rotation uses another port; address 3 is in the pools of
		// both names (one machine, two services)
		ports := []int{w.port}
		if samePort {
			// every address listens on the one port
		} else if twoNames && k >= 4 {
			ports = []int{w.port + 2}
		} else if twoNames && k == 3 {
			ports = []int{w.port, w.port + 2}
		}
		for _, pk := range ports {
			a := fmt.Sprintf("127.4.%d.%d:%d", id, k, pk)
			var err error
			if scheme == "udp" {
				err = w.sinks.listenUDP(a)
			} else {
				err = w.sinks.listenTCP(a)
			}
			if err != nil {
				return nil, err
			}
		}
	}
	ip := func(k int) string { return fmt.Sprintf("127.4.%d.%d", id, k) }
	var backends []string
	if twoNames && samePort {
		w.names = []*c19Name{
			{name: fmt.Sprintf("h%da.verif.test", id), port: w.port, pool: []string{ip(1), ip(2), ip(3)}, ever: map[string]bool{}},
			{name: fmt.Sprintf("h%db.verif.test", id), port: w.port, pool: []string{ip(3), ip(4), ip(5)}, ever: map[string]bool{}}}
	} else if twoNames {
		w.names = []*c19Name{
			{name: fmt.Sprintf("h%da.verif.test", id), port: w.port, pool: []string{ip(1), ip(2), ip(3)}, ever: map[string]bool{}},
			{name: fmt.Sprintf("h%db.verif.test", id), port: w.port + 2, pool: []string{ip(3), ip(4), ip(5)}, ever: map[string]bool{}}}
	} else {
		w.names = []*c19Name{{name: fmt.Sprintf("h%da.verif.test", id), port: w.port, pool: []string{ip(1), ip(2), ip(3), ip(4), ip(5)}, ever: map[string]bool{}}}
	}
	for _, n := range w.names {
		backends = append(backends, fmt.Sprintf("%s://%s:%d", scheme, n.name, n.port))
	}
	lp := 0
	if len(backendLocalPort) > 0 {
		lp = backendLocalPort[0]
	}
	listenAddr := "127.0.0.1"
	if len(backendLocalPort) > 1 && backendLocalPort[1] == 1 {
		// the listener (and with it backend-local-address) sits on the machine of its first backend
		listenAddr = ip(1)
	}
	fx, err := newVfFixtureLP(w.svc, listenAddr, 5060, backends, 1200, false, false, false, nil, nil, lp)
	if err != nil {
		return nil, err
	}
	if fx.item.backend == nil {
		return nil, errors.New("rotation not created")
	}
	w.fx = fx
	return w, nil
}

func c19Subsets(pool []string) [][]string {
	var r [][]string
	for mask := 0; mask < 1<<len(pool); mask++ {
		var s []string
		for i, a := range pool {
			if mask&(1<<i) != 0 {
				s = append(s, a)
			}
		}
		r = append(r, s)
	}
	return r
}

func TestVerifC19(t *testing.T) {
	run := ev.New("C19", "fault_enumeration",
		"every sequence of resolution outcomes (failure, or success with any subset of 3 addresses) up to length L, and random sequences up to length 60 over the subsets of 5 addresses with one or two host names, udp and tcp backends; "+
			"outcomes injected through the resolver's own notification entry point with quiescence between steps; oracle = membership model (<=3 failures keep, 4th empties) vs. locked accessors, dispatch probes on real sockets and behavioural attribution probes; distinct = distinct outcome sequences")
	// the periodic DNS polling must not interfere: replace the global resolver by one whose loop never runs
	dynamicHostResolver.Stop()
	dynamicHostResolver = &DynamicHostResolver{interval: time.Hour, stop: 1, hostIPs: make(map[string]*AddressWithCallback)}
	maxLen := ev.Pick(3, 5)
	nrand := ev.Pick(60, 1500)
	workers := 8
	var stats c19Stats
	var seqCount int64
	var wg sync.WaitGroup
	var setupErr atomic.Value
	for wi := 0; wi < workers; wi++ {
		wg.Add(1)
		go func(wi int) {
			defer wg.Done()
			scheme := "udp"
			if wi%2 == 1 {
				scheme = "tcp"
			}
			// exhaustive worker: one name over 3 addresses (two of the workers live on the machine of
			// their first backend: backend-local-address equals that backend's address)
			own := 0
			if wi == 2 || wi == 5 {
				own = 1
			}
			w, err := newC19WorkerX(wi, scheme, false, false, run, &stats, 0, own)
			if err != nil {
				setupErr.Store(err.Error())
				return
			}
			defer w.sinks.close()
			rnd := rand.New(rand.NewSource(run.Seed*77 + int64(wi)))
			subs := c19Subsets(w.names[0].pool[:3])
			var outcomes []c19Outcome
			outcomes = append(outcomes, c19Outcome{0, false, nil})
			for _, s := range subs {
				outcomes = append(outcomes, c19Outcome{0, true, s})
			}
			idx := 0
			for l := 1; l <= maxLen; l++ {
				total := 1
				for i := 0; i < l; i++ {
					total *= len(outcomes)
				}
				for s := 0; s < total; s++ {
					idx++
					if idx%workers != wi {
						continue
					}
					if run.Violations() > 3 {
						return
					}
					seq := make([]c19Outcome, l)
					x := s
					for i := 0; i < l; i++ {
						seq[i] = outcomes[x%len(outcomes)]
						x /= len(outcomes)
					}
					w.runSequence(seq, false, rnd)
					atomic.AddInt64(&seqCount, 1)
				}
			}
			// failure-tolerance ladder explicitly: 0..6 failures after a non-empty set
			for f := 0; f <= 6; f++ {
				seq := []c19Outcome{{0, true, w.names[0].pool[:2]}}
				for i := 0; i < f; i++ {
					seq = append(seq, c19Outcome{0, false, nil})
				}
				seq = append(seq, c19Outcome{0, true, w.names[0].pool[1:3]})
				w.runSequence(seq, true, rnd)
				atomic.AddInt64(&seqCount, 1)
			}
			// two names on one port, an address that moves from one name to the other (never held by
			// both at once): whoever holds it last is the one whose resolution takes it away
			if wi%4 == 0 {
				w3, err := newC19WorkerX(wi+150, scheme, true, true, run, &stats)
				if err != nil {
					setupErr.Store(err.Error())
					return
				}
				a, b := w3.names[0].pool, w3.names[1].pool
				mv := a[2] // == b[0]
				for si, seq := range [][]c19Outcome{
					{{0, true, []string{a[1], mv}}, {1, true, []string{b[1]}}, {0, true, []string{a[1]}}, {1, true, []string{b[1], mv}}, {1, true, []string{b[1]}}},
					{{0, true, []string{a[1], mv}}, {1, true, []string{b[1]}}, {0, true, []string{a[1]}}, {1, true, []string{b[1], mv}}, {1, false, nil}, {1, false, nil}, {1, false, nil}, {1, false, nil}},
					{{1, true, []string{mv, b[2]}}, {0, true, []string{a[0]}}, {1, true, []string{b[2]}}, {0, true, []string{a[0], mv}}, {0, true, []string{a[0]}}},
					{{1, true, []string{mv}}, {1, true, []string{}}, {0, true, []string{mv, a[0]}}, {0, true, []string{a[0]}}, {1, true, []string{mv}}, {1, true, []string{}}},
				} {
					w3.runSequence(seq, true, nil)
					atomic.AddInt64(&seqCount, 1)
					run.Eval(fmt.Sprintf("moving-address-w%d-%d", wi, si))
				}
				w3.sinks.close()
			}
			// a resolved tcp address refuses a connection at the moment something is dispatched to it
			// and accepts again afterwards; the name keeps resolving to the same addresses: the
			// rotation still contains exactly the resolved addresses
			if scheme == "tcp" {
				for o := 0; o < 4 && run.Violations() <= 3; o++ {
					n0 := w.names[0]
					set := append([]string{}, n0.pool[:3]...)
					victim := fmt.Sprintf("%s:%d", set[rnd.Intn(3)], n0.port)
					trace := []string{"n0:{1,2,3}", "one resolved tcp address refuses the connection of a dispatch, accepts again, same resolution again"}
					early := o%2 == 1
					if early {
						// the address is published before its instance accepts connections
						trace[1] = "one tcp address is resolved before it accepts connections, accepts later, same resolution again"
						w.sinks.dropTCP(victim)
						time.Sleep(5 * time.Millisecond)
					}
					dynamicHostResolver.addressResolved(n0.name, append([]string{}, set...), nil)
					n0.apply(true, set)
					if !w.quiesce(trace) || (!early && !w.dispatchProbe(trace)) {
						break
					}
					if !early {
						w.sinks.dropTCP(victim)
						time.Sleep(5 * time.Millisecond)
					}
					id := fmt.Sprintf("w%drf%d", w.id, o)
					for i := 0; i < 3; i++ {
						w.fx.inject("127.1.0.1", 5060, w.request("OPTIONS", id, fmt.Sprintf("%s-%d", id, i), "a", ""))
					}
					w.sinks.wait(id, 2, 10*time.Second)
					time.Sleep(10 * time.Millisecond)
					w.sinks.forget(id)
					var lerr error
					for try := 0; try < 50; try++ {
						if lerr = w.sinks.listenTCP(victim); lerr == nil {
							break
						}
						time.Sleep(20 * time.Millisecond)
					}
					if lerr != nil {
						run.Inconclusive(1)
						return
					}
					dynamicHostResolver.addressResolved(n0.name, append([]string{}, set...), nil)
					n0.apply(true, set)
					ok := w.quiesce(trace)
					for cyc := 0; cyc < 2 && ok; cyc++ {
						ok = w.dispatchProbeAligned(trace)
					}
					atomic.AddInt64(&stats.steps, 1)
					run.Eval(fmt.Sprintf("refused-then-back-w%d-%d", wi, o))
					dynamicHostResolver.addressResolved(n0.name, []string{}, nil)
					n0.apply(true, nil)
					n0.ever = map[string]bool{}
					if !w.quiesce([]string{"reset"}) {
						return
					}
				}
			}
			// random sequences over subsets of 5, half of the workers with two names
			w2 := w
			if wi%4 >= 2 {
				w2, err = newC19Worker(wi+100, scheme, true, run, &stats)
				if err != nil {
					setupErr.Store(err.Error())
					return
				}
				defer w2.sinks.close()
			}
			if w2 != w {
				// one address in the pools of both names (another port each): when one name drops it,
				// only that name's backend goes - what still answers from the address under the
				// other port stays recognised, what answers from the dropped port does not
				p0, p1 := w2.names[0].pool, w2.names[1].pool
				shared := p0[2]
				w2.forceAttrib = true
				for _, seq := range [][]c19Outcome{
					{{0, true, []string{shared, p0[0]}}, {1, true, []string{shared, p1[1]}}, {0, true, []string{p0[0]}}},
					{{0, true, []string{shared, p0[1]}}, {1, true, []string{shared, p1[2]}}, {1, true, []string{p1[2]}}},
					{{1, true, []string{shared}}, {0, true, []string{shared, p0[0], p0[1]}}, {0, true, []string{p0[1], p0[0]}}, {0, false, nil}},
					{{0, true, []string{shared}}, {1, true, []string{shared, p1[1]}}, {1, true, []string{}}},
				} {
					w2.runSequence(seq, true, rnd)
					atomic.AddInt64(&seqCount, 1)
					run.Eval(fmt.Sprintf("shared-address-w%d-%v", wi, seq))
				}
				w2.forceAttrib = false
			}
			for r := wi; r < nrand; r += workers {
				if run.Violations() > 3 {
					return
				}
				l := 1 + rnd.Intn(60)
				seq := make([]c19Outcome, l)
				for i := range seq {
					ni := rnd.Intn(len(w2.names))
					if rnd.Intn(3) == 0 {
						seq[i] = c19Outcome{ni, false, nil}
					} else {
						subs := c19Subsets(w2.names[ni].pool)
						set := append([]string{}, subs[rnd.Intn(len(subs))]...)
						rnd.Shuffle(len(set), func(a, b int) { set[a], set[b] = set[b], set[a] })
						seq[i] = c19Outcome{ni, true, set}
					}
				}
				w2.runSequence(seq, rnd.Intn(3) == 0, rnd)
				run.Eval(fmt.Sprintf("rand-w%d-%d", wi, r))
				if run.WantSample() && l < 12 {
					var ss []string
					for _, o := range seq {
						ss = append(ss, o.String())
					}
					run.Sample(map[string]any{"scheme": scheme, "names": len(w2.names), "outcomes": ss})
				}
			}
		}(wi)
	}
	if !vfAwait(run, &wg, &stats.steps, 60, "resolution outcomes are no longer applied: no step completed for 60 s") {
		vfFinish(t, run, 0)
		return
	}
	if e := setupErr.Load(); e != nil {
		t.Fatalf("C19 harness setup failed (needs loopback addresses 127.4.x.y): %v", e)
	}
	run.EvalDistinct(seqCount)
	run.Observe("exhaustive_sequences", seqCount)
	run.Observe("exhaustive_max_length", maxLen)
	run.Observe("outcome_steps", stats.steps)
	run.Observe("late_answers_of_members_that_had_dropped_out", stats.lateAnswers)
	run.Observe("dispatch_probes", stats.dispatchProbes)
	run.Observe("attribution_probes_member", stats.attribMember)
	run.Observe("attribution_probes_removed_address", stats.attribRemoved)
	run.Observe("attribution_probes_never_member", stats.attribNever)
	run.Observe("failures_that_had_to_keep_the_set", stats.keptOnFailure)
	run.Observe("failures_that_had_to_empty_the_set", stats.emptiedOnFourth)
	if stats.keptOnFailure == 0 || stats.emptiedOnFourth == 0 || stats.attribMember == 0 || stats.attribRemoved == 0 {
		run.Violation("observed-nothing", map[string]any{"kept": stats.keptOnFailure, "emptied": stats.emptiedOnFourth, "attrib_member": stats.attribMember, "attrib_removed": stats.attribRemoved})
	}
	run.Exhaustive(false)
	run.Assume("outcomes are delivered with quiescence between steps (bounded polling <= 2 s), as the quantifier states; the periodic DNS loop is replaced by direct calls of the function it calls")
	vfFinish(t, run, 100)
}
