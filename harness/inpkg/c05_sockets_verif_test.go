//go:build verif

package main

// C05, observed at real sockets: the rotation is built the way the binary builds
// it (backend URLs with host names, real UDP / TCP backend objects), its
// membership is changed through the resolver's notification entry point, and
// after every change k unpinned requests are injected into the real proxy loop
// and counted at the loopback sockets of the members: each member exactly once.
// (The membership model and the socket fixture are the ones of the C19 check;
// here only successful resolutions occur - pure add / remove histories.)

import (
	"fmt"
	"math/rand"
	"sync"
	"sync/atomic"
	"testing"
	"time"

	"vf/ev"
)

func TestVerifC05Sockets(t *testing.T) {
	run := ev.New("C05", "exploration",
		"add / remove histories (random subsets of 5 addresses, one or two host names feeding one rotation, udp and tcp backends, up to 40 changes each) applied to rotations made of the real backend objects; after every change k unpinned requests go through the real proxy loop and are counted at the members' loopback sockets; "+
			"oracle = each registered member receives exactly one of k consecutive dispatches and nobody else receives anything; distinct = distinct histories")
	dynamicHostResolver.Stop()
	dynamicHostResolver = &DynamicHostResolver{interval: time.Hour, stop: 1, hostIPs: make(map[string]*AddressWithCallback)}
	nseq := ev.Pick(400, 1200)
	ntrial := ev.Pick(25, 100)
	var firstMember, floods, outages, fixedLocalPort int64
	noutage := ev.Pick(6, 18)
	workers := 8
	var stats c19Stats
	var wg sync.WaitGroup
	var setupErr atomic.Value
	for wi := 0; wi < workers; wi++ {
		wg.Add(1)
		go func(wi int) {
			defer wg.Done()
			scheme := "udp"
			if wi%4 == 3 {
				scheme = "tcp"
			}
			// one of the tcp rotations belongs to a listener with a fixed backend-local-port
			lp := 0
			if scheme == "tcp" && wi == 7 {
				lp = 17000 + wi
				atomic.AddInt64(&fixedLocalPort, 1)
			}
			w, err := newC19WorkerX(200+wi, scheme, wi%2 == 1, false, run, &stats, lp)
			if err != nil {
				setupErr.Store(err.Error())
				return
			}
			defer w.sinks.close()
			rnd := rand.New(rand.NewSource(run.Seed*131 + int64(wi)))
			for r := wi; r < nseq; r += workers {
				if run.Violations() > 3 {
					return
				}
				l := 2 + rnd.Intn(39)
				seq := make([]c19Outcome, l)
				for i := range seq {
					ni := rnd.Intn(len(w.names))
					subs := c19Subsets(w.names[ni].pool)
					set := append([]string{}, subs[rnd.Intn(len(subs))]...)
					rnd.Shuffle(len(set), func(a, b int) { set[a], set[b] = set[b], set[a] })
					seq[i] = c19Outcome{ni, true, set}
				}
				w.runSequence(seq, true, nil)
				run.Eval(fmt.Sprintf("sockets-w%d-%d", wi, r))
			}
			// a member is down for a moment while requests are dispatched to it, and comes back on the
			// same address without any change of membership: from then on every k consecutive
			// dispatches reach each of the k members again
			if scheme == "udp" {
				for o := 0; o < noutage && run.Violations() <= 3; o++ {
					n0 := w.names[0]
					set := append([]string{}, n0.pool[:3]...)
					dynamicHostResolver.addressResolved(n0.name, append([]string{}, set...), nil)
					n0.apply(true, set)
					trace := []string{"n0:{1,2,3}", "one member down for a moment, dispatches meanwhile, member back"}
					if !w.quiesce(trace) || !w.dispatchProbe(trace) {
						break
					}
					victim := fmt.Sprintf("%s:%d", set[rnd.Intn(3)], n0.port)
					w.sinks.dropUDP(victim)
					for i := 0; i < 1+2*rnd.Intn(3); i++ {
						w.fx.inject("127.1.0.1", 5060, w.request("OPTIONS", "outage", fmt.Sprintf("outage-%d-%d", o, i), "a", ""))
					}
					time.Sleep(20 * time.Millisecond)
					w.sinks.forget("outage")
					if err := w.sinks.listenUDP(victim); err != nil {
						run.Inconclusive(1)
						return
					}
					time.Sleep(5 * time.Millisecond)
					// the rotation may stand anywhere: two whole cycles, each member twice
					good := true
					for cyc := 0; cyc < 2 && good; cyc++ {
						good = w.dispatchProbeAligned(trace)
					}
					atomic.AddInt64(&outages, 1)
					atomic.AddInt64(&stats.steps, 1)
					run.Eval(fmt.Sprintf("outage-w%d-%d", wi, o))
					dynamicHostResolver.addressResolved(n0.name, []string{}, nil)
					n0.apply(true, nil)
					n0.ever = map[string]bool{}
					if !w.quiesce([]string{"reset"}) {
						return
					}
				}
			}
			// a TCP member refuses connections for a while but stays registered: what is dispatched to
			// it is lost, every other member still gets exactly its share - one of every k
			if scheme == "tcp" {
				for o := 0; o < noutage && run.Violations() <= 3; o++ {
					n0 := w.names[0]
					set := append([]string{}, n0.pool[:3]...)
					dynamicHostResolver.addressResolved(n0.name, append([]string{}, set...), nil)
					n0.apply(true, set)
					trace := []string{"n0:{1,2,3}", "one tcp member refuses connections but stays registered"}
					if !w.quiesce(trace) || !w.dispatchProbe(trace) {
						break
					}
					victim := fmt.Sprintf("%s:%d", set[rnd.Intn(3)], n0.port)
					w.sinks.dropTCP(victim)
					time.Sleep(5 * time.Millisecond)
					id := fmt.Sprintf("w%dt%d", w.id, o)
					const cycles = 3
					for i := 0; i < 3*cycles; i++ {
						w.fx.inject("127.1.0.1", 5060, w.request("OPTIONS", id, fmt.Sprintf("%s-%d", id, i), "a", ""))
					}
					got := w.sinks.wait(id, 2*cycles, 10*time.Second)
					time.Sleep(10 * time.Millisecond)
					got = w.sinks.wait(id, 99, 0)
					w.sinks.forget(id)
					count := map[string]int{}
					for _, a := range got {
						count[a]++
					}
					bad := len(got) != 2*cycles || count[victim] != 0
					for _, a := range w.members() {
						if a != victim && count[a] != cycles {
							bad = true
						}
					}
					if bad {
						run.Violation("with one registered member unreachable the others no longer get one dispatch of every k", map[string]any{"members": w.members(), "unreachable": victim, "dispatches": 3 * cycles, "arrivals_per_member": count, "scheme": scheme})
					}
					var lerr error
					for try := 0; try < 50; try++ {
						if lerr = w.sinks.listenTCP(victim); lerr == nil {
							break
						}
						time.Sleep(20 * time.Millisecond)
					}
					if lerr != nil {
						// the member's address cannot be listened on again: this worker's sockets no longer
						// match its model, it ends here
						run.Inconclusive(1)
						return
					}
					atomic.AddInt64(&outages, 1)
					atomic.AddInt64(&stats.steps, 1)
					run.Eval(fmt.Sprintf("tcp-outage-w%d-%d", wi, o))
					dynamicHostResolver.addressResolved(n0.name, []string{}, nil)
					n0.apply(true, nil)
					n0.ever = map[string]bool{}
					if !w.quiesce([]string{"reset"}) {
						return
					}
				}
			}
			// the first member arrives while the loop is busy with traffic: every request submitted
			// after the registration has completed must be dispatched to it
			name := w.names[0]
			for trial := 0; trial < ntrial && run.Violations() <= 3; trial++ {
				stop := make(chan struct{})
				var fl sync.WaitGroup
				fl.Add(1)
				go func() {
					defer fl.Done()
					for k := 0; ; k++ {
						select {
						case <-stop:
							return
						default:
						}
						w.fx.inject("127.1.0.1", 5060, w.request("OPTIONS", "fill", fmt.Sprintf("fill-%d-%d", trial, k), "a", ""))
						atomic.AddInt64(&floods, 1)
					}
				}()
				time.Sleep(time.Duration(100+rnd.Intn(400)) * time.Microsecond)
				set := []string{name.pool[rnd.Intn(len(name.pool))]}
				dynamicHostResolver.addressResolved(name.name, append([]string{}, set...), nil)
				name.apply(true, set)
				ok := w.quiesce([]string{"first member under traffic"})
				id := fmt.Sprintf("w%df%d", w.id, trial)
				const nprobe = 5
				if ok {
					for i := 0; i < nprobe; i++ {
						w.fx.inject("127.1.0.1", 5060, w.request("OPTIONS", id, fmt.Sprintf("%s-%d", id, i), "a", ""))
					}
				}
				close(stop)
				fl.Wait()
				atomic.AddInt64(&stats.steps, 1)
				if ok {
					got := w.sinks.wait(id, nprobe, 10*time.Second)
					atomic.AddInt64(&firstMember, 1)
					if len(got) != nprobe {
						run.Violation("requests submitted while a backend was registered were not dispatched", map[string]any{"submitted_after_registration": nprobe, "arrived": len(got), "member": w.members(), "scheme": w.scheme, "situation": "first backend of an empty rotation registered while the proxy loop was busy with other requests"})
					}
					w.sinks.forget(id)
					run.Eval(fmt.Sprintf("first-member-w%d-%d", wi, trial))
				}
				w.sinks.forget("fill")
				dynamicHostResolver.addressResolved(name.name, []string{}, nil)
				name.apply(true, nil)
				name.ever = map[string]bool{}
				if !w.quiesce([]string{"reset"}) {
					return
				}
				// let the loop work off what the flood left behind
				time.Sleep(2 * time.Millisecond)
			}
		}(wi)
	}
	if !vfAwait(run, &wg, &stats.steps, 60, "the rotation stopped moving: neither a membership change nor a dispatch completed for 60 s") {
		vfFinish(t, run, 0)
		return
	}
	if e := setupErr.Load(); e != nil {
		run.Violation("harness: socket fixture not created", map[string]any{"error": e})
	}
	run.Observe("membership_changes_applied", stats.steps)
	run.Observe("dispatch_probes_counted_at_sockets", stats.dispatchProbes)
	run.Observe("first_member_registered_under_traffic_trials", firstMember)
	run.Observe("members_down_for_a_moment_and_back", outages)
	run.Observe("filler_requests_injected_meanwhile", floods)
	run.Observe("tcp_rotations_of_a_listener_with_fixed_backend_local_port", fixedLocalPort)
	if stats.dispatchProbes < int64(nseq) {
		run.Violation("observed-nothing", map[string]any{"dispatch_probes": stats.dispatchProbes})
	}
	run.Exhaustive(false)
	vfFinish(t, run, int64(nseq)*9/10)
}
