//go:build verif

package main

// C16 - dialog identity: the identifier the repository computes must be a
// bijection with the canonical key (Call-ID, unordered pair of (tag, URI sans
// parameters/headers)), whatever the orientation, message kind and decoration.

import (
	"fmt"
	"math/rand"
	"sort"
	"strings"
	"testing"

	"vf/ev"
	"vf/sip"
)

type c16Party struct {
	tag string
	uri string // canonical text: SIP URI without params/headers, other URIs whole
}

type c16Case struct {
	callID string
	a, b   c16Party
}

func (c c16Case) key() string {
	x := c.a.tag + "\x00" + c.a.uri
	y := c.b.tag + "\x00" + c.b.uri
	if y < x {
		x, y = y, x
	}
	return c.callID + "\x01" + x + "\x01" + y
}

// c16Render builds one concrete message for the case. variant selects
// orientation (bit 0), request/response (bit 1) and the decoration (bits 2..).
func c16Render(c c16Case, variant int, rnd *rand.Rand) string {
	from, to := c.a, c.b
	if variant&1 == 1 {
		from, to = c.b, c.a
	}
	// the decoration walks through its list with the case and the variant
	kh := 0
	for _, ch := range []byte(c.key()) {
		kh = (kh*31 + int(ch)) & 0xffff
	}
	deco := ((variant >> 2) + kh) % 10
	party := func(p c16Party, other bool) string {
		isSIP := strings.HasPrefix(p.uri, "sip:") || strings.HasPrefix(p.uri, "sips:")
		uri := p.uri
		tagp := ""
		if p.tag != "\x00none" {
			tagp = ";tag=" + p.tag
		}
		switch deco {
		case 0:
			return "<" + uri + ">" + tagp
		case 1:
			return "\"Some One\" <" + uri + ">" + tagp
		case 2:
			if isSIP {
				uri += ";transport=tcp;user=phone"
			}
			return "<" + uri + ">" + tagp
		case 3:
			if isSIP {
				uri += ";x=1?Subject=hi"
			}
			return "Bob <" + uri + ">;extra=1" + tagp + ";other"
		case 9:
			// a header parameter whose value is a quoted string, after the URI
			return "\"Front Desk\" <" + uri + ">;x-site=\"north\"" + tagp
		case 8:
			// many header parameters, the tag not among the first ones
			return "<" + uri + ">;a=1;b=2;c;d=4" + tagp + ";e=5;f"
		case 6:
			// URI headers only, their value containing a further '?'
			if isSIP {
				uri += "?Subject=who?me"
			}
			return "<" + uri + ">" + tagp
		case 7:
			if isSIP {
				uri += "?Subject=Lunch?&Priority=urgent"
			}
			return "\"Help Desk\" <" + uri + ">" + tagp + ";x=y"
		case 4:
			// bare addr-spec (legal only without URI params; ';' then starts header params)
			if strings.ContainsAny(uri, ";?,") {
				return "<" + uri + ">" + tagp
			}
			return uri + tagp
		default:
			if isSIP && other {
				uri += ";lr"
			}
			return "<" + uri + ">;a=b" + tagp
		}
	}
	fromName, toName, cidName := "From", "To", "Call-ID"
	switch (variant >> 2) % 4 {
	case 1:
		fromName, toName, cidName = "f", "t", "i"
	case 2:
		fromName, toName, cidName = "FROM", "to", "call-id"
	case 3:
		fromName, toName, cidName = "F", "T", "I"
	}
	// the method and the status are no part of the attribution: they walk through their lists
	// with the case and the variant
	pick := variant
	for _, ch := range []byte(c.key()) {
		pick = pick*31 + int(ch)
		if pick < 0 {
			pick = -pick
		}
	}
	methods := []string{"BYE", "INVITE", "ACK", "INFO", "NOTIFY", "UPDATE", "MESSAGE", "SUBSCRIBE", "REFER", "PRACK"}
	statuses := []string{"200 OK", "100 Trying", "180 Ringing", "183 Session Progress", "202 Accepted", "302 Moved Temporarily", "404 Not Found", "486 Busy Here", "503 Service Unavailable", "603 Decline", "401 Unauthorized"}
	method := methods[pick%len(methods)]
	var b strings.Builder
	if variant&2 == 0 {
		b.WriteString(method + " sip:svc@example.com SIP/2.0\r\n")
	} else {
		b.WriteString("SIP/2.0 " + statuses[(pick/7)%len(statuses)] + "\r\n")
	}
	hs := []string{
		"Via: SIP/2.0/UDP 192.0.2.1:5060;branch=z9hG4bKx",
		fromName + ": " + party(from, false),
		toName + ": " + party(to, true),
		cidName + ": " + c.callID,
		"CSeq: 2 " + method,
	}
	if rnd != nil {
		rnd.Shuffle(len(hs), func(i, j int) { hs[i], hs[j] = hs[j], hs[i] })
	}
	for _, h := range hs {
		b.WriteString(h + "\r\n")
	}
	b.WriteString("Content-Length: 0\r\n\r\n")
	return b.String()
}

type c16Monitor struct {
	idOfKey map[string]string
	keyOfID map[string]string
	witness map[string]string // key -> one message text
}

func TestVerifC16(t *testing.T) {
	// the process also runs a service whose host table gives the hosts of these URIs an address
	// (two of the names the same one): what a name resolves to is no part of a dialog's identity
	{
		res := NewPreConfigHostResolver()
		for _, h := range []string{"h", "g", "H", "example.com", "ims.mnc001.mcc001.3gppnetwork.org"} {
			res.AddHostIP(h, "192.0.2.1")
		}
		NewProxy("c16.verif.test", 1200, "127.0.0.1", false, NewPreConfigRoute(), res, NewSelfLearnRoute(), false, false)
	}
	run := ev.New("C16", "exploration",
		"all assignments of (Call-ID, two tags, two URIs) over small alphabets (equal URIs, equal tags, '-' values included) x orientation x request (10 methods) / response (11 status codes incl. 100 and 1xx) x 10 decorations (display names, URI parameters, URI headers - also with a further '?' in their value -, header parameters, bare addr-spec) x 4 header-name spellings, users that differ only inside a %HH escape, a host written with capitals, plus random long identifiers; "+
			"monitor: identifier <-> canonical key must be a bijection and tag-less messages must yield no identifier; distinct = distinct canonical keys")
	// (values whose concatenations coincide - "a"+"11" / "a1"+"1", "sip:h"+"21" / "sip:h2"+"1" -
	// are there for identifiers that lose a boundary between their parts)
	callIDs := []string{"a", "a-b", "b", "a-b-1", "a1"}
	tags := []string{"1", "b-1", "2", "1-2", "-", "11", "21"}
	uris := []string{"sip:h", "sip:u@h", "sip:u@h:5060", "sip:v@h", "sip:u@g", "tel:+1", "urn:service:sos", "sip:h-2", "sip:h2", "sip:u@Big.Host", "sip:a%2Bb@h", "sip:a%3Bb@h"}
	if ev.Thorough() {
		callIDs = append(callIDs, "1", "a-1", "x@h", "-")
		tags = append(tags, "a", "2-b", "a-b")
		uris = append(uris, "sips:u@h", "sip:u:pw@h", "sip:h:5061", "tel:+1;phone-context=x", "sip:U@h")
	}
	mon := &c16Monitor{idOfKey: map[string]string{}, keyOfID: map[string]string{}, witness: map[string]string{}}
	nvariants := 24
	if !ev.Thorough() {
		nvariants = 12 // both orientations x request/response x 3 decorations
	}
	messages := int64(0)
	observe := func(c c16Case, text string) bool {
		m, err := vfParseUDP([]byte(text))
		if err != nil {
			run.Violation("message not decoded", map[string]string{"message": text, "error": err.Error()})
			return false
		}
		id, err := m.GetDialog()
		messages++
		if err != nil || id == "" {
			run.Violation("no identifier for a message with both tags", map[string]string{"message": text})
			return false
		}
		k := c.key()
		if old, ok := mon.idOfKey[k]; ok && old != id {
			run.Violation("same dialog, different identifiers", map[string]string{"message_1": mon.witness[k], "id_1": old, "message_2": text, "id_2": id})
			return false
		}
		if oldk, ok := mon.keyOfID[id]; ok && oldk != k {
			run.Violation("different dialogs, same identifier", map[string]string{"message_1": mon.witness[oldk], "message_2": text, "id": id})
			return false
		}
		mon.idOfKey[k] = id
		mon.keyOfID[id] = k
		if _, ok := mon.witness[k]; !ok {
			mon.witness[k] = text
		}
		return true
	}
	bad := 0
	for _, cid := range callIDs {
		for _, ta := range tags {
			for _, tb := range tags {
				for _, ua := range uris {
					for _, ub := range uris {
						if bad > 30 {
							break
						}
						c := c16Case{callID: cid, a: c16Party{ta, ua}, b: c16Party{tb, ub}}
						for v := 0; v < nvariants; v++ {
							text := c16Render(c, v, nil)
							if !observe(c, text) {
								bad++
								break
							}
							if run.WantSample() && v == 7 && ua != ub {
								run.Sample(map[string]string{"message": text, "key": strings.ReplaceAll(strings.ReplaceAll(c.key(), "\x00", "|"), "\x01", " || ")})
							}
						}
						run.EvalN("k:"+c.key(), int64(nvariants))
					}
				}
			}
		}
	}
	// tag-less messages belong to no dialog
	notag := 0
	for _, ua := range uris {
		for _, ub := range uris {
			for v := 0; v < nvariants; v++ {
				for side := 0; side < 2; side++ {
					c := c16Case{callID: "a", a: c16Party{"1", ua}, b: c16Party{"2", ub}}
					if side == 0 {
						c.a.tag = "\x00none"
					} else {
						c.b.tag = "\x00none"
					}
					text := c16Render(c, v, nil)
					m, err := vfParseUDP([]byte(text))
					if err != nil {
						continue
					}
					notag++
					if id, err := m.GetDialog(); err == nil && id != "" {
						run.Violation("identifier for a message lacking a tag", map[string]string{"message": text, "id": id})
					}
				}
			}
		}
	}
	run.EvalN("", int64(notag))
	run.Count("tagless_messages", int64(notag))
	// random long realistic identifiers, headers in random order
	g := sip.NewGen(run.Seed)
	nrand := ev.Pick(20000, 400000)
	for i := 0; i < nrand && bad <= 30; i++ {
		mk := func() c16Party {
			u, _ := g.AnyURI(sip.URIOpts{NoParams: true, NoFindings: true})
			s := u.String()
			if !u.IsSIP() {
				if j := strings.IndexByte(s, ';'); j >= 0 {
					s = s[:j]
				}
			}
			return c16Party{tag: strings.TrimRight(g.Tag(), "%"), uri: s}
		}
		c := c16Case{callID: g.Alnum(8, 32) + "@" + g.Host(), a: mk(), b: mk()}
		if g.R.Intn(10) == 0 {
			c.b.uri = c.a.uri
		}
		if g.R.Intn(20) == 0 {
			c.b.tag = c.a.tag
		}
		vs := []int{g.R.Intn(nvariants), g.R.Intn(nvariants), g.R.Intn(nvariants)}
		sort.Ints(vs)
		for _, v := range vs {
			if !observe(c, c16Render(c, v, g.R)) {
				bad++
				break
			}
		}
		run.EvalN("r:"+c.key(), 3)
	}
	// long identifiers (a 70-100 byte Call-ID, 40-90 byte tags, long host names) in families
	// whose members differ in exactly one component - the last characters of the Call-ID, of a
	// tag, of a user, of a host, a port: every member is another dialog
	nfam := ev.Pick(300, 6000)
	for i := 0; i < nfam && bad <= 30; i++ {
		long := func(lo, hi int) string { return g.Alnum(lo, hi) }
		base := c16Case{callID: long(70, 100) + "@" + long(10, 30) + ".example.net",
			a: c16Party{tag: long(40, 90), uri: "sip:" + long(10, 40) + "@" + long(10, 40) + ".ims.mnc001.mcc262.3gppnetwork.org:5060"},
			b: c16Party{tag: long(40, 90), uri: "sip:" + long(10, 40) + "@" + long(10, 40) + ".ims.mnc002.mcc262.3gppnetwork.org:5062"}}
		bump := func(s string) string { // another last character
			c := s[len(s)-1]
			if c == 'x' {
				return s[:len(s)-1] + "y"
			}
			return s[:len(s)-1] + "x"
		}
		fam := []c16Case{base, base, base, base, base, base, base, base}
		fam[1].callID = bump(base.callID)
		fam[2].a.tag = bump(base.a.tag)
		fam[3].b.tag = bump(base.b.tag)
		fam[4].a.uri = strings.Replace(base.a.uri, "@", "x@", 1)
		fam[5].b.uri = strings.Replace(base.b.uri, "@", "x@", 1)
		fam[6].a.uri = strings.Replace(base.a.uri, ":5060", ":5061", 1)
		fam[7].b.uri = strings.Replace(base.b.uri, ".ims.mnc002", "x.ims.mnc002", 1)
		for k, c := range fam {
			for _, v := range []int{g.R.Intn(nvariants), g.R.Intn(nvariants)} {
				if !observe(c, c16Render(c, v, g.R)) {
					bad++
					break
				}
			}
			run.EvalN(fmt.Sprintf("family|member%d|%d", k, i), 2)
		}
	}
	run.Observe("families_of_long_identifiers", nfam)
	run.Observe("messages_decoded", messages)
	run.Observe("distinct_identifiers", len(mon.keyOfID))
	run.Observe("alphabet", map[string]any{"call_ids": callIDs, "tags": tags, "uris": uris})
	run.Exhaustive(false)
	run.Assume(fmt.Sprintf("exhaustive only over the listed alphabets (%d call-ids x %d^2 tags x %d^2 URIs x %d variants)", len(callIDs), len(tags), len(uris), nvariants))
	vfFinish(t, run, 1000)
}
