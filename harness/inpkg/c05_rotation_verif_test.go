//go:build verif

package main

// C05 - strict rotation over the current members. Sequential histories are
// checked by an epoch/window monitor, concurrent ones by porcupine against a
// membership model.

import (
	"fmt"
	"math/rand"
	"runtime"
	"sort"
	"strings"
	"sync"
	"sync/atomic"
	"testing"
	"time"

	"github.com/anishathalye/porcupine"

	"vf/ev"
)

// c05Backend is a Backend double that records which message it received.
type c05Backend struct {
	addr   string
	sink   *sync.Map // *Message -> addr
	park   chan struct{}
	closed int32
	order  *[]string // sequential runs: receive order (single goroutine)
}

func (b *c05Backend) Send(msg *Message) error {
	if b.order != nil {
		*b.order = append(*b.order, b.addr)
	}
	if b.sink != nil {
		b.sink.Store(msg, b.addr)
	}
	if b.park != nil {
		<-b.park
	}
	return nil
}
func (b *c05Backend) GetAddress() string { return b.addr }
func (b *c05Backend) Close()             { atomic.StoreInt32(&b.closed, 1) }

// c05Counter is a Backend double that only counts deliveries.
type c05Counter struct {
	addr string
	n    *int64
}

func (b *c05Counter) Send(*Message) error { atomic.AddInt64(b.n, 1); return nil }
func (b *c05Counter) GetAddress() string  { return b.addr }
func (b *c05Counter) Close()              {}

// c05Marker is a Backend double that only notes that it was the one chosen.
type c05Marker struct {
	addr string
	id   int
	last *int
}

func (b *c05Marker) Send(*Message) error { *b.last = b.id; return nil }
func (b *c05Marker) GetAddress() string  { return b.addr }
func (b *c05Marker) Close()              {}

type c05Op struct {
	kind byte // 'a' add, 'r' remove, 'd' dispatch
	addr int
}

func (o c05Op) String() string {
	if o.kind == 'd' {
		return "d"
	}
	return fmt.Sprintf("%c%d", o.kind, o.addr)
}

func c05SeqString(ops []c05Op) string {
	s := make([]string, len(ops))
	for i, o := range ops {
		s[i] = o.String()
	}
	return strings.Join(s, " ")
}

// c05RunSequential executes ops on a fresh RoundRobinBackend and monitors it.
// It returns "" or a description of the violation.
func c05RunSequential(ops []c05Op, naddr int) (why string, dispatches int, epochsWithFullWindow int) {
	rb := NewRoundRobinBackend()
	var order []string
	member := map[string]bool{}
	doubles := map[string]*c05Backend{}
	var epoch []string // dispatch targets since the last membership change
	k := 0
	checkEpoch := func() {
		if k > 0 && len(epoch) >= k {
			epochsWithFullWindow++
		}
	}
	for i, op := range ops {
		addr := fmt.Sprintf("10.0.0.%d:5060", op.addr+1)
		switch op.kind {
		case 'a':
			checkEpoch()
			d := &c05Backend{addr: addr, order: &order}
			doubles[addr] = d
			rb.AddBackend(d)
			member[addr] = true
			epoch, k = nil, len(member)
		case 'r':
			checkEpoch()
			rb.RemoveBackend(addr)
			if member[addr] {
				delete(member, addr)
				epoch, k = nil, len(member)
			}
		case 'd':
			before := len(order)
			var err error
			if p := vfRecover("dispatch", func() { err = rb.Send(nil) }); p != "" {
				return fmt.Sprintf("step %d: %s", i, p), dispatches, epochsWithFullWindow
			}
			got := order[before:]
			if len(member) == 0 {
				if err == nil || len(got) != 0 {
					return fmt.Sprintf("step %d: dispatch with no member: err=%v delivered=%v", i, err, got), dispatches, epochsWithFullWindow
				}
				continue
			}
			if err != nil {
				return fmt.Sprintf("step %d: dispatch failed although %d members are registered: %v", i, len(member), err), dispatches, epochsWithFullWindow
			}
			if len(got) != 1 {
				return fmt.Sprintf("step %d: one dispatch delivered %d times: %v", i, len(got), got), dispatches, epochsWithFullWindow
			}
			dispatches++
			if !member[got[0]] {
				return fmt.Sprintf("step %d: dispatch reached %s which is not registered", i, got[0]), dispatches, epochsWithFullWindow
			}
			epoch = append(epoch, got[0])
			n := len(epoch)
			if n <= k {
				// the first k dispatches of an epoch must be pairwise distinct
				for _, e := range epoch[:n-1] {
					if e == got[0] {
						return fmt.Sprintf("step %d: %s received twice within %d consecutive dispatches over %d members (epoch %v)", i, got[0], n, k, epoch), dispatches, epochsWithFullWindow
					}
				}
			} else if epoch[n-1] != epoch[n-1-k] {
				return fmt.Sprintf("step %d: cyclic order changed inside an epoch: %v (k=%d)", i, epoch, k), dispatches, epochsWithFullWindow
			}
		}
	}
	checkEpoch()
	// counts: after N dispatches in the final epoch every member has floor or ceil
	if k > 0 && len(epoch) > 0 {
		cnt := map[string]int{}
		for _, e := range epoch {
			cnt[e]++
		}
		lo, hi := len(epoch)/k, (len(epoch)+k-1)/k
		for m := range member {
			if cnt[m] < lo || cnt[m] > hi {
				return fmt.Sprintf("uneven spread in final epoch: %v over %d members", cnt, k), dispatches, epochsWithFullWindow
			}
		}
	}
	for a, d := range doubles {
		if !member[a] && atomic.LoadInt32(&d.closed) == 0 {
			// a removed backend must have been closed (it receives nothing further)
			return fmt.Sprintf("backend %s removed but not closed", a), dispatches, epochsWithFullWindow
		}
	}
	return "", dispatches, epochsWithFullWindow
}

type c05In struct {
	Kind byte
	Addr string
}

func c05Model() porcupine.Model {
	return porcupine.Model{
		Init: func() interface{} { return "" },
		Step: func(state, input, output interface{}) (bool, interface{}) {
			st := state.(string)
			in := input.(c05In)
			set := map[string]bool{}
			if st != "" {
				for _, m := range strings.Split(st, ",") {
					set[m] = true
				}
			}
			enc := func() string {
				ms := make([]string, 0, len(set))
				for m := range set {
					ms = append(ms, m)
				}
				sort.Strings(ms)
				return strings.Join(ms, ",")
			}
			switch in.Kind {
			case 'a':
				set[in.Addr] = true
				return true, enc()
			case 'r':
				delete(set, in.Addr)
				return true, enc()
			default:
				out := output.(string)
				if out == "" { // error
					return len(set) == 0, st
				}
				return set[out], st
			}
		},
		DescribeOperation: func(input, output interface{}) string {
			in := input.(c05In)
			if in.Kind == 'd' {
				return fmt.Sprintf("dispatch -> %q", output)
			}
			return fmt.Sprintf("%c %s", in.Kind, in.Addr)
		},
	}
}

// c05Concurrent records one concurrent history and returns it with the number
// of dispatches that overlapped a membership change.
func c05Concurrent(rnd *rand.Rand, parkSome bool) ([]porcupine.Operation, int) {
	rb := NewRoundRobinBackend()
	sink := &sync.Map{}
	var clock int64
	tick := func() int64 { return atomic.AddInt64(&clock, 1) }
	var mu sync.Mutex
	var ops []porcupine.Operation
	add := func(o porcupine.Operation) { mu.Lock(); ops = append(ops, o); mu.Unlock() }
	naddr := 3 + rnd.Intn(3)
	nmem := 1 + rnd.Intn(2)
	ndisp := 2 + rnd.Intn(3)
	perMem := 6 + rnd.Intn(8)
	perDisp := 6 + rnd.Intn(10)
	park := make(chan struct{})
	var parked int32
	// addresses are partitioned among membership goroutines so that no address
	// is ever added while present
	var wg sync.WaitGroup
	start := make(chan struct{})
	seeds := make([]int64, nmem+ndisp)
	for i := range seeds {
		seeds[i] = rnd.Int63()
	}
	initial := rnd.Intn(naddr + 1)
	present := make([]bool, naddr)
	for a := 0; a < initial; a++ {
		addr := fmt.Sprintf("10.0.0.%d:5060", a+1)
		c, _ := tick(), 0
		rb.AddBackend(&c05Backend{addr: addr, sink: sink})
		add(porcupine.Operation{ClientId: 0, Input: c05In{'a', addr}, Call: c, Output: "", Return: tick()})
		present[a] = true
	}
	for m := 0; m < nmem; m++ {
		wg.Add(1)
		go func(m int) {
			defer wg.Done()
			r := rand.New(rand.NewSource(seeds[m]))
			var mine []int
			for a := m; a < naddr; a += nmem {
				mine = append(mine, a)
			}
			<-start
			for i := 0; i < perMem; i++ {
				a := mine[r.Intn(len(mine))]
				addr := fmt.Sprintf("10.0.0.%d:5060", a+1)
				if present[a] {
					c := tick()
					rb.RemoveBackend(addr)
					add(porcupine.Operation{ClientId: m, Input: c05In{'r', addr}, Call: c, Output: "", Return: tick()})
					present[a] = false
				} else {
					b := &c05Backend{addr: addr, sink: sink}
					if parkSome && r.Intn(3) == 0 {
						b.park = park
					}
					c := tick()
					rb.AddBackend(b)
					add(porcupine.Operation{ClientId: m, Input: c05In{'a', addr}, Call: c, Output: "", Return: tick()})
					present[a] = true
				}
				if r.Intn(3) == 0 {
					time.Sleep(time.Duration(r.Intn(50)) * time.Microsecond)
				}
			}
		}(m)
	}
	var dwg sync.WaitGroup
	for d := 0; d < ndisp; d++ {
		dwg.Add(1)
		go func(d int) {
			defer dwg.Done()
			r := rand.New(rand.NewSource(seeds[nmem+d]))
			<-start
			for i := 0; i < perDisp; i++ {
				msg := NewMessage()
				c := tick()
				atomic.AddInt32(&parked, 1)
				var err error
				panicked := vfRecover("dispatch", func() { err = rb.Send(msg) })
				atomic.AddInt32(&parked, -1)
				ret := tick()
				out := ""
				if v, ok := sink.Load(msg); ok {
					out = v.(string)
				}
				if panicked != "" {
					out = "PANIC: " + panicked // never legal
				}
				if err != nil && out != "" {
					out = "ERR+" + out // delivered and failed: never legal
				}
				if err == nil && out == "" {
					out = "LOST"
				}
				add(porcupine.Operation{ClientId: nmem + d, Input: c05In{'d', ""}, Call: c, Output: out, Return: ret})
				if r.Intn(4) == 0 {
					time.Sleep(time.Duration(r.Intn(30)) * time.Microsecond)
				}
			}
		}(d)
	}
	close(start)
	// release parked dispatches only after the membership goroutines are done,
	// so that removals provably overlap chosen dispatches
	wg.Wait()
	close(park)
	dwg.Wait()
	// count dispatches whose interval contains a membership operation
	overlap := 0
	for _, o := range ops {
		if o.Input.(c05In).Kind != 'd' {
			continue
		}
		for _, p := range ops {
			if p.Input.(c05In).Kind != 'd' && p.Call < o.Return && p.Return > o.Call {
				overlap++
				break
			}
		}
	}
	return ops, overlap
}

func TestVerifC05(t *testing.T) {
	run := ev.New("C05", "exploration",
		"(a) every sequence of add/remove/dispatch up to length L over 4 addresses (add-while-present excluded) under an epoch/window rotation monitor; (b) random sequences up to length 400 over 5 addresses; "+
			"(c) concurrent histories (membership changes racing with dispatches, some dispatches parked inside Send) checked by porcupine against the membership model; distinct = distinct operation sequences / histories")
	maxLen := ev.Pick(5, 7)
	const naddr = 4
	// (a) exhaustive DFS, parallel over first operations
	var first []c05Op
	for a := 0; a < naddr; a++ {
		first = append(first, c05Op{'a', a}, c05Op{'r', a})
	}
	first = append(first, c05Op{'d', 0})
	var seqs, disp, fullEpochs int64
	var wg sync.WaitGroup
	for _, f := range first {
		wg.Add(1)
		go func(f c05Op) {
			defer wg.Done()
			var lseq, ldisp, lfull int64
			var rec func(ops []c05Op, present [naddr]bool)
			rec = func(ops []c05Op, present [naddr]bool) {
				if run.Violations() > 5 {
					return
				}
				lseq++
				why, d, fe := c05RunSequential(ops, naddr)
				ldisp += int64(d)
				lfull += int64(fe)
				if why != "" {
					run.Violation("sequential rotation", map[string]any{"sequence": c05SeqString(ops), "why": why})
					return
				}
				if len(ops) == maxLen {
					return
				}
				for a := 0; a < naddr; a++ {
					if !present[a] {
						p := present
						p[a] = true
						rec(append(append([]c05Op{}, ops...), c05Op{'a', a}), p)
					}
					p := present
					p[a] = false
					rec(append(append([]c05Op{}, ops...), c05Op{'r', a}), p)
				}
				rec(append(append([]c05Op{}, ops...), c05Op{'d', 0}), present)
			}
			var p [naddr]bool
			if f.kind == 'a' {
				p[f.addr] = true
			}
			rec([]c05Op{f}, p)
			atomic.AddInt64(&seqs, lseq)
			atomic.AddInt64(&disp, ldisp)
			atomic.AddInt64(&fullEpochs, lfull)
		}(f)
	}
	wg.Wait()
	run.Observe("exhaustive_sequences", seqs)
	run.Observe("exhaustive_max_length", maxLen)
	run.Observe("exhaustive_dispatches_monitored", disp)
	run.Observe("exhaustive_epochs_with_full_window", fullEpochs)
	// each exhaustive sequence is a distinct case; they are counted, not stored
	run.EvalDistinct(seqs)
	// (b) random long sequences over 5 addresses
	rnd := rand.New(rand.NewSource(run.Seed))
	nrand := ev.Pick(400, 8000)
	for i := 0; i < nrand && run.Violations() <= 5; i++ {
		n := 20 + rnd.Intn(381)
		var present [5]bool
		ops := make([]c05Op, 0, n)
		for len(ops) < n {
			switch x := rnd.Intn(10); {
			case x < 7:
				ops = append(ops, c05Op{'d', 0})
			case x < 9:
				a := rnd.Intn(5)
				if !present[a] {
					present[a] = true
					ops = append(ops, c05Op{'a', a})
				}
			default:
				a := rnd.Intn(5)
				present[a] = false
				ops = append(ops, c05Op{'r', a})
			}
		}
		why, d, fe := c05RunSequential(ops, 5)
		disp += int64(d)
		fullEpochs += int64(fe)
		if why != "" {
			run.Violation("sequential rotation (random)", map[string]any{"sequence": c05SeqString(ops), "why": why})
		}
		run.Eval(fmt.Sprintf("rand-%d-%x", n, rnd.Int63()))
		if run.WantSample() && i < 2 {
			run.Sample(map[string]any{"kind": "random sequence", "ops": c05SeqString(ops[:40]) + " ...", "length": n})
		}
	}
	// (b2) long epochs: hundreds of thousands (thorough: millions) of dispatches without a
	// membership change, over pools of 1-7 members - the rotation must not drift however long
	// it has been turning; after a removal and a re-add it goes on the same way
	{
		nlong := int64(ev.Pick(140000, 4500000))
		var longDisp int64
		for k := 1; k <= 7 && run.Violations() <= 5; k++ {
			rb := NewRoundRobinBackend()
			last := -1
			hist := make([]int, 0, 8)
			mk := func(i int) Backend { return &c05Marker{addr: fmt.Sprintf("10.0.1.%d:5060", i+1), id: i, last: &last} }
			for i := 0; i < k; i++ {
				rb.AddBackend(mk(i))
			}
			bad := ""
			step := func(n int64, members int) {
				hist = hist[:0]
				for d := int64(0); d < n && bad == ""; d++ {
					last = -1
					var err error
					if p := vfRecover("dispatch", func() { err = rb.Send(nil) }); p != "" {
						bad = p
						break
					}
					if err != nil || last < 0 {
						bad = fmt.Sprintf("dispatch %d of the epoch failed or reached nobody (err=%v)", d, err)
						break
					}
					if len(hist) < members {
						for _, h := range hist {
							if h == last {
								bad = fmt.Sprintf("dispatch %d of the epoch: member %d received twice within %d consecutive dispatches", d, last, members)
							}
						}
						hist = append(hist, last)
					} else {
						if hist[int(d)%members] != last {
							bad = fmt.Sprintf("dispatch %d of the epoch went to member %d, the dispatch %d earlier went to member %d (k=%d)", d, last, members, hist[int(d)%members], members)
						}
					}
					longDisp++
				}
			}
			step(nlong, k)
			if bad == "" && k > 1 {
				// one member leaves and comes back: a new epoch of the same size
				rb.RemoveBackend("10.0.1.1:5060")
				step(int64(3*k), k-1)
				if bad == "" {
					rb.AddBackend(mk(0))
					step(nlong/4, k)
				}
			}
			if bad != "" {
				run.Violation("rotation drifted in a long epoch", map[string]any{"members": k, "why": bad})
			}
			run.Eval(fmt.Sprintf("long-epoch-k%d", k))
		}
		run.Observe("dispatches_in_long_epochs", longDisp)
	}
	run.Observe("random_sequences", nrand)
	run.Observe("epochs_with_full_window_total", fullEpochs)
	// (c) concurrent histories
	nconc := ev.Pick(300, 5000)
	model := c05Model()
	overlaps, okc, unknown := 0, 0, 0
	for i := 0; i < nconc && run.Violations() <= 5; i++ {
		// bounded progress: a history of ~60 operations that does not finish within a
		// minute means dispatchers and membership changers block each other for good
		type hres struct {
			ops []porcupine.Operation
			ov  int
		}
		hch := make(chan hres, 1)
		hseed := rnd.Int63()
		go func() {
			o, v := c05Concurrent(rand.New(rand.NewSource(hseed)), i%2 == 0)
			hch <- hres{o, v}
		}()
		var ops []porcupine.Operation
		var ov int
		select {
		case r := <-hch:
			ops, ov = r.ops, r.ov
		case <-time.After(60 * time.Second):
			buf := make([]byte, 1<<19)
			buf = buf[:runtime.Stack(buf, true)]
			var stuck []string
			for _, gs := range strings.Split(string(buf), "\n\n") {
				if strings.Contains(gs, "RoundRobinBackend") {
					if len(gs) > 900 {
						gs = gs[:900]
					}
					stuck = append(stuck, gs)
				}
			}
			if len(stuck) > 6 {
				stuck = stuck[:6]
			}
			run.Violation("dispatches racing with membership changes never returned (the rotation's operations block each other)", map[string]any{"history_number": i, "goroutines": stuck})
			run.Observe("concurrent_histories", i)
			run.Exhaustive(false)
			vfFinish(t, run, 1000)
			return
		}
		overlaps += ov
		res, _ := porcupine.CheckOperationsVerbose(model, ops, 60*time.Second)
		switch res {
		case porcupine.Ok:
			okc++
		case porcupine.Unknown:
			unknown++
			run.Inconclusive(1)
		default:
			var hist []string
			sort.Slice(ops, func(a, b int) bool { return ops[a].Call < ops[b].Call })
			for _, o := range ops {
				hist = append(hist, fmt.Sprintf("[%d,%d] c%d %s", o.Call, o.Return, o.ClientId, model.DescribeOperation(o.Input, o.Output)))
			}
			run.Violation("concurrent history not linearizable against the membership model", map[string]any{"history": hist})
		}
		run.Eval(fmt.Sprintf("conc-%d-%d", len(ops), ov))
		if run.WantSample() && ov > 3 {
			var hist []string
			sort.Slice(ops, func(a, b int) bool { return ops[a].Call < ops[b].Call })
			for _, o := range ops[:vfMin(len(ops), 25)] {
				hist = append(hist, fmt.Sprintf("[%d,%d] c%d %s", o.Call, o.Return, o.ClientId, model.DescribeOperation(o.Input, o.Output)))
			}
			run.Sample(map[string]any{"kind": "concurrent history (first 25 ops)", "ops": hist, "dispatches_overlapping_a_change": ov})
		}
	}
	run.Observe("concurrent_histories", nconc)
	run.Observe("concurrent_linearizable", okc)
	run.Observe("concurrent_checker_timeouts", unknown)
	run.Observe("dispatches_overlapping_membership_change", overlaps)
	if overlaps == 0 {
		run.Violation("observed-nothing", "no dispatch overlapped a membership change in any concurrent history")
	}
	// (d) hammer: one permanent member, two transient ones added and removed as fast
	// as possible while another goroutine dispatches in a tight loop. With a
	// permanent member the set is never empty, so no dispatch may fail, panic or
	// get lost - whatever instant of a dispatch a removal hits.
	{
		rb := NewRoundRobinBackend()
		var delivered int64
		perm := &c05Counter{addr: "10.9.0.1:5060", n: &delivered}
		rb.AddBackend(perm)
		stop := make(chan struct{})
		var changes int64
		var wgm sync.WaitGroup
		wgm.Add(1)
		go func() {
			defer wgm.Done()
			for {
				select {
				case <-stop:
					return
				default:
				}
				rb.AddBackend(&c05Counter{addr: "10.9.0.2:5060", n: &delivered})
				rb.AddBackend(&c05Counter{addr: "10.9.0.3:5060", n: &delivered})
				rb.RemoveBackend("10.9.0.3:5060")
				rb.RemoveBackend("10.9.0.2:5060")
				atomic.AddInt64(&changes, 4)
			}
		}()
		n := ev.Pick(1500000, 30000000)
		var failed, panics int64
		firstBad := ""
		var progress int64
		hammerDone := make(chan struct{})
		go func() {
			defer close(hammerDone)
			for i := 0; i < n && panics == 0 && failed < 5; i++ {
				var err error
				if p := vfRecover("dispatch", func() { err = rb.Send(nil) }); p != "" {
					panics++
					firstBad = p
				} else if err != nil {
					failed++
					if firstBad == "" {
						firstBad = fmt.Sprintf("dispatch %d failed: %v", i, err)
					}
				}
				atomic.AddInt64(&progress, 1)
			}
		}()
		// bounded progress: the dispatcher must keep moving while members come and go
		stalledFor := 0
		last := int64(-1)
	watch:
		for {
			select {
			case <-hammerDone:
				break watch
			case <-time.After(5 * time.Second):
				cur := atomic.LoadInt64(&progress) + atomic.LoadInt64(&changes)
				if cur == last {
					stalledFor += 5
				} else {
					stalledFor = 0
				}
				last = cur
				if stalledFor >= 60 {
					run.Violation("dispatch and membership changes block each other for good (no dispatch and no change completed for 60 s)", map[string]any{"dispatches_done": atomic.LoadInt64(&progress), "membership_changes_done": atomic.LoadInt64(&changes)})
					run.Observe("hammer_dispatches", atomic.LoadInt64(&progress))
					run.Eval("hammer-stalled")
					run.Exhaustive(false)
					vfFinish(t, run, 1000)
					return
				}
			}
		}
		close(stop)
		wgm.Wait()
		run.Observe("hammer_dispatches", n)
		run.Observe("hammer_membership_changes", atomic.LoadInt64(&changes))
		if panics > 0 || failed > 0 {
			run.Violation("a dispatch racing with membership changes failed although a backend was registered all the time", map[string]any{"first": firstBad, "failed": failed, "panics": panics, "membership_changes_so_far": atomic.LoadInt64(&changes)})
		}
		run.Eval("hammer")
	}
	run.Exhaustive(false)
	run.Assume("strict evenness is demanded only inside an epoch (between two membership changes); a dispatch overlapping a change must merely reach a backend that was a member at some point of its interval")
	vfFinish(t, run, 1000)
}
