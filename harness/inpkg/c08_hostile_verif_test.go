//go:build verif

package main

// C08 (volume part) - hostile inputs through both readers and then through the
// real proxy loop (decode, learn, stamp, route, pin, relay) in child processes.
// Every input is journalled before it is used, so a dead child names its killer.

import (
	"bufio"
	"bytes"
	"encoding/base64"
	"encoding/binary"
	"encoding/json"
	"fmt"
	"io"
	"net"
	"os"
	"os/exec"
	"path/filepath"
	"runtime"
	"strconv"
	"strings"
	"sync"
	"testing"
	"time"

	"vf/ev"
	"vf/sip"
)

type c08ChildResult struct {
	Inputs        int              `json:"inputs"`
	Bytes         int64            `json:"bytes"`
	ParsedUDP     int              `json:"parsed_udp"`
	ParsedTCP     int              `json:"parsed_tcp"`
	Injected      int              `json:"injected"`
	Mutators      map[string]int   `json:"mutators"`
	Markers       int              `json:"markers"`
	Violations    []map[string]any `json:"violations"`
	MaxDeltaRatio float64          `json:"max_alloc_ratio"`
	MaxHeapSysMiB float64          `json:"max_heapsys_mib"`
	Done          bool             `json:"done"`
}

const c08Batch = 50
const c08Segment = 1000

func c08JournalPath(dir string, w, seg int) string {
	return filepath.Join(dir, fmt.Sprintf("journal-%d-%d.bin", w, seg))
}

// c08LastInputs returns the inputs of the last two journal segments of worker w
// together with the index of the first one.
func c08LastInputs(dir string, w int) ([][]byte, int) {
	last := -1
	for s := 0; ; s++ {
		if _, err := os.Stat(c08JournalPath(dir, w, s)); err != nil {
			if s > last+2 {
				break
			}
			continue
		}
		last = s
	}
	if last < 0 {
		return nil, 0
	}
	var out [][]byte
	first := last * c08Segment
	if last > 0 {
		if prev := c08ReadJournal(c08JournalPath(dir, w, last-1)); prev != nil {
			out = append(out, prev...)
			first = (last - 1) * c08Segment
		}
	}
	out = append(out, c08ReadJournal(c08JournalPath(dir, w, last))...)
	return out, first
}

func c08Seeds(g *sip.Gen, w int, n int) [][]byte {
	hop := fmt.Sprintf("127.4.%d.201", w)
	svc := "svc.verif.test"
	var seeds [][]byte
	for i := 0; i < n; i++ {
		id := fmt.Sprintf("c08s%d", i)
		var m *sip.Msg
		switch i % 5 {
		case 0, 1: // to a backend
			m = &sip.Msg{Start: g.Method() + " sip:" + g.Alnum(1, 6) + "@" + svc + " SIP/2.0"}
		case 2: // by Route
			m = &sip.Msg{Start: g.Method() + " sip:x@foreign.example SIP/2.0"}
			m.Headers = append(m.Headers, sip.Header{Name: "Route", Value: fmt.Sprintf("<sip:%s:5060;lr%s>", hop, []string{"", ";transport=tcp", ";transport=udp"}[g.R.Intn(3)])})
		case 3: // static route
			m = &sip.Msg{Start: g.Method() + " sip:x@foreign.example SIP/2.0"}
		default: // response
			m = &sip.Msg{Start: fmt.Sprintf("SIP/2.0 %d %s", 100+g.R.Intn(600), g.Reason())}
		}
		if m.IsRequest() {
			m.Headers = append(m.Headers, sip.Header{Name: "Via", Value: fmt.Sprintf("SIP/2.0/UDP 127.4.%d.100:5060;branch=z9hG4bK%s;rport", w, id)})
			if g.R.Intn(2) == 0 {
				m.Headers = append(m.Headers, sip.Header{Name: "Via", Value: "SIP/2.0/TCP " + g.Hostname() + ".invalid;branch=z9hG4bKx"})
			}
		} else {
			m.Headers = append(m.Headers, sip.Header{Name: "Via", Value: "SIP/2.0/UDP 127.0.0.1:5060;branch=z9hG4bKtop"},
				sip.Header{Name: "Via", Value: fmt.Sprintf("SIP/2.0/%s %s:5060;branch=z9hG4bK%s", []string{"UDP", "TCP"}[g.R.Intn(2)], hop, id)})
		}
		to := "<sip:bob@nomatch.example>"
		if i%5 == 3 {
			to = "<sip:bob@exact.verif.test>"
		}
		if g.R.Intn(3) == 0 {
			to += ";tag=" + g.Tag()
		}
		m.Headers = append(m.Headers,
			sip.Header{Name: "Max-Forwards", Value: "70"},
			sip.Header{Name: "From", Value: "\"A\" <sip:alice@ua.verif.test>;tag=" + g.Tag()},
			sip.Header{Name: "To", Value: to},
			sip.Header{Name: "Call-ID", Value: id + "@c08"},
			sip.Header{Name: "CSeq", Value: fmt.Sprintf("%d %s", 1+g.R.Intn(100), []string{"INVITE", "BYE", "SUBSCRIBE", "NOTIFY", "OPTIONS"}[g.R.Intn(5)])})
		if g.R.Intn(3) == 0 {
			m.Headers = append(m.Headers, sip.Header{Name: "Record-Route", Value: "<sip:rr.invalid;lr>"})
		}
		if g.R.Intn(4) == 0 {
			m.Headers = append(m.Headers, sip.Header{Name: "Subscription-State", Value: "terminated"}, sip.Header{Name: "Expires", Value: "60"})
		}
		for k := g.R.Intn(4); k > 0; k-- {
			n, _ := g.ExtName()
			v, _ := g.ExtValue(300)
			m.Headers = append(m.Headers, sip.Header{Name: n, Value: v})
		}
		body, _ := g.Body(3000)
		m.Body = body
		m.Headers = append(m.Headers, sip.Header{Name: "Content-Length", Value: fmt.Sprint(len(body))})
		seeds = append(seeds, m.Bytes())
	}
	return seeds
}

// c08Child processes one shard. It never returns an error through the test
// framework: everything goes to the result file.
func c08Child(spec string) {
	// spec: seed:worker:count:dir
	f := strings.SplitN(spec, ":", 4)
	seed, _ := strconv.ParseInt(f[0], 10, 64)
	w, _ := strconv.Atoi(f[1])
	count, _ := strconv.Atoi(f[2])
	dir := f[3]
	res := &c08ChildResult{Mutators: map[string]int{}}
	writeRes := func() {
		b, _ := json.Marshal(res)
		os.WriteFile(filepath.Join(dir, fmt.Sprintf("result-%d.json", w)), b, 0o644)
	}
	// the journal only has to name the inputs around a death: it is kept in segments
	// of c08Segment inputs of which the last two survive
	seg := 0
	journal, _ := os.Create(c08JournalPath(dir, w, seg))
	defer func() { journal.Close() }()
	dynamicHostResolver.Stop()
	routes := NewPreConfigRoute()
	routes.AddRouteItem("udp", "exact.verif.test", fmt.Sprintf("127.4.%d.201:5060", w))
	be := fmt.Sprintf("127.4.%d.1:7000", w)
	fx, err := newVfFixture("svc.verif.test,^rx-[a-z]+@regex", fmt.Sprintf("127.4.%d.250", w), 5060, []string{"udp://" + be, fmt.Sprintf("udp://127.4.%d.2:7000", w)}, 1200, w%2 == 0, w%3 == 0, true, routes, nil)
	if err != nil {
		res.Violations = append(res.Violations, map[string]any{"key": "harness", "why": err.Error()})
		writeRes()
		return
	}
	if err := fx.startUDP(); err != nil {
		res.Violations = append(res.Violations, map[string]any{"key": "harness", "why": err.Error()})
		writeRes()
		return
	}
	sinks := newVfSinks()
	for _, a := range []string{be, fmt.Sprintf("127.4.%d.2:7000", w)} {
		if err := sinks.listenUDP(a); err != nil {
			res.Violations = append(res.Violations, map[string]any{"key": "harness", "why": err.Error()})
			writeRes()
			return
		}
	}
	tcpTrans := NewTCPServerTransport(fmt.Sprintf("127.4.%d.250", w), 5070, true, nil, fx.slr)
	g := sip.NewGen(seed*1000 + int64(w))
	seeds := c08Seeds(g, w, 200)
	replay := os.Getenv("VF_C08_REPLAY")
	var replayInputs [][]byte
	if replay != "" {
		replayInputs = c08ReadJournal(replay)
		count = len(replayInputs)
	}
	single := os.Getenv("VF_C08_SINGLE") != ""
	marker := func(n int) bool {
		id := fmt.Sprintf("mk%d", n)
		m := fmt.Sprintf("OPTIONS sip:svc.verif.test SIP/2.0\r\nVia: SIP/2.0/UDP 127.4.%d.100:5060;branch=z9hG4bK%s\r\nFrom: <sip:m@x>;tag=1\r\nTo: <sip:svc.verif.test>\r\nCall-ID: %s\r\nCSeq: 1 OPTIONS\r\nX-Vf-Probe: %s\r\nContent-Length: 0\r\n\r\n", w, id, id, id)
		fx.inject(fmt.Sprintf("127.4.%d.100", w), 5060, []byte(m))
		got := sinks.wait(id, 1, 20*time.Second)
		sinks.forget(id)
		res.Markers++
		return len(got) >= 1
	}
	var ms0, ms1 runtime.MemStats
	runtime.ReadMemStats(&ms0)
	baseHeapSys := ms0.HeapSys
	var batchBytes int64
	dummy := &c11Conn0{}
	for i := 0; i < count; i++ {
		var in []byte
		var mut string
		if replayInputs != nil {
			in, mut = replayInputs[i], "replay"
		} else {
			in, mut = g.Mutate(seeds[g.R.Intn(len(seeds))])
			if i%40 == 17 {
				// a valid request that has passed hundreds of elements, each with a name of its own:
				// over a run the proxy sees tens of thousands of distinct Via hosts
				in, mut = c08ManyVia(g, w, i), "many-distinct-via-hosts"
			}
		}
		if len(in) > 65535 {
			in = in[:65535]
		}
		// journal first
		if i > 0 && i%c08Segment == 0 {
			journal.Close()
			seg++
			journal, _ = os.Create(c08JournalPath(dir, w, seg))
			os.Remove(c08JournalPath(dir, w, seg-2))
		}
		var hdr [8]byte
		binary.LittleEndian.PutUint32(hdr[:4], uint32(i))
		binary.LittleEndian.PutUint32(hdr[4:], uint32(len(in)))
		journal.Write(hdr[:])
		journal.Write(in)
		res.Inputs++
		res.Bytes += int64(len(in))
		batchBytes += int64(len(in))
		res.Mutators[strings.SplitN(mut, "=", 2)[0]]++
		var mu, mt *Message
		if p := vfRecover("ParseMessage(udp reader)", func() { mu, _ = vfParseUDP(in) }); p != "" {
			res.Violations = append(res.Violations, map[string]any{"key": "parser panic", "why": p, "mutator": mut, "input_b64": base64.StdEncoding.EncodeToString(in), "input_text": c08Printable(in)})
		}
		if p := vfRecover("ParseMessage(tcp reader)", func() { mt, _ = vfParseTCP(in) }); p != "" {
			res.Violations = append(res.Violations, map[string]any{"key": "parser panic", "why": p, "mutator": mut, "input_b64": base64.StdEncoding.EncodeToString(in), "input_text": c08Printable(in)})
		}
		peer := fmt.Sprintf("127.4.%d.100", w)
		if mu != nil {
			res.ParsedUDP++
			res.Injected++
			fx.proxy.HandleRawMessage(NewRawMessage(peer, 5060, fx.trans, true, mu))
		}
		if mt != nil {
			res.ParsedTCP++
			// (decided by the input itself, so that a replay takes the same path)
			if h := c08Hash(in); h%2 == 0 {
				res.Injected++
				mt.ReceivedFrom = tcpTrans
				rm := NewRawMessage(peer, 40000+int(h%1000), tcpTrans, h%4 == 0, mt)
				rm.TcpConn = dummy
				fx.proxy.HandleRawMessage(rm)
			}
		}
		if single || i%c08Batch == c08Batch-1 || i == count-1 {
			if !marker(i) {
				res.Violations = append(res.Violations, map[string]any{"key": "message loop stalled", "why": fmt.Sprintf("a valid request sent after input %d was not relayed within 20 s", i), "first_input_of_batch": i - i%c08Batch, "last_input": i})
				writeRes()
				return
			}
			runtime.ReadMemStats(&ms1)
			delta := float64(ms1.TotalAlloc - ms0.TotalAlloc)
			bound := float64(16<<20) + 1024*float64(batchBytes)
			ratio := delta / float64(batchBytes+1)
			if ratio > res.MaxDeltaRatio && batchBytes > 10000 {
				res.MaxDeltaRatio = ratio
			}
			if hs := float64(ms1.HeapSys) / (1 << 20); hs > res.MaxHeapSysMiB {
				res.MaxHeapSysMiB = hs
			}
			if delta > bound || ms1.HeapSys > baseHeapSys+256<<20 {
				res.Violations = append(res.Violations, map[string]any{"key": "memory out of proportion to the bytes received", "why": fmt.Sprintf("batch ending at input %d: %d bytes received, TotalAlloc grew by %.0f bytes (bound %.0f), HeapSys %d MiB", i, batchBytes, delta, bound, ms1.HeapSys>>20),
					"first_input_of_batch": i - i%c08Batch, "last_input": i})
				if len(res.Violations) > 5 {
					writeRes()
					return
				}
			}
			ms0 = ms1
			batchBytes = 0
		}
	}
	res.Done = true
	writeRes()
}

// c11Conn0 is an inert net.Conn used as "the connection the request came on".
type c11Conn0 struct{}

func (c *c11Conn0) Read(b []byte) (int, error)  { return 0, io.EOF }
func (c *c11Conn0) Write(b []byte) (int, error) { return len(b), nil }
func (c *c11Conn0) Close() error                { return nil }
func (c *c11Conn0) LocalAddr() net.Addr         { return &net.TCPAddr{IP: net.IPv4(127, 0, 0, 1), Port: 5070} }
func (c *c11Conn0) RemoteAddr() net.Addr {
	return &net.TCPAddr{IP: net.IPv4(127, 0, 0, 9), Port: 40000}
}
func (c *c11Conn0) SetDeadline(t time.Time) error      { return nil }
func (c *c11Conn0) SetReadDeadline(t time.Time) error  { return nil }
func (c *c11Conn0) SetWriteDeadline(t time.Time) error { return nil }

func c08ManyVia(g *sip.Gen, w, i int) []byte {
	var b strings.Builder
	fmt.Fprintf(&b, "OPTIONS sip:svc.verif.test SIP/2.0\r\n")
	n := 150 + g.R.Intn(200)
	for k := 0; k < n; k++ {
		name := []string{"Via", "v"}[k%2]
		fmt.Fprintf(&b, "%s: SIP/2.0/UDP e%d-%d-%d.transit.example:%d;branch=z9hG4bKmv%d-%d\r\n", name, w, i, k, 5060+k%7, i, k)
	}
	fmt.Fprintf(&b, "Max-Forwards: 70\r\nFrom: <sip:a@transit.example>;tag=mv%d\r\nTo: <sip:b@callee.example>\r\nCall-ID: mv-%d-%d@verif\r\nCSeq: 1 OPTIONS\r\nContent-Length: 0\r\n\r\n", i, w, i)
	return []byte(b.String())
}

func c08Hash(b []byte) uint32 {
	var h uint32 = 2166136261
	for _, c := range b {
		h = (h ^ uint32(c)) * 16777619
	}
	return h >> 3
}

func c08Printable(b []byte) string {
	if len(b) > 1200 {
		b = append(append([]byte{}, b[:1200]...), []byte(fmt.Sprintf("...(%d bytes)", len(b)))...)
	}
	return strconv.QuoteToASCII(string(b))
}

func c08ReadJournal(path string) [][]byte {
	f, err := os.Open(path)
	if err != nil {
		return nil
	}
	defer f.Close()
	r := bufio.NewReader(f)
	var out [][]byte
	for {
		var hdr [8]byte
		if _, err := io.ReadFull(r, hdr[:]); err != nil {
			return out
		}
		n := binary.LittleEndian.Uint32(hdr[4:])
		b := make([]byte, n)
		if _, err := io.ReadFull(r, b); err != nil {
			return out
		}
		out = append(out, b)
	}
}

func c08WriteJournal(path string, inputs [][]byte) {
	var buf bytes.Buffer
	for i, in := range inputs {
		var hdr [8]byte
		binary.LittleEndian.PutUint32(hdr[:4], uint32(i))
		binary.LittleEndian.PutUint32(hdr[4:], uint32(len(in)))
		buf.Write(hdr[:])
		buf.Write(in)
	}
	os.WriteFile(path, buf.Bytes(), 0o644)
}

func TestVerifC08Child(t *testing.T) {
	spec := os.Getenv("VF_C08_CHILD")
	if spec == "" {
		t.Skip("child entry point")
	}
	c08Child(spec)
}

// c08RunChild starts one child and reports (result, exit error text, stderr tail).
func c08RunChild(dir string, seed int64, w, count int, extraEnv ...string) (*c08ChildResult, string, string) {
	cmd := exec.Command(os.Args[0], "-test.run", "^TestVerifC08Child$", "-test.timeout", "0")
	cmd.Env = append(os.Environ(), fmt.Sprintf("VF_C08_CHILD=%d:%d:%d:%s", seed, w, count, dir), "GOTRACEBACK=all")
	cmd.Env = append(cmd.Env, extraEnv...)
	var stderr bytes.Buffer
	cmd.Stderr = &stderr
	cmd.Stdout = &stderr
	done := make(chan error, 1)
	if err := cmd.Start(); err != nil {
		return nil, err.Error(), ""
	}
	go func() { done <- cmd.Wait() }()
	var exitErr string
	select {
	case err := <-done:
		if err != nil {
			exitErr = err.Error()
		}
	case <-time.After(40 * time.Minute):
		cmd.Process.Kill()
		exitErr = "watchdog: child did not finish within 40 min"
	}
	var res c08ChildResult
	b, err := os.ReadFile(filepath.Join(dir, fmt.Sprintf("result-%d.json", w)))
	if err == nil {
		json.Unmarshal(b, &res)
	}
	tail := stderr.String()
	if i := strings.Index(tail, "panic:"); i >= 0 {
		tail = tail[i:]
	} else if i := strings.Index(tail, "fatal error:"); i >= 0 {
		tail = tail[i:]
	}
	if len(tail) > 2500 {
		tail = tail[:2500]
	}
	return &res, exitErr, tail
}

func TestVerifC08(t *testing.T) {
	if os.Getenv("VF_C08_CHILD") != "" {
		t.Skip()
	}
	run := ev.New("C08", "exploration",
		"structure-aware hostile mutations (truncation at every kind of boundary, bit flips, header removal / 10^4-fold duplication, LF-only, NUL, absurd Content-Length, empty/huge/bracket-only Via hosts, 10^4 parameters, unparsable typed headers, absurd start lines, glued and random bytes) of valid requests and responses on all relaying paths, "+
			"each pushed through both readers the transports use and then through the real proxy loop (UDP and TCP-with-connection paths) in child processes; monitors: process death / panic (journal names the input), marker request relayed after every batch (loop liveness), TotalAlloc / HeapSys against a bytes-proportional bound; distinct = mutator kinds exercised")
	total := ev.Pick(160000, 1600000)
	workers := vfNumWorkers()
	dir := os.Getenv("VF_SCRATCH")
	if dir == "" {
		dir = os.TempDir()
	}
	dir = filepath.Join(dir, "c08")
	os.MkdirAll(dir, 0o755)
	per := total / workers
	var mu sync.Mutex
	agg := c08ChildResult{Mutators: map[string]int{}}
	vfWorkers(workers, func(w int) {
		res, exitErr, tail := c08RunChild(dir, run.Seed, w, per)
		mu.Lock()
		defer mu.Unlock()
		agg.Inputs += res.Inputs
		agg.Bytes += res.Bytes
		agg.ParsedUDP += res.ParsedUDP
		agg.ParsedTCP += res.ParsedTCP
		agg.Injected += res.Injected
		agg.Markers += res.Markers
		if res.MaxDeltaRatio > agg.MaxDeltaRatio {
			agg.MaxDeltaRatio = res.MaxDeltaRatio
		}
		if res.MaxHeapSysMiB > agg.MaxHeapSysMiB {
			agg.MaxHeapSysMiB = res.MaxHeapSysMiB
		}
		for k, v := range res.Mutators {
			agg.Mutators[k] += v
		}
		for _, v := range res.Violations {
			key, _ := v["key"].(string)
			if key == "message loop stalled" || strings.HasPrefix(key, "memory") {
				// narrow down to one input by replaying the batch one by one in a fresh child
				inputs, base := c08LastInputs(dir, w)
				first, _ := v["first_input_of_batch"].(float64)
				last, _ := v["last_input"].(float64)
				if int(first)-base >= 0 && int(last)-base < len(inputs) {
					batch := inputs[int(first)-base : int(last)-base+1]
					rp := filepath.Join(dir, fmt.Sprintf("replay-%d.bin", w))
					c08WriteJournal(rp, batch)
					os.Remove(filepath.Join(dir, fmt.Sprintf("result-%d.json", w+100)))
					r2, e2, t2 := c08RunChild(dir, run.Seed, w+100, len(batch), "VF_C08_REPLAY="+rp, "VF_C08_SINGLE=1")
					v["replay_of_batch"] = map[string]any{"violations": r2.Violations, "exit": e2, "stderr": t2}
					if len(r2.Violations) == 0 && e2 == "" {
						run.Inconclusive(1)
						continue
					}
					for _, rv := range r2.Violations {
						if li, ok := rv["last_input"].(float64); ok && int(li) < len(batch) {
							v["culprit_input_b64"] = base64.StdEncoding.EncodeToString(batch[int(li)])
							v["culprit_input_text"] = c08Printable(batch[int(li)])
						}
					}
				}
			}
			run.Violation(key, v)
		}
		if strings.HasPrefix(exitErr, "watchdog:") {
			// the outer wall-clock bound fired: the machine was too loaded for this tier's volume.
			// (A loop that stalls on an input is reported by the child itself, from inside, after
			// the batch; this bound says nothing about the proxy.) Inconclusive, not a verdict.
			run.Inconclusive(int64(per - res.Inputs))
			run.Observe(fmt.Sprintf("child_%d_stopped_by_the_outer_watchdog_after_inputs", w), res.Inputs)
			return
		}
		if exitErr != "" || !res.Done {
			if len(res.Violations) > 0 && exitErr == "" {
				return
			}
			// the child died: the last journalled input is the suspect; confirm alone
			inputs, base := c08LastInputs(dir, w)
			detail := map[string]any{"child_exit": exitErr, "stderr": tail, "inputs_journalled": base + len(inputs)}
			if len(inputs) > 0 {
				killer := inputs[len(inputs)-1]
				detail["last_input_b64"] = base64.StdEncoding.EncodeToString(killer)
				detail["last_input_text"] = c08Printable(killer)
				rp := filepath.Join(dir, fmt.Sprintf("killer-%d.bin", w))
				// the loop is asynchronous: replay the last few inputs
				from := len(inputs) - 3*c08Batch
				if from < 0 {
					from = 0
				}
				c08WriteJournal(rp, inputs[from:])
				r2, e2, t2 := c08RunChild(dir, run.Seed, w+200, len(inputs)-from, "VF_C08_REPLAY="+rp, "VF_C08_SINGLE=1")
				detail["replay_of_last_inputs"] = map[string]any{"exit": e2, "stderr": t2, "done": r2.Done}
				if e2 != "" || !r2.Done {
					rin, _ := c08LastInputs(dir, w+200)
					if len(rin) > 0 {
						detail["confirmed_killer_b64"] = base64.StdEncoding.EncodeToString(rin[len(rin)-1])
						detail["confirmed_killer_text"] = c08Printable(rin[len(rin)-1])
					}
					run.Violation("hostile input killed the process", detail)
				} else {
					run.Violation("child process died (not reproduced by replaying its last 150 inputs)", detail)
				}
			} else {
				run.Violation("child process died before its first input", detail)
			}
		}
	})
	for k, v := range agg.Mutators {
		run.EvalN("mut:"+k, int64(v))
	}
	run.Observe("inputs", agg.Inputs)
	run.Observe("bytes", agg.Bytes)
	run.Observe("accepted_by_udp_reader", agg.ParsedUDP)
	run.Observe("accepted_by_tcp_reader", agg.ParsedTCP)
	run.Observe("messages_pushed_through_the_proxy_loop", agg.Injected)
	run.Observe("liveness_markers_relayed", agg.Markers)
	run.Observe("max_totalalloc_per_received_byte", agg.MaxDeltaRatio)
	run.Observe("max_heapsys_mib", agg.MaxHeapSysMiB)
	run.Observe("memory_bound", "per batch: delta TotalAlloc <= 16 MiB + 1024 x bytes received; HeapSys <= baseline + 256 MiB")
	run.Sample(map[string]any{"mutators": agg.Mutators})
	run.Assume("in-package part: messages enter through the channel the transports use; sockets and connection handling are exercised by the wire part")
	vfFinish(t, run, int64(total)/2)
}
