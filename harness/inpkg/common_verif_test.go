//go:build verif

package main

// Shared helpers of the in-package monitors. These files live in /verif and are
// overlaid onto the repository at build time (go test -overlay); nothing here is
// committed to the repository.

import (
	"bufio"
	"bytes"
	"fmt"
	"os"
	"runtime"
	"sync"
	"sync/atomic"
	"testing"
	"time"

	"vf/ev"
)

// vfFinish ends a check: writes evidence, prints the interface lines and fails
// the test when a violation was recorded.
func vfFinish(t *testing.T, r *ev.Run, minEvals int64) {
	if code := r.Finish(minEvals); code != 0 {
		t.Fatalf("property %s violated", r.Prop)
	}
}

// vfAwait waits for wg under a bounded-progress watchdog: when *progress has not moved for
// stallSeconds the wait is given up, a violation with the blocked goroutines of the
// repository is recorded and false is returned (the workers are left where they hang).
func vfAwait(run *ev.Run, wg *sync.WaitGroup, progress *int64, stallSeconds int, what string) bool {
	done := make(chan struct{})
	go func() { wg.Wait(); close(done) }()
	last, quiet := atomic.LoadInt64(progress), 0
	for {
		select {
		case <-done:
			return true
		case <-time.After(5 * time.Second):
			cur := atomic.LoadInt64(progress)
			if cur != last {
				last, quiet = cur, 0
				continue
			}
			quiet += 5
			if quiet >= stallSeconds {
				buf := make([]byte, 1<<20)
				buf = buf[:runtime.Stack(buf, true)]
				var blocked []string
				for _, g := range bytes.Split(buf, []byte("\n\n")) {
					if bytes.Contains(g, []byte("sipproxy.(")) && !bytes.Contains(g, []byte("_verif_test.go")) && len(blocked) < 8 {
						if len(g) > 900 {
							g = g[:900]
						}
						blocked = append(blocked, string(g))
					}
				}
				run.Violation(what, map[string]any{"no_progress_for_s": quiet, "steps_completed": cur, "goroutines_inside_the_repository": blocked})
				return false
			}
		}
	}
}

// vfWorkers runs fn(worker) on n goroutines and waits.
func vfWorkers(n int, fn func(w int)) {
	var wg sync.WaitGroup
	for w := 0; w < n; w++ {
		wg.Add(1)
		go func(w int) {
			defer wg.Done()
			fn(w)
		}(w)
	}
	wg.Wait()
}

func vfNumWorkers() int {
	n := runtime.NumCPU()
	if n > 16 {
		n = 16
	}
	if n < 1 {
		n = 1
	}
	return n
}

// vfSigs is a worker-local signature histogram, merged into the run at the end.
type vfSigs struct {
	m     map[string]int64
	evals int64
}

func newVfSigs() *vfSigs { return &vfSigs{m: map[string]int64{}} }
func (s *vfSigs) eval(sig string) {
	s.evals++
	if sig != "" {
		s.m[sig]++
	}
}
func (s *vfSigs) flush(r *ev.Run) {
	trivial := s.evals
	for k, n := range s.m {
		r.EvalN(k, n)
		trivial -= n
	}
	if trivial > 0 {
		r.EvalN("", trivial)
	}
}

// vfParseUDP parses b the way the UDP listener does.
func vfParseUDP(b []byte) (*Message, error) {
	return ParseMessage(bufio.NewReaderSize(bytes.NewReader(b), len(b)))
}

// vfParseTCP parses b the way a TCP connection does.
func vfParseTCP(b []byte) (*Message, error) {
	return ParseMessage(bufio.NewReader(bytes.NewReader(b)))
}

func vfRecover(what string, fn func()) (panicked string) {
	defer func() {
		if e := recover(); e != nil {
			panicked = fmt.Sprintf("%s: panic: %v", what, e)
		}
	}()
	fn()
	return ""
}

func vfMin(a, b int) int {
	if a < b {
		return a
	}
	return b
}

func TestMain(m *testing.M) {
	os.Exit(m.Run())
}
