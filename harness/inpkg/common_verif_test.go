//go:build verif

package main

// Shared helpers of the in-package monitors. These files live in /verif and are
// overlaid onto the repository at build time (go test -overlay); nothing here is
// committed to the repository.

import (
	"bufio"
	"bytes"
	"fmt"
	"os"
	"runtime"
	"sync"
	"testing"

	"vf/ev"
)

// vfFinish ends a check: writes evidence, prints the interface lines and fails
// the test when a violation was recorded.
func vfFinish(t *testing.T, r *ev.Run, minEvals int64) {
	if code := r.Finish(minEvals); code != 0 {
		t.Fatalf("property %s violated", r.Prop)
	}
}

// vfWorkers runs fn(worker) on n goroutines and waits.
func vfWorkers(n int, fn func(w int)) {
	var wg sync.WaitGroup
	for w := 0; w < n; w++ {
		wg.Add(1)
		go func(w int) {
			defer wg.Done()
			fn(w)
		}(w)
	}
	wg.Wait()
}

func vfNumWorkers() int {
	n := runtime.NumCPU()
	if n > 16 {
		n = 16
	}
	if n < 1 {
		n = 1
	}
	return n
}

// vfSigs is a worker-local signature histogram, merged into the run at the end.
type vfSigs struct {
	m     map[string]int64
	evals int64
}

func newVfSigs() *vfSigs { return &vfSigs{m: map[string]int64{}} }
func (s *vfSigs) eval(sig string) {
	s.evals++
	if sig != "" {
		s.m[sig]++
	}
}
func (s *vfSigs) flush(r *ev.Run) {
	trivial := s.evals
	for k, n := range s.m {
		r.EvalN(k, n)
		trivial -= n
	}
	if trivial > 0 {
		r.EvalN("", trivial)
	}
}

// vfParseUDP parses b the way the UDP listener does.
func vfParseUDP(b []byte) (*Message, error) {
	return ParseMessage(bufio.NewReaderSize(bytes.NewReader(b), len(b)))
}

// vfParseTCP parses b the way a TCP connection does.
func vfParseTCP(b []byte) (*Message, error) {
	return ParseMessage(bufio.NewReader(bytes.NewReader(b)))
}

func vfRecover(what string, fn func()) (panicked string) {
	defer func() {
		if e := recover(); e != nil {
			panicked = fmt.Sprintf("%s: panic: %v", what, e)
		}
	}()
	fn()
	return ""
}

func vfMin(a, b int) int {
	if a < b {
		return a
	}
	return b
}

func TestMain(m *testing.M) {
	os.Exit(m.Run())
}
