//go:build verif

package main

// C14 - reference-model monitor: the generator's abstract value is the oracle
// for what the repository's decoders extract and what its encoders print.

import (
	"fmt"
	"strconv"
	"strings"
	"sync/atomic"
	"testing"

	"vf/ev"
	"vf/sip"
)

type c14Fail struct {
	Kind   string `json:"kind"`
	Input  string `json:"input"`
	Got    string `json:"got"`
	Reason string `json:"reason"`
}

func c14URIAccessors(u sip.URI, as *AddrSpec) string {
	if as == nil {
		return "no addr-spec decoded"
	}
	if !u.IsSIP() {
		a, err := as.GetAbsoluteURI()
		if err != nil {
			return "not decoded as absolute URI"
		}
		if a.String() != u.String() {
			return fmt.Sprintf("absolute URI %q != %q", a.String(), u.String())
		}
		return ""
	}
	s, err := as.GetSIPURI()
	if err != nil {
		return "not decoded as SIP URI"
	}
	if s.Scheme != u.Scheme {
		return fmt.Sprintf("scheme %q != %q", s.Scheme, u.Scheme)
	}
	if s.User != u.User {
		return fmt.Sprintf("user %q != %q", s.User, u.User)
	}
	if s.Password != u.Password {
		return fmt.Sprintf("password %q != %q", s.Password, u.Password)
	}
	if s.Host != u.Host {
		return fmt.Sprintf("host %q != %q", s.Host, u.Host)
	}
	wantPort := 5060
	wantTransport := "udp"
	if p, ok := u.Param("transport"); ok {
		wantTransport = p.V
		if p.V == "tls" {
			wantPort = 5061
		}
	}
	if u.Port != "" {
		wantPort, _ = strconv.Atoi(u.Port)
	}
	if s.GetPort() != wantPort {
		return fmt.Sprintf("port %d != %d", s.GetPort(), wantPort)
	}
	if s.GetTransport() != wantTransport {
		return fmt.Sprintf("transport %q != %q", s.GetTransport(), wantTransport)
	}
	if len(s.Parameters) != len(u.Params) {
		return fmt.Sprintf("%d URI parameters decoded, %d written", len(s.Parameters), len(u.Params))
	}
	for i, p := range u.Params {
		if s.Parameters[i].Key != p.K || s.Parameters[i].Value != p.V {
			return fmt.Sprintf("URI parameter %d: %q=%q != %q=%q", i, s.Parameters[i].Key, s.Parameters[i].Value, p.K, p.V)
		}
	}
	if len(s.Headers) != len(u.Headers) {
		return fmt.Sprintf("%d URI headers decoded, %d written", len(s.Headers), len(u.Headers))
	}
	for i, h := range u.Headers {
		if s.Headers[i].Key != h.K || s.Headers[i].Value != h.V {
			return fmt.Sprintf("URI header %d differs", i)
		}
	}
	return ""
}

// c14From checks one From value; the returned string is "" when all laws hold.
func c14From(na sip.NameAddr, tag string) (got string, why string) {
	text := na.String()
	f, err := ParseFromSpec(text)
	if err != nil {
		return "", "decode error: " + err.Error()
	}
	got = f.String()
	if got != text {
		return got, "re-encoded text differs"
	}
	if tag != "" {
		if g, err := f.GetTag(); err != nil || g != tag {
			return got, fmt.Sprintf("tag %q != %q", g, tag)
		}
	} else if _, err := f.GetTag(); err == nil {
		return got, "tag reported although none written"
	}
	as, _ := f.GetAddrSpec()
	if w := c14URIAccessors(na.URI, as); w != "" {
		return got, w
	}
	if again := f.String(); again != got {
		return again, "reading the components changed what is re-encoded"
	}
	f2, err := ParseFromSpec(got)
	if err != nil || f2.String() != got {
		return got, "encode-decode-encode unstable"
	}
	return got, ""
}

func c14To(na sip.NameAddr, tag string) (got string, why string) {
	text := na.String()
	f, err := ParseTo(text)
	if err != nil {
		return "", "decode error: " + err.Error()
	}
	got = f.String()
	if got != text {
		return got, "re-encoded text differs"
	}
	if tag != "" {
		if g, err := f.GetTag(); err != nil || g != tag {
			return got, fmt.Sprintf("tag %q != %q", g, tag)
		}
	} else if _, err := f.GetTag(); err == nil {
		return got, "tag reported although none written"
	}
	as, _ := f.GetAddrSpec()
	if w := c14URIAccessors(na.URI, as); w != "" {
		return got, w
	}
	if na.URI.IsSIP() {
		if h, err := f.GetHost(); err != nil || h != na.URI.Host {
			return got, fmt.Sprintf("GetHost %q != %q", h, na.URI.Host)
		}
	}
	if again := f.String(); again != got {
		return again, "reading the components changed what is re-encoded"
	}
	f2, err := ParseTo(got)
	if err != nil || f2.String() != got {
		return got, "encode-decode-encode unstable"
	}
	return got, ""
}

func c14FlatEq(got string, want []string) bool {
	g := sip.SplitTop(got, ',')
	if len(g) != len(want) {
		return false
	}
	for i := range g {
		if strings.Trim(g[i], " \t") != strings.Trim(want[i], " \t") {
			return false
		}
	}
	return true
}

func c14Via(vs []sip.Via, value string) (got string, why string) {
	v, err := ParseVia(value)
	if err != nil {
		return "", "decode error: " + err.Error()
	}
	got = v.String()
	want := make([]string, len(vs))
	for i := range vs {
		want[i] = vs[i].String()
	}
	// Via entries never contain '<' or quotes here, so a plain flatten is exact
	if !c14FlatEq(got, want) {
		return got, "re-encoded list differs"
	}
	if v.Size() != len(vs) {
		return got, fmt.Sprintf("%d entries decoded, %d written", v.Size(), len(vs))
	}
	for i, a := range vs {
		p, _ := v.GetParam(i)
		if p.Transport != a.Transport {
			return got, fmt.Sprintf("entry %d transport %q != %q", i, p.Transport, a.Transport)
		}
		if p.Host != a.Host {
			return got, fmt.Sprintf("entry %d host %q != %q", i, p.Host, a.Host)
		}
		wp := 5060
		if a.Transport == "TLS" {
			wp = 5061
		}
		if a.Port != "" {
			wp, _ = strconv.Atoi(a.Port)
		}
		if p.GetPort() != wp {
			return got, fmt.Sprintf("entry %d port %d != %d", i, p.GetPort(), wp)
		}
		if b, ok := a.Param("branch"); ok {
			if g, err := p.GetBranch(); err != nil || g != strings.TrimRight(b.V, " \t") {
				return got, fmt.Sprintf("entry %d branch %q != %q", i, g, b.V)
			}
		} else if _, err := p.GetBranch(); err == nil {
			return got, "branch reported although none written"
		}
		if r, ok := a.Param("received"); ok {
			if g, err := p.GetReceived(); err != nil || g != r.V {
				return got, fmt.Sprintf("entry %d received %q != %q", i, g, r.V)
			}
		} else if _, err := p.GetReceived(); err == nil {
			return got, "received reported although none written"
		}
		if r, ok := a.Param("rport"); ok {
			if !p.HasParam("rport") {
				return got, "rport lost"
			}
			g, err := p.GetRPort()
			if r.HasVal {
				if w, _ := strconv.Atoi(r.V); err != nil || g != w {
					return got, fmt.Sprintf("entry %d rport %d != %s", i, g, r.V)
				}
			} else if err == nil {
				return got, "valueless rport decoded as a number"
			}
		} else if p.HasParam("rport") {
			return got, "rport reported although none written"
		}
	}
	if again := v.String(); again != got {
		return again, "reading the components changed what is re-encoded"
	}
	v2, err := ParseVia(got)
	if err != nil || v2.String() != got {
		return got, "encode-decode-encode unstable"
	}
	return got, ""
}

func c14RouteList(nas []sip.NameAddr, value string, record bool) (got string, why string) {
	want := make([]string, len(nas))
	for i := range nas {
		want[i] = nas[i].String()
	}
	var first *NameAddr
	var count int
	var again func() string
	if record {
		rr, err := ParseRecordRoute(value)
		if err != nil {
			return "", "decode error: " + err.Error()
		}
		got = rr.String()
		again = rr.String
		count = rr.GetRecRouteCount()
		if e, err := rr.GetRecRoute(0); err == nil {
			first = e.GetNameAddr()
		}
		if r2, err := ParseRecordRoute(got); err != nil || r2.String() != got {
			return got, "encode-decode-encode unstable"
		}
	} else {
		r, err := ParseRoute(value)
		if err != nil {
			return "", "decode error: " + err.Error()
		}
		got = r.String()
		again = r.String
		count = r.GetRouteParamCount()
		if e, err := r.GetRouteParam(0); err == nil {
			first = e.GetAddress()
		}
		if r2, err := ParseRoute(got); err != nil || r2.String() != got {
			return got, "encode-decode-encode unstable"
		}
	}
	if !c14FlatEq(got, want) {
		return got, "re-encoded list differs"
	}
	if count != len(nas) {
		return got, fmt.Sprintf("%d entries decoded, %d written", count, len(nas))
	}
	if first == nil {
		return got, "first entry not decoded"
	}
	if w := c14URIAccessors(nas[0].URI, first.GetAddress()); w != "" {
		return got, "first entry: " + w
	}
	if a := again(); a != got {
		return a, "reading the components changed what is re-encoded"
	}
	return got, ""
}

func c14CSeq(n int, method string) (string, string) {
	text := fmt.Sprintf("%d %s", n, method)
	c, err := ParseCSeq(text)
	if err != nil {
		return "", "decode error: " + err.Error()
	}
	if c.String() != text {
		return c.String(), "re-encoded text differs"
	}
	if c.Method != method || c.Seq != n {
		return c.String(), "accessor differs"
	}
	return c.String(), ""
}

func c14ReqLine(method string, u sip.URI) (string, string) {
	line := method + " " + u.String() + " SIP/2.0"
	rl, err := parseRequestLine(line)
	if err != nil {
		return "", "decode error: " + err.Error()
	}
	m := &Message{request: rl}
	var sb strings.Builder
	m.encodeFirstLine(&sb)
	got := strings.TrimSuffix(sb.String(), "\r\n")
	if got != line {
		return got, "re-encoded request line differs"
	}
	if rl.method != method {
		return got, "method differs"
	}
	if w := c14URIAccessors(u, rl.requestURI); w != "" {
		return got, w
	}
	sb.Reset()
	m.encodeFirstLine(&sb)
	if again := strings.TrimSuffix(sb.String(), "\r\n"); again != got {
		return again, "reading the components changed what is re-encoded"
	}
	return got, ""
}

// c14Whole sends the decoded headers through a whole message: parse, touch
// every typed accessor the pipeline uses, serialise, compare with the
// harness's own reader.
func c14Whole(method string, ruri sip.URI, from, to sip.NameAddr, vias []string, routes []string, cseq string, stamp bool, op string) (string, string) {
	in := &sip.Msg{Start: method + " " + ruri.String() + " SIP/2.0"}
	for _, v := range vias {
		in.Headers = append(in.Headers, sip.Header{Name: "Via", Value: v})
	}
	for _, r := range routes {
		in.Headers = append(in.Headers, sip.Header{Name: "Route", Value: r})
	}
	in.Headers = append(in.Headers,
		sip.Header{Name: "From", Value: from.String()},
		sip.Header{Name: "To", Value: to.String()},
		sip.Header{Name: "Call-ID", Value: "c14@x"},
		sip.Header{Name: "CSeq", Value: cseq},
		sip.Header{Name: "Content-Length", Value: "0"})
	m, err := vfParseUDP(in.Bytes())
	if err != nil {
		return "", "message decode error: " + err.Error()
	}
	m.GetFrom()
	m.GetTo()
	m.GetCSeq()
	m.ForEachViaParam(func(*ViaParam) {})
	m.GetRoute()
	m.GetDialog()
	m.GetClientTransaction()
	// the reads the routing steps make on the way: Request-URI, To host, first Route entry, every Via entry
	if ru, err := m.GetRequestURI(); err == nil {
		if su, err := ru.GetSIPURI(); err == nil {
			su.GetPort()
			su.GetTransport()
			su.GetParameter("lr")
		}
	}
	if t, err := m.GetTo(); err == nil {
		t.GetHost()
		t.GetTag()
	}
	if r, err := m.GetRoute(); err == nil {
		if rp, err := r.GetRouteParam(0); err == nil {
			if su, err := rp.GetAddress().GetAddress().GetSIPURI(); err == nil {
				su.GetPort()
				su.GetTransport()
			}
		}
	}
	m.ForEachViaParam(func(vp *ViaParam) {
		vp.GetPort()
		vp.GetBranch()
		vp.GetReceived()
		vp.GetRPort()
	})
	popVia, popRoute := false, false
	switch op {
	case "popvia": // what happens to a response: the top entry goes, nothing else
		popVia = m.PopVia() == nil
	case "poproute": // what happens to a request that is routed by its first Route entry
		if _, err := m.GetRoute(); err == nil {
			popRoute = m.PopRoute() == nil
		}
	}
	stamped := false
	if stamp {
		// what a received-enabled listener does between decoding and encoding
		stamped = m.SetReceived("192.0.2.99", 5555) == nil
	}
	b, err := m.Bytes()
	if err != nil {
		return "", "encode error: " + err.Error()
	}
	out, err := sip.Read(b)
	if err != nil {
		return string(b), "harness cannot read the re-encoded message: " + err.Error()
	}
	if out.Start != in.Start {
		return out.Start, "start line differs"
	}
	for _, name := range []string{"from", "to", "cseq"} {
		a, _ := in.First(name)
		g, _ := out.First(name)
		if a != g {
			return g, name + " differs after message re-encoding"
		}
	}
	for _, name := range []string{"via", "route"} {
		a, g := in.List(name), out.List(name)
		if name == "via" && popVia && len(a) > 0 {
			a = a[1:]
		}
		if name == "route" && popRoute && len(a) > 0 {
			a = a[1:]
		}
		if name == "via" && stamped && len(a) > 0 && len(g) == len(a) {
			// the top entry legitimately gained / changed received (and the value of an rport it had)
			ta, tg := c14StripStamp(a[0]), c14StripStamp(g[0])
			if ta != tg {
				return g[0], "top Via entry changed beyond received/rport by the stamping"
			}
			a, g = a[1:], g[1:]
		}
		if len(a) != len(g) {
			return strings.Join(g, " | "), name + " list length differs after message re-encoding"
		}
		for i := range a {
			if a[i] != g[i] {
				return g[i], name + " entry differs after message re-encoding"
			}
		}
	}
	if popVia || popRoute || stamped {
		// what was done to that message must not show in the next one that carries the same text
		m2, err := vfParseUDP(in.Bytes())
		if err != nil {
			return "", "second decode of the same message failed: " + err.Error()
		}
		m2.GetRoute()
		m2.ForEachViaParam(func(*ViaParam) {})
		b2, err := m2.Bytes()
		if err != nil {
			return "", "second encode error: " + err.Error()
		}
		out2, err := sip.Read(b2)
		if err != nil {
			return string(b2), "harness cannot read the second re-encoding"
		}
		for _, name := range []string{"via", "route"} {
			a, g := in.List(name), out2.List(name)
			if strings.Join(a, "\x00") != strings.Join(g, "\x00") {
				return strings.Join(g, " | "), name + " list of a second message with the same text differs from what it carried (state kept from the first message)"
			}
		}
	}
	return "", ""
}

func c14StripStamp(e string) string {
	parts := strings.Split(e, ";")
	out := parts[:1]
	for _, p := range parts[1:] {
		if strings.HasPrefix(p, "received=") {
			continue
		}
		if strings.HasPrefix(p, "rport") && (len(p) == 5 || p[5] == '=') {
			out = append(out, "rport")
			continue
		}
		out = append(out, p)
	}
	return strings.Join(out, ";")
}

func c14Neutral(u sip.URI) sip.URI {
	v := u
	if strings.HasPrefix(v.Host, "[") {
		v.Host = "192.0.2.7"
	}
	v.User = strings.NewReplacer(";", ".", "?", ".", ",", ".").Replace(v.User)
	v.Tags = nil
	return v
}

func c14KnownKey(tags []string, list bool) string {
	for _, t := range tags {
		switch t {
		case "ipv6":
			return "ipv6-reference"
		case "user-semi":
			return "user-part-with-semicolon-or-question-mark"
		case "user-comma":
			if list {
				return "comma-inside-angle-brackets-in-list-header"
			}
		}
	}
	return ""
}

// c14Spoil feeds broken neighbours of generated values to every decoder and ignores the outcome
// (a panic would be C08's business; here only what follows is judged).
func c14Spoil(g *sip.Gen) {
	tag := g.Tag()
	na, _ := g.GenNameAddr(sip.NAOpts{AllowBare: false, Tag: tag, MaxHParams: 4, NoFindings: true})
	txt := na.String()
	v, _ := g.GenVia(false)
	vt := v.String()
	breakIt := func(t string) string {
		switch g.R.Intn(7) {
		case 0:
			return t + ";"
		case 1:
			return t + ";;x=1"
		case 2:
			return strings.Replace(t, ">", "", 1)
		case 3:
			return strings.Replace(t, "<", "<<", 1)
		case 4:
			return t + ";=v"
		case 5:
			if len(t) > 4 {
				return t[:len(t)/2]
			}
			return t
		default:
			return t + ", , "
		}
	}
	vfRecover("spoil", func() {
		switch g.R.Intn(5) {
		case 0:
			ParseFromSpec(breakIt(txt))
		case 1:
			ParseTo(breakIt(txt))
		case 2:
			ParseRoute(breakIt(txt))
		case 3:
			ParseRecordRoute(breakIt(txt))
		default:
			ParseVia(breakIt(vt))
		}
	})
}

func TestVerifC14(t *testing.T) {
	run := ev.New("C14", "exploration",
		"grammar-generated values (name-addr/addr-spec, sip/sips/tel/urn URIs, Via, Route/Record-Route lists, CSeq, request lines, whole messages); oracle = generator's abstract value; "+
			"distinct = distinct (kind, grammar-alternative signature); trivial = value without any optional component")
	total := ev.Pick(200000, 12000000)
	var spoiled int64
	workers := vfNumWorkers()
	per := total / workers
	report := func(kind, input, got, why string, tags []string, list bool, neutralOK func() bool) {
		if key := c14KnownKey(tags, list); key != "" && neutralOK() && run.Known(key) {
			return
		}
		run.Violation(kind+": "+why, c14Fail{Kind: kind, Input: input, Got: got, Reason: why})
	}
	vfWorkers(workers, func(w int) {
		g := sip.NewGen(run.Seed*1000 + int64(w))
		sigs := newVfSigs()
		defer sigs.flush(run)
		for i := 0; i < per; i++ {
			if run.Violations() > 200 {
				return
			}
			if g.R.Intn(5) == 0 {
				// a value the decoders must refuse (or may accept - not judged) right before the next
				// case: what they keep from a failed decode must not leak into the next value
				c14Spoil(g)
				atomic.AddInt64(&spoiled, 1)
			}
			switch i % 8 {
			case 0: // From
				tag := ""
				if g.R.Intn(10) < 8 {
					tag = g.Tag()
				}
				na, sig := g.GenNameAddr(sip.NAOpts{AllowBare: true, Tag: tag, MaxHParams: 5})
				got, why := c14From(na, tag)
				sigs.eval("from:" + sig)
				if why != "" {
					report("From", na.String(), got, why, na.URI.Tags, false, func() bool {
						n := na
						n.URI = c14Neutral(na.URI)
						_, w := c14From(n, tag)
						return w == ""
					})
				} else if run.WantSample() && i > 50 {
					run.Sample(map[string]string{"kind": "From", "text": na.String(), "sig": sig})
				}
			case 1: // To
				tag := ""
				if g.R.Intn(10) < 6 {
					tag = g.Tag()
				}
				na, sig := g.GenNameAddr(sip.NAOpts{AllowBare: true, Tag: tag, MaxHParams: 5})
				got, why := c14To(na, tag)
				sigs.eval("to:" + sig)
				if why != "" {
					report("To", na.String(), got, why, na.URI.Tags, false, func() bool {
						n := na
						n.URI = c14Neutral(na.URI)
						_, w := c14To(n, tag)
						return w == ""
					})
				}
			case 2, 3: // Via
				n := 1 + g.R.Intn(5)
				vs := make([]sip.Via, n)
				var tags []string
				ss := make([]string, n)
				txt := make([]string, n)
				for k := range vs {
					vs[k], ss[k] = g.GenVia(false)
					tags = append(tags, vs[k].Tags...)
					txt[k] = vs[k].String()
				}
				value := strings.Join(txt, []string{",", ", ", " , "}[g.R.Intn(3)])
				got, why := c14Via(vs, value)
				sigs.eval(fmt.Sprintf("via%d:%s", n, ss[0]))
				if why != "" {
					report("Via", value, got, why, tags, true, func() bool {
						nv := append([]sip.Via{}, vs...)
						nt := make([]string, n)
						for k := range nv {
							if strings.HasPrefix(nv[k].Host, "[") {
								nv[k].Host = "192.0.2.7"
							}
							nt[k] = nv[k].String()
						}
						_, w := c14Via(nv, strings.Join(nt, ","))
						return w == ""
					})
				} else if run.WantSample() && i > 50 && n > 1 {
					run.Sample(map[string]string{"kind": "Via", "text": value})
				}
			case 4, 5: // Route / Record-Route
				n := 1 + g.R.Intn(5)
				nas := make([]sip.NameAddr, n)
				var tags []string
				txt := make([]string, n)
				s0 := ""
				for k := range nas {
					var s string
					nas[k], s = g.GenNameAddr(sip.NAOpts{ForceSIP: true, MaxHParams: 3})
					if k == 0 {
						s0 = s
					}
					tags = append(tags, nas[k].URI.Tags...)
					txt[k] = nas[k].String()
				}
				value := strings.Join(txt, []string{",", ", ", " , "}[g.R.Intn(3)])
				record := i%8 == 5
				kind := "Route"
				if record {
					kind = "Record-Route"
				}
				got, why := c14RouteList(nas, value, record)
				sigs.eval(fmt.Sprintf("%s%d:%s", kind, n, s0))
				if why != "" {
					report(kind, value, got, why, tags, true, func() bool {
						nn := append([]sip.NameAddr{}, nas...)
						nt := make([]string, n)
						for k := range nn {
							nn[k].URI = c14Neutral(nn[k].URI)
							nt[k] = nn[k].String()
						}
						_, w := c14RouteList(nn, strings.Join(nt, ","), record)
						return w == ""
					})
				} else if run.WantSample() && i > 50 && n > 1 {
					run.Sample(map[string]string{"kind": kind, "text": value})
				}
			case 6: // CSeq and request line
				num := []int{0, 1, 2, 101, 65535, 2147483647, g.R.Intn(1 << 31)}[g.R.Intn(7)]
				meth := g.Method()
				if got, why := c14CSeq(num, meth); why != "" {
					run.Violation("CSeq: "+why, c14Fail{Kind: "CSeq", Input: fmt.Sprintf("%d %s", num, meth), Got: got, Reason: why})
				}
				u, sig := g.AnyURI(sip.URIOpts{MaxParams: 6, MaxHeaders: 3})
				got, why := c14ReqLine(meth, u)
				sigs.eval("ruri:" + sig)
				if why != "" {
					report("Request-URI", meth+" "+u.String()+" SIP/2.0", got, why, u.Tags, false, func() bool {
						_, w := c14ReqLine(meth, c14Neutral(u))
						return w == ""
					})
				}
			case 7: // whole message
				meth := g.Method()
				ru, s1 := g.AnyURI(sip.URIOpts{MaxParams: 4, MaxHeaders: 2, NoFindings: true})
				from, _ := g.GenNameAddr(sip.NAOpts{AllowBare: true, Tag: g.Tag(), MaxHParams: 3, NoFindings: true})
				to, _ := g.GenNameAddr(sip.NAOpts{AllowBare: true, Tag: g.Tag(), MaxHParams: 3, NoFindings: true})
				nv := 1 + g.R.Intn(4)
				ventries := make([]string, nv)
				for k := range ventries {
					v, _ := g.GenVia(true)
					if _, ok := v.Param("branch"); !ok {
						v.Params = append(v.Params, sip.KV{K: "branch", V: "z9hG4bK" + g.Alnum(4, 8), HasVal: true})
					}
					ventries[k] = v.String()
				}
				vias, l1 := g.JoinList(ventries)
				nr := g.R.Intn(4)
				rentries := make([]string, nr)
				for k := range rentries {
					na, _ := g.GenNameAddr(sip.NAOpts{ForceSIP: true, MaxHParams: 2, NoFindings: true})
					rentries[k] = na.String()
				}
				routes, l2 := g.JoinList(rentries)
				cseq := fmt.Sprintf("%d %s", g.R.Intn(1<<31), meth)
				op := []string{"", "", "popvia", "poproute"}[g.R.Intn(4)]
				got, why := c14Whole(meth, ru, from, to, vias, routes, cseq, op == "" && g.R.Intn(2) == 0, op)
				sigs.eval("msg:" + s1 + "/" + l1 + "/" + l2)
				if why != "" {
					run.Violation("message: "+why, c14Fail{Kind: "message", Input: fmt.Sprintf("%s %s | From: %s | To: %s | Via: %v | Route: %v", meth, ru, from, to, vias, routes), Got: got, Reason: why})
				}
			}
		}
	})
	run.Observe("broken_values_decoded_right_before_a_case", atomic.LoadInt64(&spoiled))
	run.Assume("values stay inside the C14 quantifier: no folded lines, no LWS around ';' '=' inside parameters, no empty parameter values (k=), canonical CSeq numbers")
	vfFinish(t, run, int64(total)*9/10)
}
