//go:build verif

package main

// C10 - a UDP datagram is processed in isolation. (a) differential monitor:
// the same datagram pushed through the real parse loop once in a zeroed buffer
// and once in a buffer that still holds an earlier, longer datagram must give
// the same result, and that result must be the image of the datagram alone;
// (b) buffer-pool ownership history checked with porcupine.

import (
	"bytes"
	"fmt"
	"math/rand"
	"net"
	"os"
	"sort"
	"strings"
	"sync"
	"sync/atomic"
	"testing"
	"time"
	"unsafe"

	"github.com/anishathalye/porcupine"

	"vf/ev"
	"vf/sip"
)

type c10Result struct {
	relayed bool
	bytes   []byte
}

// c10Loop owns one real UDP transport whose parse goroutine runs.
type c10Loop struct {
	u      *UDPServerTransport
	marker []byte
}

func newC10Loop() *c10Loop {
	u, err := NewUDPServerTransport("127.0.0.1", 0, false, NewSelfLearnRoute())
	if err != nil {
		panic(err)
	}
	go u.startParseMessage()
	return &c10Loop{u: u}
}

// push hands buf[:n] to the real parse loop exactly like receiveMessage does and
// waits, behind a marker datagram, for the outcome.
func (l *c10Loop) push(buf []byte, n int) c10Result {
	var res c10Result
	done := make(chan struct{})
	l.u.msgParseChannel <- SizedByteArray{b: buf, n: n, msgHandler: func(m *Message) {
		res.relayed = true
		res.bytes, _ = m.Bytes()
	}}
	marker := []byte("OPTIONS sip:marker@verif.test SIP/2.0\r\nContent-Length: 0\r\n\r\n")
	if l.marker == nil {
		l.marker = make([]byte, 64*1024)
		copy(l.marker, marker)
	}
	mb := l.marker
	l.u.msgParseChannel <- SizedByteArray{b: mb, n: len(marker), msgHandler: func(m *Message) { close(done) }}
	select {
	case <-done:
	case <-time.After(20 * time.Second):
		panic("C10 harness: marker datagram was not processed within 20 s")
	}
	return res
}

type c10Datagram struct {
	id       int
	head     string // header section without Content-Length and without the final blank line
	body     []byte
	declared int // Content-Length written
	cut      int // bytes actually carried (<= full length)
	full     []byte
	kind     string
}

func c10Build(g *sip.Gen, id int) c10Datagram {
	var d c10Datagram
	d.id = id
	var hb strings.Builder
	if g.R.Intn(2) == 0 {
		fmt.Fprintf(&hb, "%s sip:u%d@verif.test SIP/2.0\r\n", g.Method(), id)
	} else {
		fmt.Fprintf(&hb, "SIP/2.0 %d %s\r\n", 100+g.R.Intn(600), g.Reason())
	}
	fmt.Fprintf(&hb, "Via: SIP/2.0/UDP 127.1.0.1:5060;branch=z9hG4bKd%d\r\nCall-ID: d%d@verif\r\nX-Vf: %d\r\n", id, id, id)
	for k := g.R.Intn(5); k > 0; k-- {
		n, _ := g.ExtName()
		fmt.Fprintf(&hb, "%s: %s\r\n", n, g.Alnum(0, 60))
	}
	d.head = hb.String()
	var size int
	switch g.R.Intn(6) {
	case 0:
		size = 0
	case 1:
		size = 1 + g.R.Intn(20)
	case 2:
		size = 20000 + g.R.Intn(40000)
	default:
		size = g.R.Intn(1500)
	}
	// body derived from the id: a single foreign byte is visible
	r := rand.New(rand.NewSource(int64(id)*7919 + 1))
	d.body = make([]byte, size)
	for i := range d.body {
		d.body[i] = byte('A' + r.Intn(26))
	}
	d.declared = size
	d.kind = "exact"
	switch g.R.Intn(8) {
	case 0:
		d.declared = size + 1 + g.R.Intn(100)
		d.kind = "over-declared"
	case 1:
		if size > 0 {
			d.declared = g.R.Intn(size)
			d.kind = "under-declared"
		}
	case 2:
		d.declared = size + 60000
		d.kind = "over-declared"
	}
	d.full = []byte(d.head + fmt.Sprintf("Content-Length: %d\r\n\r\n", d.declared))
	d.full = append(d.full, d.body...)
	d.cut = len(d.full)
	if g.R.Intn(4) == 0 {
		d.cut = g.R.Intn(len(d.full))
		d.kind += "+cut"
	}
	return d
}

// c10Expect: what the datagram alone determines. complete = header section
// complete and at least `declared` body bytes carried.
func c10Expect(d c10Datagram, cut int) (relay bool, body []byte) {
	hdrEnd := len(d.full) - len(d.body)
	if cut < hdrEnd {
		return false, nil
	}
	carried := cut - hdrEnd
	if d.declared > carried {
		return false, nil
	}
	return true, d.body[:d.declared]
}

func c10Judge(d c10Datagram, cut int, clean, dirty c10Result) string {
	if clean.relayed != dirty.relayed {
		return fmt.Sprintf("result depends on what the buffer held before: clean buffer relayed=%v, recycled buffer relayed=%v", clean.relayed, dirty.relayed)
	}
	if clean.relayed && !bytes.Equal(clean.bytes, dirty.bytes) {
		return "relayed bytes depend on what the buffer held before"
	}
	wantRelay, wantBody := c10Expect(d, cut)
	if dirty.relayed != wantRelay {
		if wantRelay {
			return "a complete datagram was discarded"
		}
		return "a datagram that is cut short or over-declares its body was processed instead of discarded"
	}
	if !wantRelay {
		return ""
	}
	m, err := sip.Read(dirty.bytes)
	if err != nil {
		return "output unreadable: " + err.Error()
	}
	if !bytes.Equal(m.Body, wantBody) {
		return fmt.Sprintf("body of the processed message is not the first %d bytes of the datagram's own body (got %d bytes)", len(wantBody), len(m.Body))
	}
	if v, _ := m.First("x-vf"); v != fmt.Sprint(d.id) {
		return "identity header of another datagram"
	}
	return ""
}

func c10PoolModel() porcupine.Model {
	return porcupine.Model{
		Init: func() interface{} { return "" },
		Step: func(state, input, output interface{}) (bool, interface{}) {
			held := map[string]bool{}
			if s := state.(string); s != "" {
				for _, x := range strings.Split(s, ",") {
					held[x] = true
				}
			}
			in := input.(string)
			enc := func() string {
				xs := make([]string, 0, len(held))
				for x := range held {
					xs = append(xs, x)
				}
				sort.Strings(xs)
				return strings.Join(xs, ",")
			}
			if in == "alloc" {
				id := output.(string)
				if held[id] {
					return false, state
				}
				held[id] = true
				return true, enc()
			}
			delete(held, strings.TrimPrefix(in, "free "))
			return true, enc()
		},
		DescribeOperation: func(in, out interface{}) string { return fmt.Sprintf("%v -> %v", in, out) },
	}
}

func TestVerifC10(t *testing.T) {
	run := ev.New("C10", "exploration",
		"(a) generated datagrams (20 B - 60 KiB, exact / over- / under-declared Content-Length, optionally cut at a random or at every structural offset) pushed through the real UDP parse loop in a clean and in a recycled buffer holding a longer earlier datagram; "+
			"oracle = image of the datagram alone; (b) concurrent Alloc/Free histories of the real buffer pool checked by porcupine ('a buffer has at most one holder') plus an online ownership stamp; distinct = distinct (kind, size class) cells / histories")
	g := sip.NewGen(run.Seed)
	loop := newC10Loop()
	n := ev.Pick(4000, 150000)
	residue := bytes.Repeat([]byte("RESIDUE-OF-AN-EARLIER-DATAGRAM\r\nX-Old: 1\r\n\r\nOLDBODYOLDBODY"), 1200)[:64*1024]
	relays, discards := 0, 0
	clean := make([]byte, 64*1024)
	dirty := make([]byte, 64*1024)
	copy(dirty, residue)
	touched := 0
	check := func(d c10Datagram, cut int, sig string) bool {
		// restore the two buffers where the previous case wrote into them
		for i := 0; i < touched; i++ {
			clean[i] = 0
		}
		copy(dirty[:touched], residue[:touched])
		touched = len(d.full)
		copy(clean, d.full[:cut])
		// an earlier, longer datagram: either generic residue or the full text of
		// this very message (the most seductive completion)
		if g.R.Intn(2) != 0 {
			copy(dirty, d.full)
		}
		copy(dirty, d.full[:cut])
		rc := loop.push(clean, cut)
		rd := loop.push(dirty, cut)
		if rd.relayed {
			relays++
		} else {
			discards++
		}
		if why := c10Judge(d, cut, rc, rd); why != "" {
			run.Violation(why, map[string]any{"datagram": string(d.full[:vfMin(cut, 600)]), "bytes_carried": cut, "declared_content_length": d.declared, "own_body_bytes": len(d.body), "kind": d.kind})
			return false
		}
		run.Eval(sig)
		return true
	}
	for i := 0; i < n && run.Violations() < 5; i++ {
		d := c10Build(g, i)
		if len(d.full) > 60000 {
			continue
		}
		sz := "small"
		if len(d.full) > 10000 {
			sz = "large"
		}
		check(d, d.cut, d.kind+"|"+sz)
		if run.WantSample() && d.kind != "exact" {
			run.Sample(map[string]any{"kind": d.kind, "bytes_carried": d.cut, "declared": d.declared, "own_body": len(d.body), "head": d.head})
		}
	}
	// every structural offset of short datagrams
	nshort := ev.Pick(30, 200)
	offs := 0
	for i := 0; i < nshort && run.Violations() < 5; i++ {
		d := c10Build(g, 1000000+i)
		if len(d.full) > 700 {
			continue
		}
		for cut := 0; cut <= len(d.full); cut++ {
			offs++
			if !check(d, cut, fmt.Sprintf("everycut|%s|%d", d.kind, i)) {
				break
			}
		}
	}
	run.Observe("datagrams_processed", relays)
	run.Observe("datagrams_discarded", discards)
	run.Observe("exhaustive_cut_offsets", offs)
	if relays == 0 || discards == 0 {
		run.Violation("observed-nothing", "the workload produced no processed or no discarded datagram")
	}
	// (b) pool ownership
	nh := ev.Pick(200, 4000)
	model := c10PoolModel()
	okc, unknown := 0, 0
	rnd := rand.New(rand.NewSource(run.Seed))
	for h := 0; h < nh && run.Violations() < 5; h++ {
		pool := NewByteArrayPool(1+rnd.Intn(4), 256)
		var clock int64
		tick := func() int64 { return atomic.AddInt64(&clock, 1) }
		var mu sync.Mutex
		var ops []porcupine.Operation
		var wg sync.WaitGroup
		var stampBad int32
		workers := 2 + rnd.Intn(4)
		for w := 0; w < workers; w++ {
			wg.Add(1)
			seed := rnd.Int63()
			go func(w int) {
				defer wg.Done()
				r := rand.New(rand.NewSource(seed))
				for k := 0; k < 6+r.Intn(6); k++ {
					c := tick()
					b := pool.Alloc()
					ret := tick()
					id := fmt.Sprintf("%x", uintptr(unsafe.Pointer(&b[0])))
					mu.Lock()
					ops = append(ops, porcupine.Operation{ClientId: w, Input: "alloc", Output: id, Call: c, Return: ret})
					mu.Unlock()
					stamp := byte(w*16 + k + 1)
					for i := range b {
						b[i] = stamp
					}
					if r.Intn(2) == 0 {
						time.Sleep(time.Duration(r.Intn(40)) * time.Microsecond)
					}
					for i := range b {
						if b[i] != stamp {
							atomic.StoreInt32(&stampBad, 1)
						}
					}
					c = tick()
					pool.Free(b)
					ret = tick()
					mu.Lock()
					ops = append(ops, porcupine.Operation{ClientId: w, Input: "free " + id, Output: "", Call: c, Return: ret})
					mu.Unlock()
				}
			}(w)
		}
		wg.Wait()
		if stampBad != 0 {
			run.Violation("a pooled buffer was written by a second holder while held", map[string]any{"history_ops": len(ops)})
		}
		res, _ := porcupine.CheckOperationsVerbose(model, ops, 60*time.Second)
		switch res {
		case porcupine.Ok:
			okc++
		case porcupine.Unknown:
			unknown++
			run.Inconclusive(1)
		default:
			var hist []string
			sort.Slice(ops, func(a, b int) bool { return ops[a].Call < ops[b].Call })
			for _, o := range ops {
				hist = append(hist, fmt.Sprintf("[%d,%d] g%d %v -> %v", o.Call, o.Return, o.ClientId, o.Input, o.Output))
			}
			run.Violation("pool history not linearizable: a buffer had two holders", map[string]any{"history": hist})
		}
		run.Eval(fmt.Sprintf("pool-%d-%d", workers, len(ops)))
	}
	run.Observe("pool_histories", nh)
	run.Observe("pool_histories_linearizable", okc)
	run.Observe("pool_checker_timeouts", unknown)
	// (c) load: the consumer of the listener stalls for a moment (a blocking next hop), thousands
	// of datagrams pile up between the receive goroutine and the parser, the stall ends; every
	// datagram received then and afterwards - in particular long ones after short ones - must
	// still come out as the image of itself
	c10Backlog(run)
	run.Assume("in-package part: datagrams are handed to the real parse loop through its own channel exactly as the receive goroutine does (buffer + length); the socket itself is exercised by the wire part")
	vfFinish(t, run, 1000)
}

// c10Gate is the consumer of a real UDP listener: it files what the listener delivers under the
// datagram's X-Vf id and can be made to block.
type c10Gate struct {
	mu      sync.Mutex
	open    chan struct{}
	got     map[int][]byte
	dup     int
	arrived int64
}

func (g *c10Gate) HandleMessage(m *Message) {}
func (g *c10Gate) HandleRawMessage(rm *RawMessage) {
	g.mu.Lock()
	ch := g.open
	g.mu.Unlock()
	<-ch
	id := -1
	if v, err := rm.Message.GetHeaderValue("X-Vf"); err == nil {
		fmt.Sscanf(fmt.Sprint(v), "%d", &id)
	}
	b, _ := rm.Message.Bytes()
	g.mu.Lock()
	if _, ok := g.got[id]; ok {
		g.dup++
	}
	g.got[id] = b
	g.mu.Unlock()
	atomic.AddInt64(&g.arrived, 1)
}

func c10UDPDrops(port int) int64 {
	data, err := os.ReadFile("/proc/net/udp")
	if err != nil {
		return -1
	}
	want := fmt.Sprintf(":%04X", port)
	for _, line := range strings.Split(string(data), "\n") {
		f := strings.Fields(line)
		if len(f) >= 13 && strings.HasSuffix(f[1], want) {
			var d int64
			fmt.Sscanf(f[len(f)-1], "%d", &d)
			return d
		}
	}
	return -1
}

func c10Backlog(run *ev.Run) {
	rounds := ev.Pick(2, 8)
	var piled, longAfter int64
	for round := 0; round < rounds && run.Violations() < 5; round++ {
		probe, err := net.ListenUDP("udp", &net.UDPAddr{IP: net.IPv4(127, 0, 0, 1)})
		if err != nil {
			run.Inconclusive(1)
			return
		}
		port := probe.LocalAddr().(*net.UDPAddr).Port
		probe.Close()
		u, err := NewUDPServerTransport("127.0.0.1", port, false, NewSelfLearnRoute())
		if err != nil {
			run.Inconclusive(1)
			return
		}
		gate := &c10Gate{open: make(chan struct{}), got: map[int][]byte{}}
		if err := u.Start(gate); err != nil {
			run.Inconclusive(1)
			return
		}
		cl, err := net.DialUDP("udp", nil, &net.UDPAddr{IP: net.IPv4(127, 0, 0, 1), Port: port})
		if err != nil {
			run.Inconclusive(1)
			return
		}
		r := rand.New(rand.NewSource(run.Seed*31 + int64(round)))
		build := func(id, size int) []byte {
			br := rand.New(rand.NewSource(int64(id)*7919 + 1))
			body := make([]byte, size)
			for i := range body {
				body[i] = byte('A' + br.Intn(26))
			}
			head := fmt.Sprintf("MESSAGE sip:u%d@verif.test SIP/2.0\r\nVia: SIP/2.0/UDP 127.1.0.1:5060;branch=z9hG4bKb%d\r\nCall-ID: b%d@verif\r\nX-Vf: %d\r\nContent-Length: %d\r\n\r\n", id, id, id, id, size)
			return append([]byte(head), body...)
		}
		sent := map[int][]byte{}
		next := round * 1000000
		send := func(size int) int {
			id := next
			next++
			d := build(id, size)
			sent[id] = d
			cl.Write(d)
			return id
		}
		// the pile: small datagrams of a few sizes, in chunks so that the kernel queue never fills
		nburst := 1500 + r.Intn(1500)
		small := []int{0, 3, 40 + r.Intn(100)}
		for i := 0; i < nburst; i++ {
			send(small[r.Intn(len(small))])
			if i%40 == 39 {
				// closed loop: the receive goroutine has queued what was sent so far (the parser holds
				// one datagram, blocked in the consumer), so the kernel queue of the socket never fills
				for dl := time.Now().Add(2 * time.Second); len(u.msgParseChannel) < i-1 && time.Now().Before(dl); {
					time.Sleep(50 * time.Microsecond)
				}
			}
		}
		time.Sleep(20 * time.Millisecond)
		waiting := int64(nburst) - atomic.LoadInt64(&gate.arrived)
		close(gate.open) // the stall ends
		await := func(n int64) bool {
			deadline := time.Now().Add(20 * time.Second)
			for atomic.LoadInt64(&gate.arrived) < n {
				if time.Now().After(deadline) {
					return false
				}
				time.Sleep(200 * time.Microsecond)
			}
			return true
		}
		await(int64(nburst))
		// afterwards: longer datagrams, one at a time on an idle listener
		nlong := 120
		total := int64(nburst)
		for i := 0; i < nlong; i++ {
			size := 200 + r.Intn(3000)
			if i%10 == 0 {
				size = 20000 + r.Intn(40000)
			}
			send(size)
			total++
			await2 := time.Now().Add(5 * time.Second)
			for atomic.LoadInt64(&gate.arrived) < total && time.Now().Before(await2) {
				time.Sleep(100 * time.Microsecond)
			}
			if atomic.LoadInt64(&gate.arrived) < total {
				total = atomic.LoadInt64(&gate.arrived) // lost: judged below by id
			}
		}
		drops := c10UDPDrops(port)
		gate.mu.Lock()
		missingSmall, missingLong, wrong := 0, 0, 0
		var witness map[string]any
		for id, d := range sent {
			got, ok := gate.got[id]
			isLong := id-round*1000000 >= nburst
			if !ok {
				if isLong {
					missingLong++
					if witness == nil {
						witness = map[string]any{"datagram_bytes": len(d), "sent_alone_to_an_idle_listener_after_the_pile": true, "head": string(d[:vfMin(len(d), 160)])}
					}
				} else {
					missingSmall++
				}
				continue
			}
			// the image of the datagram alone: same start line, own id, own body
			di := bytes.Index(d, []byte("\r\n\r\n"))
			gi := bytes.Index(got, []byte("\r\n\r\n"))
			if gi < 0 || !bytes.Equal(got[gi+4:], d[di+4:]) || !bytes.HasPrefix(got, d[:bytes.IndexByte(d, '\r')]) {
				wrong++
				witness = map[string]any{"datagram_bytes": len(d), "relayed_bytes": len(got), "head": string(d[:vfMin(len(d), 160)])}
			}
		}
		dup := gate.dup
		gate.mu.Unlock()
		cl.Close()
		vfRecover("close", func() { u.conn.Close() })
		atomic.AddInt64(&piled, waiting)
		atomic.AddInt64(&longAfter, int64(nlong))
		obs := map[string]any{"datagrams_in_the_pile": nburst, "waiting_for_the_parser_when_the_stall_ended": waiting, "kernel_drops_on_the_listener_socket": drops,
			"missing_of_the_pile": missingSmall, "missing_of_the_longer_datagrams_sent_afterwards": missingLong, "not_the_image_of_their_datagram": wrong, "delivered_twice": dup, "witness": witness}
		switch {
		case wrong > 0 || dup > 0:
			run.Violation("under a pile of waiting datagrams a datagram was not processed as the image of itself", obs)
		case drops > 0 || drops < 0:
			run.Inconclusive(1) // the kernel dropped something (or cannot be asked): losses cannot be attributed
		case missingLong > 0 || missingSmall > 0:
			run.Violation("complete datagrams were discarded after many datagrams had been waiting for the parser", obs)
		}
		run.Eval(fmt.Sprintf("backlog-%d", round))
	}
	run.Observe("datagrams_waiting_for_the_parser_when_stalls_ended", piled)
	run.Observe("longer_datagrams_sent_after_the_piles", longAfter)
}
