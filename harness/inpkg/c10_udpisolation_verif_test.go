//go:build verif

package main

// C10 - a UDP datagram is processed in isolation. (a) differential monitor:
// the same datagram pushed through the real parse loop once in a zeroed buffer
// and once in a buffer that still holds an earlier, longer datagram must give
// the same result, and that result must be the image of the datagram alone;
// (b) buffer-pool ownership history checked with porcupine.

import (
	"bytes"
	"fmt"
	"math/rand"
	"sort"
	"strings"
	"sync"
	"sync/atomic"
	"testing"
	"time"
	"unsafe"

	"github.com/anishathalye/porcupine"

	"vf/ev"
	"vf/sip"
)

type c10Result struct {
	relayed bool
	bytes   []byte
}

// c10Loop owns one real UDP transport whose parse goroutine runs.
type c10Loop struct {
	u      *UDPServerTransport
	marker []byte
}

func newC10Loop() *c10Loop {
	u, err := NewUDPServerTransport("127.0.0.1", 0, false, NewSelfLearnRoute())
	if err != nil {
		panic(err)
	}
	go u.startParseMessage()
	return &c10Loop{u: u}
}

// push hands buf[:n] to the real parse loop exactly like receiveMessage does and
// waits, behind a marker datagram, for the outcome.
func (l *c10Loop) push(buf []byte, n int) c10Result {
	var res c10Result
	done := make(chan struct{})
	l.u.msgParseChannel <- SizedByteArray{b: buf, n: n, msgHandler: func(m *Message) {
		res.relayed = true
		res.bytes, _ = m.Bytes()
	}}
	marker := []byte("OPTIONS sip:marker@verif.test SIP/2.0\r\nContent-Length: 0\r\n\r\n")
	if l.marker == nil {
		l.marker = make([]byte, 64*1024)
		copy(l.marker, marker)
	}
	mb := l.marker
	l.u.msgParseChannel <- SizedByteArray{b: mb, n: len(marker), msgHandler: func(m *Message) { close(done) }}
	select {
	case <-done:
	case <-time.After(20 * time.Second):
		panic("C10 harness: marker datagram was not processed within 20 s")
	}
	return res
}

type c10Datagram struct {
	id       int
	head     string // header section without Content-Length and without the final blank line
	body     []byte
	declared int // Content-Length written
	cut      int // bytes actually carried (<= full length)
	full     []byte
	kind     string
}

func c10Build(g *sip.Gen, id int) c10Datagram {
	var d c10Datagram
	d.id = id
	var hb strings.Builder
	if g.R.Intn(2) == 0 {
		fmt.Fprintf(&hb, "%s sip:u%d@verif.test SIP/2.0\r\n", g.Method(), id)
	} else {
		fmt.Fprintf(&hb, "SIP/2.0 %d %s\r\n", 100+g.R.Intn(600), g.Reason())
	}
	fmt.Fprintf(&hb, "Via: SIP/2.0/UDP 127.1.0.1:5060;branch=z9hG4bKd%d\r\nCall-ID: d%d@verif\r\nX-Vf: %d\r\n", id, id, id)
	for k := g.R.Intn(5); k > 0; k-- {
		n, _ := g.ExtName()
		fmt.Fprintf(&hb, "%s: %s\r\n", n, g.Alnum(0, 60))
	}
	d.head = hb.String()
	var size int
	switch g.R.Intn(6) {
	case 0:
		size = 0
	case 1:
		size = 1 + g.R.Intn(20)
	case 2:
		size = 20000 + g.R.Intn(40000)
	default:
		size = g.R.Intn(1500)
	}
	// body derived from the id: a single foreign byte is visible
	r := rand.New(rand.NewSource(int64(id)*7919 + 1))
	d.body = make([]byte, size)
	for i := range d.body {
		d.body[i] = byte('A' + r.Intn(26))
	}
	d.declared = size
	d.kind = "exact"
	switch g.R.Intn(8) {
	case 0:
		d.declared = size + 1 + g.R.Intn(100)
		d.kind = "over-declared"
	case 1:
		if size > 0 {
			d.declared = g.R.Intn(size)
			d.kind = "under-declared"
		}
	case 2:
		d.declared = size + 60000
		d.kind = "over-declared"
	}
	d.full = []byte(d.head + fmt.Sprintf("Content-Length: %d\r\n\r\n", d.declared))
	d.full = append(d.full, d.body...)
	d.cut = len(d.full)
	if g.R.Intn(4) == 0 {
		d.cut = g.R.Intn(len(d.full))
		d.kind += "+cut"
	}
	return d
}

// c10Expect: what the datagram alone determines. complete = header section
// complete and at least `declared` body bytes carried.
func c10Expect(d c10Datagram, cut int) (relay bool, body []byte) {
	hdrEnd := len(d.full) - len(d.body)
	if cut < hdrEnd {
		return false, nil
	}
	carried := cut - hdrEnd
	if d.declared > carried {
		return false, nil
	}
	return true, d.body[:d.declared]
}

func c10Judge(d c10Datagram, cut int, clean, dirty c10Result) string {
	if clean.relayed != dirty.relayed {
		return fmt.Sprintf("result depends on what the buffer held before: clean buffer relayed=%v, recycled buffer relayed=%v", clean.relayed, dirty.relayed)
	}
	if clean.relayed && !bytes.Equal(clean.bytes, dirty.bytes) {
		return "relayed bytes depend on what the buffer held before"
	}
	wantRelay, wantBody := c10Expect(d, cut)
	if dirty.relayed != wantRelay {
		if wantRelay {
			return "a complete datagram was discarded"
		}
		return "a datagram that is cut short or over-declares its body was processed instead of discarded"
	}
	if !wantRelay {
		return ""
	}
	m, err := sip.Read(dirty.bytes)
	if err != nil {
		return "output unreadable: " + err.Error()
	}
	if !bytes.Equal(m.Body, wantBody) {
		return fmt.Sprintf("body of the processed message is not the first %d bytes of the datagram's own body (got %d bytes)", len(wantBody), len(m.Body))
	}
	if v, _ := m.First("x-vf"); v != fmt.Sprint(d.id) {
		return "identity header of another datagram"
	}
	return ""
}

func c10PoolModel() porcupine.Model {
	return porcupine.Model{
		Init: func() interface{} { return "" },
		Step: func(state, input, output interface{}) (bool, interface{}) {
			held := map[string]bool{}
			if s := state.(string); s != "" {
				for _, x := range strings.Split(s, ",") {
					held[x] = true
				}
			}
			in := input.(string)
			enc := func() string {
				xs := make([]string, 0, len(held))
				for x := range held {
					xs = append(xs, x)
				}
				sort.Strings(xs)
				return strings.Join(xs, ",")
			}
			if in == "alloc" {
				id := output.(string)
				if held[id] {
					return false, state
				}
				held[id] = true
				return true, enc()
			}
			delete(held, strings.TrimPrefix(in, "free "))
			return true, enc()
		},
		DescribeOperation: func(in, out interface{}) string { return fmt.Sprintf("%v -> %v", in, out) },
	}
}

func TestVerifC10(t *testing.T) {
	run := ev.New("C10", "exploration",
		"(a) generated datagrams (20 B - 60 KiB, exact / over- / under-declared Content-Length, optionally cut at a random or at every structural offset) pushed through the real UDP parse loop in a clean and in a recycled buffer holding a longer earlier datagram; "+
			"oracle = image of the datagram alone; (b) concurrent Alloc/Free histories of the real buffer pool checked by porcupine ('a buffer has at most one holder') plus an online ownership stamp; distinct = distinct (kind, size class) cells / histories")
	g := sip.NewGen(run.Seed)
	loop := newC10Loop()
	n := ev.Pick(4000, 150000)
	residue := bytes.Repeat([]byte("RESIDUE-OF-AN-EARLIER-DATAGRAM\r\nX-Old: 1\r\n\r\nOLDBODYOLDBODY"), 1200)[:64*1024]
	relays, discards := 0, 0
	clean := make([]byte, 64*1024)
	dirty := make([]byte, 64*1024)
	copy(dirty, residue)
	touched := 0
	check := func(d c10Datagram, cut int, sig string) bool {
		// restore the two buffers where the previous case wrote into them
		for i := 0; i < touched; i++ {
			clean[i] = 0
		}
		copy(dirty[:touched], residue[:touched])
		touched = len(d.full)
		copy(clean, d.full[:cut])
		// an earlier, longer datagram: either generic residue or the full text of
		// this very message (the most seductive completion)
		if g.R.Intn(2) != 0 {
			copy(dirty, d.full)
		}
		copy(dirty, d.full[:cut])
		rc := loop.push(clean, cut)
		rd := loop.push(dirty, cut)
		if rd.relayed {
			relays++
		} else {
			discards++
		}
		if why := c10Judge(d, cut, rc, rd); why != "" {
			run.Violation(why, map[string]any{"datagram": string(d.full[:vfMin(cut, 600)]), "bytes_carried": cut, "declared_content_length": d.declared, "own_body_bytes": len(d.body), "kind": d.kind})
			return false
		}
		run.Eval(sig)
		return true
	}
	for i := 0; i < n && run.Violations() < 5; i++ {
		d := c10Build(g, i)
		if len(d.full) > 60000 {
			continue
		}
		sz := "small"
		if len(d.full) > 10000 {
			sz = "large"
		}
		check(d, d.cut, d.kind+"|"+sz)
		if run.WantSample() && d.kind != "exact" {
			run.Sample(map[string]any{"kind": d.kind, "bytes_carried": d.cut, "declared": d.declared, "own_body": len(d.body), "head": d.head})
		}
	}
	// every structural offset of short datagrams
	nshort := ev.Pick(30, 200)
	offs := 0
	for i := 0; i < nshort && run.Violations() < 5; i++ {
		d := c10Build(g, 1000000+i)
		if len(d.full) > 700 {
			continue
		}
		for cut := 0; cut <= len(d.full); cut++ {
			offs++
			if !check(d, cut, fmt.Sprintf("everycut|%s|%d", d.kind, i)) {
				break
			}
		}
	}
	run.Observe("datagrams_processed", relays)
	run.Observe("datagrams_discarded", discards)
	run.Observe("exhaustive_cut_offsets", offs)
	if relays == 0 || discards == 0 {
		run.Violation("observed-nothing", "the workload produced no processed or no discarded datagram")
	}
	// (b) pool ownership
	nh := ev.Pick(200, 4000)
	model := c10PoolModel()
	okc, unknown := 0, 0
	rnd := rand.New(rand.NewSource(run.Seed))
	for h := 0; h < nh && run.Violations() < 5; h++ {
		pool := NewByteArrayPool(1+rnd.Intn(4), 256)
		var clock int64
		tick := func() int64 { return atomic.AddInt64(&clock, 1) }
		var mu sync.Mutex
		var ops []porcupine.Operation
		var wg sync.WaitGroup
		var stampBad int32
		workers := 2 + rnd.Intn(4)
		for w := 0; w < workers; w++ {
			wg.Add(1)
			seed := rnd.Int63()
			go func(w int) {
				defer wg.Done()
				r := rand.New(rand.NewSource(seed))
				for k := 0; k < 6+r.Intn(6); k++ {
					c := tick()
					b := pool.Alloc()
					ret := tick()
					id := fmt.Sprintf("%x", uintptr(unsafe.Pointer(&b[0])))
					mu.Lock()
					ops = append(ops, porcupine.Operation{ClientId: w, Input: "alloc", Output: id, Call: c, Return: ret})
					mu.Unlock()
					stamp := byte(w*16 + k + 1)
					for i := range b {
						b[i] = stamp
					}
					if r.Intn(2) == 0 {
						time.Sleep(time.Duration(r.Intn(40)) * time.Microsecond)
					}
					for i := range b {
						if b[i] != stamp {
							atomic.StoreInt32(&stampBad, 1)
						}
					}
					c = tick()
					pool.Free(b)
					ret = tick()
					mu.Lock()
					ops = append(ops, porcupine.Operation{ClientId: w, Input: "free " + id, Output: "", Call: c, Return: ret})
					mu.Unlock()
				}
			}(w)
		}
		wg.Wait()
		if stampBad != 0 {
			run.Violation("a pooled buffer was written by a second holder while held", map[string]any{"history_ops": len(ops)})
		}
		res, _ := porcupine.CheckOperationsVerbose(model, ops, 60*time.Second)
		switch res {
		case porcupine.Ok:
			okc++
		case porcupine.Unknown:
			unknown++
			run.Inconclusive(1)
		default:
			var hist []string
			sort.Slice(ops, func(a, b int) bool { return ops[a].Call < ops[b].Call })
			for _, o := range ops {
				hist = append(hist, fmt.Sprintf("[%d,%d] g%d %v -> %v", o.Call, o.Return, o.ClientId, o.Input, o.Output))
			}
			run.Violation("pool history not linearizable: a buffer had two holders", map[string]any{"history": hist})
		}
		run.Eval(fmt.Sprintf("pool-%d-%d", workers, len(ops)))
	}
	run.Observe("pool_histories", nh)
	run.Observe("pool_histories_linearizable", okc)
	run.Observe("pool_checker_timeouts", unknown)
	run.Assume("in-package part: datagrams are handed to the real parse loop through its own channel exactly as the receive goroutine does (buffer + length); the socket itself is exercised by the wire part")
	vfFinish(t, run, 1000)
}
