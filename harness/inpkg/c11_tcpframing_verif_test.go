//go:build verif

package main

// C11 - TCP framing must depend on the bytes only. The generator's abstract
// message sequence is the oracle; the real per-connection receive loop is fed
// through a scripted connection that returns exactly the scripted segments.

import (
	"bytes"
	"fmt"
	"io"
	"math/rand"
	"net"
	"strings"
	"sync"
	"testing"
	"time"

	"vf/ev"
	"vf/sip"
)

// c11Conn returns the scripted segments one per Read call.
type c11Conn struct {
	segs   [][]byte
	i      int
	closed chan struct{}
	once   sync.Once
}

func (c *c11Conn) Read(b []byte) (int, error) {
	for c.i < len(c.segs) && len(c.segs[c.i]) == 0 {
		c.i++
	}
	if c.i >= len(c.segs) {
		return 0, io.EOF
	}
	n := copy(b, c.segs[c.i])
	c.segs[c.i] = c.segs[c.i][n:]
	return n, nil
}
func (c *c11Conn) Write(b []byte) (int, error)        { return len(b), nil }
func (c *c11Conn) Close() error                       { c.once.Do(func() { close(c.closed) }); return nil }
func (c *c11Conn) LocalAddr() net.Addr                { return &net.TCPAddr{IP: net.IPv4(127, 0, 0, 1), Port: 5070} }
func (c *c11Conn) RemoteAddr() net.Addr               { return &net.TCPAddr{IP: net.IPv4(127, 0, 0, 9), Port: 40000} }
func (c *c11Conn) SetDeadline(t time.Time) error      { return nil }
func (c *c11Conn) SetReadDeadline(t time.Time) error  { return nil }
func (c *c11Conn) SetWriteDeadline(t time.Time) error { return nil }

type c11Capture struct {
	msgs []*Message
}

func (h *c11Capture) HandleRawMessage(m *RawMessage) { h.msgs = append(h.msgs, m.Message) }
func (h *c11Capture) HandleMessage(m *Message)       {}

// c11Decode runs the real receive loop over the segments.
func c11Decode(segs [][]byte) []*Message {
	conn := &c11Conn{segs: segs, closed: make(chan struct{})}
	h := &c11Capture{}
	t := NewTCPServerTransportWithConn(conn, false, NewSelfLearnRoute())
	t.msgHandler = h
	t.receiveMessage(conn) // returns when the stream is exhausted
	return h.msgs
}

type c11Abstract struct {
	start   string
	headers []sip.Header
	body    []byte
}

func c11Generate(g *sip.Gen, small bool) (msgs []c11Abstract, stream []byte, sig string) {
	n := 1 + g.R.Intn(8)
	if small {
		n = 1 + g.R.Intn(2)
	}
	eol := "\r\n"
	if g.R.Intn(4) == 0 {
		eol = "\n"
		sig += "LF,"
	}
	var b bytes.Buffer
	longLines, bigBody, keep := 0, 0, 0
	for i := 0; i < n; i++ {
		if i > 0 || g.R.Intn(3) == 0 {
			k := g.R.Intn(4)
			keep += k
			for j := 0; j < k; j++ {
				b.WriteString("\r\n")
			}
		}
		var m c11Abstract
		if g.R.Intn(2) == 0 {
			m.start = fmt.Sprintf("%s sip:u%d@h.example SIP/2.0", g.Method(), i)
		} else {
			m.start = fmt.Sprintf("SIP/2.0 %d %s", 100+g.R.Intn(600), g.Reason())
		}
		nh := 1 + g.R.Intn(6)
		if small {
			nh = 1 + g.R.Intn(2)
		}
		for k := 0; k < nh; k++ {
			name, _ := g.ExtName()
			var val string
			switch x := g.R.Intn(10); {
			case small:
				val = g.Alnum(0, 6)
			case x < 5:
				val = g.Alnum(0, 40)
			case x < 7:
				// straddle the 4096-byte window at every alignment
				val = g.Alnum(4096-len(name)-6+g.R.Intn(12), 4096-len(name)-6+g.R.Intn(12)+g.R.Intn(3)*4096)
				longLines++
			case x < 8:
				l := 4000 + g.R.Intn(16400)
				val = g.Alnum(l, l)
				longLines++
			default:
				val = g.Alnum(100, 3000)
			}
			m.headers = append(m.headers, sip.Header{Name: name, Value: val})
		}
		switch x := g.R.Intn(10); {
		case small:
			m.body = []byte(g.Alnum(0, 5))
		case x < 3:
		case x < 5:
			m.body = []byte("BYE sip:x@y SIP/2.0\r\nContent-Length: 3\r\n\r\nabc\r\n\r\nSIP/2.0 200 OK\r\nl: 0\r\n\r\n")
		case x < 6:
			m.body = make([]byte, 30000+g.R.Intn(30000))
			g.R.Read(m.body)
			bigBody++
		default:
			m.body = make([]byte, g.R.Intn(600))
			g.R.Read(m.body)
		}
		clName := []string{"Content-Length", "l", "content-length", "L"}[g.R.Intn(4)]
		clValue := fmt.Sprint(len(m.body))
		if g.R.Intn(6) == 0 {
			// zero-padded, as stacks with fixed-width fields write it (1*DIGIT, still decimal)
			clValue = fmt.Sprintf("%0*d", len(clValue)+1+g.R.Intn(3), len(m.body))
		}
		m.headers = append(m.headers, sip.Header{Name: clName, Value: clValue})
		if g.R.Intn(2) == 0 && len(m.headers) > 1 {
			// Content-Length anywhere among the headers
			j := g.R.Intn(len(m.headers))
			l := len(m.headers) - 1
			m.headers[j], m.headers[l] = m.headers[l], m.headers[j]
		}
		b.WriteString(m.start + eol)
		for _, h := range m.headers {
			b.WriteString(h.Name + ": " + h.Value + eol)
		}
		b.WriteString(eol)
		b.Write(m.body)
		msgs = append(msgs, m)
	}
	sig += fmt.Sprintf("n%d", n)
	if longLines > 0 {
		sig += ",long"
	}
	if bigBody > 0 {
		sig += ",bigbody"
	}
	if keep > 0 {
		sig += ",keepalive"
	}
	return msgs, b.Bytes(), sig
}

func c11Compare(want []c11Abstract, got []*Message) string {
	if len(got) != len(want) {
		return fmt.Sprintf("%d messages decoded, %d sent", len(got), len(want))
	}
	for i, w := range want {
		g := got[i]
		var sb strings.Builder
		g.encodeFirstLine(&sb)
		if strings.TrimSuffix(sb.String(), "\r\n") != w.start {
			return fmt.Sprintf("message %d: start line %q != %q", i, strings.TrimSuffix(sb.String(), "\r\n"), w.start)
		}
		if len(g.headers) != len(w.headers) {
			return fmt.Sprintf("message %d: %d headers decoded, %d sent", i, len(g.headers), len(w.headers))
		}
		for k, h := range w.headers {
			gv, _ := g.headers[k].value.(string)
			if g.headers[k].name != h.Name || gv != h.Value {
				return fmt.Sprintf("message %d header %d (%s, %d bytes) differs: got name %q, %d bytes, first difference at byte %d", i, k, h.Name, len(h.Value), g.headers[k].name, len(gv), c11FirstDiff(gv, h.Value))
			}
		}
		if !bytes.Equal(g.body, w.body) {
			return fmt.Sprintf("message %d: body differs (%d vs %d bytes)", i, len(g.body), len(w.body))
		}
	}
	return ""
}

func c11FirstDiff(a, b string) int {
	n := len(a)
	if len(b) < n {
		n = len(b)
	}
	for i := 0; i < n; i++ {
		if a[i] != b[i] {
			return i
		}
	}
	return n
}

func c11Split(stream []byte, cuts []int) [][]byte {
	var segs [][]byte
	prev := 0
	for _, c := range cuts {
		segs = append(segs, append([]byte{}, stream[prev:c]...))
		prev = c
	}
	return append(segs, append([]byte{}, stream[prev:]...))
}

func TestVerifC11(t *testing.T) {
	run := ev.New("C11", "exploration",
		"generated message sequences (1-8 messages, header lines 1 B - 20 KiB straddling the 4096-byte read window, bodies 0-60 KiB incl. SIP look-alikes, CRLF/LF, keep-alives) x segmentations "+
			"(all single and double cuts of short streams, random multi-cuts down to 1-byte dribble); oracle = generator's abstract sequence vs. what the real per-connection receive loop hands on; distinct = distinct (stream shape, split kind)")
	workers := vfNumWorkers()
	nShort := ev.Pick(16, 64)      // short streams cut exhaustively (single+double)
	nLong := ev.Pick(600, 20000)   // longer streams with random cuts
	maxShort := ev.Pick(260, 1500) // byte bound for exhaustive double cuts
	var pairs, exhaustiveStreams int64
	var mu sync.Mutex
	fail := func(kind string, stream []byte, cuts []int, why string) {
		s := string(stream)
		if len(s) > 1500 {
			s = s[:1500] + fmt.Sprintf("...(%d bytes)", len(stream))
		}
		run.Violation(kind+": "+why, map[string]any{"stream": s, "cuts": cuts, "why": why})
	}
	vfWorkers(workers, func(w int) {
		g := sip.NewGen(run.Seed*100 + int64(w))
		sigs := newVfSigs()
		defer sigs.flush(run)
		var lp int64
		// exhaustive part
		for s := w; s < nShort; s += workers {
			var msgs []c11Abstract
			var stream []byte
			var sig string
			for {
				msgs, stream, sig = c11Generate(g, true)
				if len(stream) <= maxShort && len(stream) > 60 {
					break
				}
			}
			if why := c11Compare(msgs, c11Decode([][]byte{stream})); why != "" {
				fail("unsplit", stream, nil, why)
				continue
			}
			ok := true
			for a := 1; a < len(stream) && ok; a++ {
				lp++
				if why := c11Compare(msgs, c11Decode(c11Split(stream, []int{a}))); why != "" {
					fail("single cut", stream, []int{a}, why)
					ok = false
				}
				for b := a + 1; b < len(stream) && ok; b++ {
					lp++
					if why := c11Compare(msgs, c11Decode(c11Split(stream, []int{a, b}))); why != "" {
						fail("double cut", stream, []int{a, b}, why)
						ok = false
					}
				}
			}
			mu.Lock()
			exhaustiveStreams++
			mu.Unlock()
			sigs.eval("exhaustive2:" + sig)
			if run.WantSample() {
				run.Sample(map[string]any{"kind": "stream cut at every single and double position", "bytes": len(stream), "stream": string(stream)})
			}
		}
		// random part
		for s := w; s < nLong; s += workers {
			if run.Violations() > 8 {
				break
			}
			msgs, stream, sig := c11Generate(g, false)
			if why := c11Compare(msgs, c11Decode([][]byte{stream})); why != "" {
				fail("unsplit", stream, nil, why)
				continue
			}
			lp++
			for rep := 0; rep < 4; rep++ {
				var cuts []int
				kind := ""
				switch rep {
				case 0: // few random cuts
					kind = "few"
					for k := 0; k < 1+g.R.Intn(4); k++ {
						cuts = append(cuts, 1+g.R.Intn(len(stream)-1))
					}
				case 1: // cuts around structural boundaries
					kind = "boundary"
					for _, needle := range []string{"\r\n\r\n", "\n\n", "Content-Length", "\r\n", ":"} {
						if i := bytes.Index(stream, []byte(needle)); i > 0 {
							cuts = append(cuts, i+g.R.Intn(len(needle)+1))
						}
					}
					for _, off := range []int{4095, 4096, 4097, 8192} {
						if off < len(stream) {
							cuts = append(cuts, off)
						}
					}
				case 2: // many cuts
					kind = "many"
					for k := 0; k < 20+g.R.Intn(200); k++ {
						cuts = append(cuts, 1+g.R.Intn(len(stream)-1))
					}
				case 3: // 1-byte dribble over a window
					kind = "dribble"
					st := g.R.Intn(len(stream))
					for k := st; k < len(stream) && k < st+3000; k++ {
						if k > 0 {
							cuts = append(cuts, k)
						}
					}
				}
				cuts = c11Norm(cuts, len(stream))
				lp++
				if why := c11Compare(msgs, c11Decode(c11Split(stream, cuts))); why != "" {
					if len(cuts) > 40 {
						cuts = cuts[:40]
					}
					fail("random cuts ("+kind+")", stream, cuts, why)
					break
				}
				sigs.eval(kind + ":" + sig)
			}
			if run.WantSample() && len(stream) < 1200 && len(msgs) > 1 {
				run.Sample(map[string]any{"kind": "random multi-cut", "bytes": len(stream), "stream": string(stream)})
			}
		}
		mu.Lock()
		pairs += lp
		mu.Unlock()
	})
	run.EvalN("", pairs-run.Evals())
	run.Observe("stream_split_pairs_decoded", pairs)
	run.Observe("streams_cut_exhaustively", exhaustiveStreams)
	run.Observe("exhaustive_stream_byte_bound", maxShort)
	run.Assume("streams stay inside the C11 quantifier: well-formed messages with Content-Length, no folded lines")
	vfFinish(t, run, 1000)
}

func c11Norm(cuts []int, n int) []int {
	seen := map[int]bool{}
	var r []int
	for _, c := range cuts {
		if c > 0 && c < n && !seen[c] {
			seen[c] = true
			r = append(r, c)
		}
	}
	// insertion sort is fine for these sizes
	for i := 1; i < len(r); i++ {
		for j := i; j > 0 && r[j-1] > r[j]; j-- {
			r[j-1], r[j] = r[j], r[j-1]
		}
	}
	return r
}

var _ = rand.Int
