//go:build verif

package main

// C15 (table level) - pin lifetime and purging with millisecond lifetimes.
// Every operation is bracketed by monotonic timestamps; verdicts use the
// brackets only, everything in between is a counted don't-care.

import (
	"fmt"
	"math/rand"
	"sync"
	"sync/atomic"
	"testing"
	"time"

	"vf/ev"
)

type c15Pin struct {
	backend  Backend
	start    time.Time // before the pin call
	done     time.Time // after the pin call
	lifetime time.Duration
	expires  int
}

type c15Stats struct {
	mustPinned, mustGone, dontCare, purgeChecks, purgeObligations, terminated, massExpiries int64
	maxTable                                                                                int64
}

// c15History drives one table from one goroutine.
func c15History(seed int64, steps int, stats *c15Stats, fail func(string, map[string]any)) {
	r := rand.New(rand.NewSource(seed))
	timeout := time.Duration(20+r.Intn(61)) * time.Millisecond
	dbb := &DialogBasedBackend{timeout: timeout, backends: make(map[string]*ExpireBackend), nextCleanTime: time.Now().Add(timeout)}
	ndialogs := 1 + r.Intn(200)
	backends := []Backend{&c05Backend2{"b0"}, &c05Backend2{"b1"}, &c05Backend2{"b2"}}
	model := map[string]*c15Pin{}
	var trace []string
	note := func(f string, a ...any) {
		trace = append(trace, fmt.Sprintf(f, a...))
		if len(trace) > 40 {
			trace = trace[1:]
		}
	}
	slack := 2 * time.Millisecond
	if seed%4 == 0 {
		// many dialogs set up close together and then left alone: all of them are expired at one
		// and the same sweep (the steps below find every survivor at their first pin)
		n := 65 + r.Intn(136)
		if n > ndialogs {
			ndialogs = n
		}
		for k := 0; k < n; k++ {
			d := fmt.Sprintf("dlg%d", k)
			b := backends[k%len(backends)]
			t0 := time.Now()
			dbb.AddBackend(d, b, 0)
			model[d] = &c15Pin{backend: b, start: t0, done: time.Now(), lifetime: timeout, expires: 0}
		}
		note("%d dialogs pinned in one go, then idle for two timeout periods", n)
		atomic.AddInt64(&stats.massExpiries, 1)
		time.Sleep(2*timeout + 2*slack + time.Millisecond)
	}
	for s := 0; s < steps; s++ {
		d := fmt.Sprintf("dlg%d", r.Intn(ndialogs))
		switch x := r.Intn(100); {
		case x < 40: // pin
			exp := 0
			switch y := r.Intn(40); {
			case y == 0:
				exp = 1
			case y == 1:
				exp = 2
			case y < 5:
				exp = 2147483647
			}
			b := backends[r.Intn(len(backends))]
			t0 := time.Now()
			dbb.AddBackend(d, b, exp)
			t1 := time.Now()
			life := timeout
			if time.Duration(exp)*time.Second > life {
				life = time.Duration(exp) * time.Second
			}
			model[d] = &c15Pin{backend: b, start: t0, done: t1, lifetime: life, expires: exp}
			note("pin %s exp=%d", d, exp)
			// purge obligation: every entry whose latest possible expiry lies more
			// than one timeout before the start of this add must be gone now
			atomic.AddInt64(&stats.purgeChecks, 1)
			for k, p := range model {
				if k == d {
					continue
				}
				latestExpiry := p.done.Add(p.lifetime)
				if t0.Sub(latestExpiry) > timeout+slack {
					atomic.AddInt64(&stats.purgeObligations, 1)
					if _, still := dbb.backends[k]; still {
						fail("an expired pin survived more than one further timeout period of ongoing traffic",
							map[string]any{"dialog": k, "timeout_ms": timeout.Milliseconds(), "expired_ms_before_this_add": t0.Sub(latestExpiry).Milliseconds(), "table_size": len(dbb.backends), "last_steps": trace, "next_clean_in_s": time.Until(dbb.nextCleanTime).Seconds()})
						return
					}
					delete(model, k)
				}
			}
			if n := int64(len(dbb.backends)); n > atomic.LoadInt64(&stats.maxTable) {
				atomic.StoreInt64(&stats.maxTable, n)
			}
		case x < 75: // lookup
			p := model[d]
			t0 := time.Now()
			b, err := dbb.GetBackend(d)
			t1 := time.Now()
			note("lookup %s -> %v", d, err == nil)
			switch {
			case p == nil:
				if err == nil {
					fail("lookup of a dialog that was never pinned or was terminated returned a backend", map[string]any{"dialog": d, "last_steps": trace})
					return
				}
			case t1.Sub(p.start) < p.lifetime:
				atomic.AddInt64(&stats.mustPinned, 1)
				if err != nil || b != p.backend {
					fail("pin not honoured inside its lifetime", map[string]any{"dialog": d, "lifetime_ms": p.lifetime.Milliseconds(), "age_ms_at_most": t1.Sub(p.start).Milliseconds(), "expires": p.expires, "last_steps": trace})
					return
				}
			case t0.Sub(p.done) > p.lifetime:
				atomic.AddInt64(&stats.mustGone, 1)
				if err == nil {
					fail("pin honoured after its lifetime elapsed", map[string]any{"dialog": d, "lifetime_ms": p.lifetime.Milliseconds(), "age_ms_at_least": t0.Sub(p.done).Milliseconds(), "last_steps": trace})
					return
				}
				delete(model, d)
			default:
				atomic.AddInt64(&stats.dontCare, 1)
				if err != nil {
					delete(model, d)
				}
			}
		case x < 85: // terminate
			dbb.RemoveDialog(d)
			delete(model, d)
			atomic.AddInt64(&stats.terminated, 1)
			note("terminate %s", d)
			if _, err := dbb.GetBackend(d); err == nil {
				fail("pin survives termination", map[string]any{"dialog": d, "last_steps": trace})
				return
			}
		default: // time passes
			var dur time.Duration
			switch r.Intn(4) {
			case 0:
				dur = time.Duration(r.Int63n(int64(timeout) * 6 / 10))
			case 1:
				dur = timeout + time.Duration(r.Int63n(int64(timeout)/2)) + 3*time.Millisecond
			case 2:
				dur = 2*timeout + 5*time.Millisecond
			default:
				dur = time.Duration(r.Intn(3)) * time.Millisecond
			}
			note("sleep %dms", dur.Milliseconds())
			time.Sleep(dur)
		}
	}
}

type c05Backend2 struct{ addr string }

func (b *c05Backend2) Send(*Message) error { return nil }
func (b *c05Backend2) GetAddress() string  { return b.addr }
func (b *c05Backend2) Close()              {}

func TestVerifC15(t *testing.T) {
	run := ev.New("C15", "exploration",
		"random histories of pin / lookup / terminate / time-passes over 1-200 dialogs on the real pin table with 20-80 ms timeouts and Expires in {absent,1,2,2^31-1}; "+
			"bracketed-time oracle (must-be-pinned / must-be-gone / counted don't-care) and purge obligation 'expired more than one timeout before an add => gone after that add'; distinct = distinct histories")
	nh := ev.Pick(96, 3000)
	steps := ev.Pick(250, 400)
	var stats c15Stats
	var failed int32
	sem := make(chan struct{}, vfNumWorkers())
	var wg sync.WaitGroup
	for h := 0; h < nh; h++ {
		if atomic.LoadInt32(&failed) > 3 {
			break
		}
		wg.Add(1)
		sem <- struct{}{}
		go func(h int) {
			defer wg.Done()
			defer func() { <-sem }()
			seed := run.Seed*100000 + int64(h)
			c15History(seed, steps, &stats, func(why string, detail map[string]any) {
				detail["history_seed"] = seed
				atomic.AddInt32(&failed, 1)
				run.Violation(why, detail)
			})
			run.Eval(fmt.Sprintf("h%d", seed))
		}(h)
	}
	wg.Wait()
	run.Observe("lookups_that_had_to_be_pinned", stats.mustPinned)
	run.Observe("lookups_that_had_to_be_gone", stats.mustGone)
	run.Observe("lookups_dont_care_window", stats.dontCare)
	run.Observe("adds_checked_for_purge", stats.purgeChecks)
	run.Observe("purge_obligations_checked", stats.purgeObligations)
	run.Observe("histories_with_65_to_200_dialogs_expiring_together", stats.massExpiries)
	run.Observe("terminations", stats.terminated)
	run.Observe("max_table_size_seen", stats.maxTable)
	run.Sample(map[string]any{"history": "seed " + fmt.Sprint(run.Seed*100000) + ": " + fmt.Sprint(steps) + " random steps of pin(exp)/lookup/terminate/sleep over <=200 dialogs, timeout 20-80 ms"})
	if stats.mustPinned == 0 || stats.mustGone == 0 || stats.purgeObligations == 0 {
		run.Violation("observed-nothing", map[string]any{"must_pinned": stats.mustPinned, "must_gone": stats.mustGone, "purge_obligations": stats.purgeObligations})
	}
	run.Assume("the table is driven and read by one goroutine per history, as the proxy's loop does")
	run.Assume("verdicts only where the monotonic brackets prove the lookup to be inside / outside the lifetime; 2 ms slack on the purge bound")
	vfFinish(t, run, 50)
}
