# Per-property recipes, sourced by check.sh. Each runs one or more engines via run_part.

check_C14() {
  build_inpkg c14_roundtrip_verif_test.go
  inpkg_test inpkg TestVerifC14
}
