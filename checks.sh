# Per-property recipes, sourced by check.sh. Each runs one or more engines via run_part.

check_C14() {
  build_inpkg c14_roundtrip_verif_test.go
  inpkg_test inpkg TestVerifC14
}

check_C16() {
  build_inpkg c16_dialogid_verif_test.go
  inpkg_test inpkg TestVerifC16
}

check_C18() {
  build_inpkg fixture_verif_test.go c18_static_route_verif_test.go
  inpkg_test inpkg TestVerifC18
}

check_C05() {
  build_inpkg fixture_verif_test.go c19_resolution_verif_test.go c05_rotation_verif_test.go c05_sockets_verif_test.go
  inpkg_test inpkg TestVerifC05
  inpkg_test sockets TestVerifC05Sockets
  build_proxy
  wire_part wire dialog
}

check_C04() {
  build_proxy
  wire_part wire dialog
}

check_C20() {
  build_inpkg c20_sendfaults_verif_test.go
  inpkg_test inpkg TestVerifC20
  build_proxy
  wire_part wire reset
}

check_C11() {
  build_inpkg c11_tcpframing_verif_test.go
  inpkg_test inpkg TestVerifC11
  build_proxy
  wire_part wire segments
}

check_C10() {
  build_inpkg c10_udpisolation_verif_test.go
  inpkg_test inpkg TestVerifC10
  build_proxy
  wire_part wire datagram
}

check_C15() {
  build_inpkg c15_pinlifetime_verif_test.go
  inpkg_test inpkg TestVerifC15
  build_proxy
  wire_part wire pintime
  wire_part fault pinfault
}

check_C19() {
  build_inpkg fixture_verif_test.go c19_resolution_verif_test.go
  inpkg_test inpkg TestVerifC19
  build_proxy
  wire_part wire resolve
}

# wire_part <name> <scenario> [vfwire flags...] : the real -race binary driven over loopback
wire_part() {
  local name=$1 scen=$2; shift 2
  mkdir -p "$S/w-$name"
  run_part "$name" "$ROOT/tools/ns.sh" "$ROOT/bin/vfwire" -bin "$S/sipproxy" -dir "$S/w-$name" -prop "$PROP" "$@" "$scen"
}

check_C03() {
  build_proxy
  wire_part wire route
  wire_part conc concurrent
}

check_C13() {
  build_proxy
  wire_part wire route
}

check_C02() {
  build_proxy
  wire_part wire relay
  wire_part roundtrip stamp
}

check_C07() {
  build_proxy
  wire_part wire stamp
  wire_part multi multistamp
}

check_C06() {
  build_proxy
  wire_part wire relay
  wire_part multi multilisten
  wire_part fault pinfault
}

check_C01() {
  build_proxy
  wire_part wire relay
  wire_part conc concurrent
}

check_C12() {
  build_proxy
  wire_part wire affinity
}

check_C08() {
  build_inpkg fixture_verif_test.go c08_hostile_verif_test.go
  inpkg_test inpkg TestVerifC08
  build_proxy
  wire_part wire hostile
}

check_C09() {
  build_inpkg fixture_verif_test.go c09_stress_verif_test.go
  inpkg_test inpkg TestVerifC09
  build_proxy
  wire_part wire stress
}

check_C17() {
  build_proxy
  wire_part wire twin
}
