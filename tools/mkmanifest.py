#!/usr/bin/env python3
"""Generates /verif/MANIFEST.json from the table below (kept here so that the
manifest stays valid and current while checks are added)."""
import json, os, sys
ROOT = os.path.dirname(os.path.dirname(os.path.abspath(__file__)))
ALL = ["C%02d" % i for i in range(1, 21)]

# id -> (engine, category, technique, level text, level note, design ref)
CHECKS = {
 "C16": ("inpkg", "exploration",
   "online monitor (bijection between computed dialog identifier and canonical key) over exhaustively enumerated small alphabets plus random identifiers",
   "Feeds real parsed messages to the repository's dialog-identifier function and monitors that identifier <-> (Call-ID, unordered {(tag,URI)}) is a bijection across orientation, request/response, decorations and header spellings; exhaustive only within the listed alphabets.",
   "Trusts the harness's canonical key (SIP URIs compared textually without parameters/headers; other URIs whole).",
   "5 C16"),
 "C18": ("inpkg", "exploration",
   "reference-model monitor (independent glob/precedence lookup) plus stability monitor over enumerated route tables, 50 repeated lookups each",
   "Every lookup of the real route table is compared with an independent reference (exact > any matching wildcard > default > none) and all repeats on one table must agree; exhaustive within the stated table/host universe, random beyond.",
   "Where several wildcard entries match, any of them is accepted (the property fixes no order among them) but the answer must be stable.",
   "5 C18"),
 "C14": ("inpkg", "exploration",
   "reference-model monitor over generated executions (generator's abstract value vs. real decoders/encoders, race-enabled test binary)",
   "Runs the repository's real decoders and encoders on grammar-generated values and compares every accessor and the re-encoded text with the generator's abstract value; held on the generated cases only.",
   "Trusts the harness's own generator/grammar (vf/sip/gen.go) and reader; known findings (IPv6 references, ';'/'?' in user part, ',' inside <> of list headers) are attributed counterfactually.",
   "5 C14"),
}

def main():
    checks = []
    for pid in ALL:
        if pid not in CHECKS:
            continue
        eng, cat, tech, text, note, ref = CHECKS[pid]
        checks.append({
            "property_id": pid,
            "quick_cmd": "./check.sh %s quick" % pid,
            "thorough_cmd": "./check.sh %s thorough" % pid,
            "evidence_file": "/verif/evidence/%s.json" % pid,
            "replay_cmd_template": "./check.sh --replay {path}",
            "engine": eng,
            "level_claimed": {"category": cat, "text": text, "design_ref": "DESIGN.md section " + ref},
            "level_note": note,
            "technique": tech,
        })
    na = [{"property_id": p, "reason": "check not built yet in this session (runtime monitoring applies; see DESIGN.md section 5)"} for p in ALL if p not in CHECKS]
    m = {
        "version": 1,
        "setup_cmd": "./setup.sh",
        "hooks": {
            "guard": "verif",
            "enable": "go build tag 'verif' on the in-package monitor files, which live in /verif/harness/inpkg and reach the compiler through 'go test -c -race -tags verif -overlay ... -modfile ...' run in /repo; no hook is committed to the repository",
            "baseline_off_cmd": "cd /repo && go test -vet=off -count=1 -timeout 25m ./...",
            "source_commits": [],
            "add_only": True,
        },
        "engines": [
            {"name": "inpkg", "path": "harness/inpkg", "serves_properties": [p for p in ALL if p in CHECKS and CHECKS[p][0] in ("inpkg", "inpkg+wire")],
             "kind_free_text": "race-enabled in-package test binary (package main) with monitors and reference models from harness/vf"},
            {"name": "wire", "path": "harness/vf/wire", "serves_properties": [p for p in ALL if p in CHECKS and CHECKS[p][0] in ("wire", "inpkg+wire")],
             "kind_free_text": "the real -race proxy binary in a private network namespace, driven over loopback UDP/TCP by a Go driver; offline checkers over the recorded event log"},
        ],
        "checks": checks,
        "not_applicable": na,
        "notes": "Technique family: runtime monitoring and sanitizers. See DESIGN.md. Known findings: known_findings.json.",
    }
    json.dump(m, open(os.path.join(ROOT, "MANIFEST.json"), "w"), indent=1)
    print("MANIFEST.json: %d checks, %d not_applicable" % (len(checks), len(na)))

main()
