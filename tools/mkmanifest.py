#!/usr/bin/env python3
"""Generates /verif/MANIFEST.json from the table below (kept here so that the
manifest stays valid and current while checks are added)."""
import json, os, sys
ROOT = os.path.dirname(os.path.dirname(os.path.abspath(__file__)))
ALL = ["C%02d" % i for i in range(1, 21)]

# id -> (engine, category, technique, level text, level note, design ref)
CHECKS = {
 "C16": ("inpkg", "exploration",
   "online monitor (bijection between computed dialog identifier and canonical key) over exhaustively enumerated small alphabets plus random identifiers",
   "Feeds real parsed messages to the repository's dialog-identifier function and monitors that identifier <-> (Call-ID, unordered {(tag,URI)}) is a bijection across orientation, request/response, decorations and header spellings; exhaustive only within the listed alphabets.",
   "Trusts the harness's canonical key (SIP URIs compared textually without parameters/headers; other URIs whole).",
   "5 C16"),
 "C18": ("inpkg", "exploration",
   "reference-model monitor (independent glob/precedence lookup) plus stability monitor over enumerated route tables, 50 repeated lookups each",
   "Every lookup of the real route table is compared with an independent reference (exact > any matching wildcard > default > none) and all repeats on one table must agree; exhaustive within the stated table/host universe, random beyond.",
   "Where several wildcard entries match, any of them is accepted (the property fixes no order among them) but the answer must be stable.",
   "5 C18"),
 "C01": ("wire", "exploration",
   "offline transparency checker over recorded wire executions of the real -race binary (input vs. relayed bytes read by an independent SIP reader), sentinel barriers, identity-attributed observations",
   "Generated requests/responses with hostile header content and bodies are sent through the real binary on all four relaying paths x UDP/TCP ingress x UDP/TCP egress x 16 listener configurations; every relayed message must equal its input outside Via/Route/Record-Route/Content-Length and carry exactly one correct Content-Length.",
   "A message that is not relayed is no observation for C01; a path on which fewer than the stated number of relays was seen fails the run as 'observed nothing'.",
   "5 C01"),
 "C02": ("wire", "exploration",
   "Via-pop reference model checked against recorded wire executions (responses with generated Via chains; drops decided behind a sentinel barrier), plus request/response round trips through backends",
   "Single responses with 1-6 Via entries in every layout, supported/unsupported transports, received/rport variants must go exactly where the model says (or nowhere) with the remaining Via entries byte-identical; round trips must return to the socket/connection the request came from with the Via stack the hop sent.",
   "Destinations where the driver has no socket are unobservable and treated as 'nothing may be seen anywhere'.",
   "5 C02"),
 "C03": ("wire", "exploration",
   "routing reference model (Route > static route > service backend > drop) checked against recorded wire executions over the full decision table; absence decided behind sentinel barriers plus end-of-run identity sweep",
   "Every cell of {Route shape} x {To host} x {Request-URI kind} x {keep-next-hop} x {next-hop transport} x {UDP,TCP ingress} is instantiated with generated URIs on 16 services of the real binary; each request must be seen exactly once at the model's socket and nowhere else.",
   "Sockets observe only where the driver listens (every hop, backend, UA and sentinel address of the run's address plan).",
   "5 C03"),
 "C06": ("wire", "exploration",
   "learned-route reference model (what each service has learned through which listener transport) + expected Via / Record-Route lists checked against recorded wire executions; run-wide branch-uniqueness monitor",
   "Requests with 0-6 Via and 0-4 Record-Route entries in every layout and header position on the three request paths; the relayed Via list must be [new]+incoming (backend path, learned hop) or incoming (not learned), the new entry must name a transport of the receiving listener with a fresh z9hG4bK branch, Record-Route must follow policy.",
   "Where learning happened only through the message being routed, or only under the other spelling (name vs. IP) of the hop, either outcome is accepted.",
   "5 C06"),
 "C07": ("wire", "exploration",
   "driver-side ground truth (true IP/port of every sending socket) checked against what backends receive and where responses arrive, with decoy sockets at every address a misrouted response could reach",
   "Round trips from sources whose top Via lies about host and port, rport absent/valueless/spoofed x received absent/spoofed x no-received omitted/false/true x UDP / TCP / connections opened by the proxy itself (TCP next hop, TCP backend).",
   "TCP responses are judged by the connection they arrive on.",
   "5 C07"),
 "C13": ("wire", "exploration",
   "expected-Route-remainder model checked against recorded wire executions of the C03 decision table (own entry by address / alias / alias without port / near misses; keep-next-hop on/off)",
   "The relayed Route list must equal the model's remainder byte for byte and the destination must follow from consuming exactly the own entry; only cases that carry a Route header are judged (a precedence bug elsewhere does not alarm C13).",
   "Entries contain no ',' inside <> (recorded known finding of C14).",
   "5 C13"),
 "C04": ("wire", "exploration",
   "dialog reference model (pins keyed by Call-ID and the unordered tag/URI pairs) checked against recorded wire histories of the real -race binary; rotation tracked so that a probe can never hit the pinned backend by coincidence",
   "Interleaved histories of 1-50 dialogs over services with 2-6 UDP/TCP backends: initial INVITE or backend-issued SUBSCRIBE, answers from the chosen backend's own address, then in-dialog requests of every method in both orientations with unrelated traffic in between; each probe must be seen exactly once and at the pinned backend.",
   "dialogTimeout stays at its 1200 s default so that lifetime never interferes (C15 decides lifetime).",
   "5 C04"),
 "C05": ("inpkg+wire", "exploration",
   "epoch/window rotation monitor over exhaustively enumerated add/remove/dispatch sequences; porcupine linearizability check of recorded concurrent histories against a membership model; race detector",
   "Drives the real round-robin structure with recording backend doubles: every sequence up to length 5 (quick) / 7 (thorough) over 4 addresses plus random long ones under a strict-rotation monitor, and concurrent histories (dispatches parked inside Send while members are removed) checked by porcupine.",
   "Wire part: every unpinned request of the dialog histories must land exactly once on the backend that follows the previous unpinned one in configuration order. Strict evenness is demanded inside an epoch only; a dispatch overlapping a membership change must reach a backend that was a member at some point of its interval (the property demands no more).",
   "5 C05"),
 "C10": ("inpkg", "exploration",
   "differential monitor (clean vs. recycled receive buffer) through the real UDP parse loop with an 'image of this datagram alone' oracle; porcupine ownership check of the real buffer pool; race detector",
   "Pushes generated datagrams (exact / over- / under-declared Content-Length, cut at random and at every offset) through the real parse goroutine twice - in a zeroed buffer and in a buffer holding a longer earlier datagram - and requires identical results equal to the image of the datagram alone; concurrent Alloc/Free histories of the pool are checked for single ownership.",
   "The in-package part hands (buffer, length) to the parse loop exactly as the receive goroutine does; the socket read itself is covered by the wire engine when present.",
   "5 C10"),
 "C11": ("inpkg", "exploration",
   "reference-model monitor: generator's abstract message sequence vs. what the real per-connection receive loop delivers, over scripted segmentations (exhaustive single/double cuts of short streams, random multi-cuts)",
   "Feeds the real TCP receive loop through a scripted connection that returns exactly the chosen segments and compares count, order, start lines, header names/values and bodies with the abstract sequence.",
   "Streams stay inside the quantifier (Content-Length present, no folded lines).",
   "5 C11"),
 "C15": ("inpkg+wire", "exploration",
   "online monitor with bracketed monotonic timestamps over random pin/lookup/terminate/sleep histories on the real pin table (20-80 ms timeouts), plus purge-obligation monitor on table contents",
   "Verdicts only where the measured brackets prove a lookup to lie inside (must be pinned) or outside (must be gone) the lifetime; purge bound derived from the property: an entry expired more than one timeout before an add must be gone after that add.",
   "Wire part: timed histories on the real binary (dialogTimeout 2 s, Expires absent/smaller/larger, BYE answered with any final class, NOTIFY active/terminated/terminated;reason) decided by three back-to-back probes (one socket = pinned, three distinct = forgotten). 2 ms slack on the in-package purge bound.",
   "5 C15"),
 "C19": ("inpkg", "fault_enumeration",
   "resolution outcomes injected at the resolver's notification entry point, enumerated exhaustively (length <= 3 quick / 5 thorough) and randomly; membership model monitor on locked accessors, dispatch probes on real loopback sockets behind the real proxy loop, behavioural attribution probes",
   "Every outcome sequence is applied with quiescence between steps; rotation membership, the resolver's own list, the targets of k dispatches and the attribution of responses (pin / no pin) must match the model (<= 3 failures keep the set, the 4th empties it).",
   "The periodic DNS poll is replaced by direct calls of the function it calls; a successful resolution with no address is expressible only this way.",
   "5 C19"),
 "C20": ("inpkg", "fault_enumeration",
   "exhaustive enumeration of connection-fault patterns with scripted net.Conn doubles and real loopback listeners; byte-exact sink monitor (exactly-once, whole message, no touch of dead path, no extra connection)",
   "All {cached connection: absent/healthy/failing on write k, clean or partial} x {reconnectable path: absent/fresh/stale-once/refusing/accept-then-reset} x 1-3 messages x sizes for the fail-over client transport and the TCP backend; each verdict is confirmed by one re-execution.",
   "accept-then-reset is a stated don't-care for success/failure (only duplication, hangs and panics are judged).",
   "5 C20"),
 "C14": ("inpkg", "exploration",
   "reference-model monitor over generated executions (generator's abstract value vs. real decoders/encoders, race-enabled test binary)",
   "Runs the repository's real decoders and encoders on grammar-generated values and compares every accessor and the re-encoded text with the generator's abstract value; held on the generated cases only.",
   "Trusts the harness's own generator/grammar (vf/sip/gen.go) and reader; known findings (IPv6 references, ';'/'?' in user part, ',' inside <> of list headers) are attributed counterfactually.",
   "5 C14"),
}

def main():
    checks = []
    for pid in ALL:
        if pid not in CHECKS:
            continue
        eng, cat, tech, text, note, ref = CHECKS[pid]
        checks.append({
            "property_id": pid,
            "quick_cmd": "./check.sh %s quick" % pid,
            "thorough_cmd": "./check.sh %s thorough" % pid,
            "evidence_file": "/verif/evidence/%s.json" % pid,
            "replay_cmd_template": "./check.sh --replay {path}",
            "engine": eng,
            "level_claimed": {"category": cat, "text": text, "design_ref": "DESIGN.md section " + ref},
            "level_note": note,
            "technique": tech,
        })
    na = [{"property_id": p, "reason": "check not built yet in this session (runtime monitoring applies; see DESIGN.md section 5)"} for p in ALL if p not in CHECKS]
    m = {
        "version": 1,
        "setup_cmd": "./setup.sh",
        "hooks": {
            "guard": "verif",
            "enable": "go build tag 'verif' on the in-package monitor files, which live in /verif/harness/inpkg and reach the compiler through 'go test -c -race -tags verif -overlay ... -modfile ...' run in /repo; no hook is committed to the repository",
            "baseline_off_cmd": "cd /repo && go test -vet=off -count=1 -timeout 25m ./...",
            "source_commits": [],
            "add_only": True,
        },
        "engines": [
            {"name": "inpkg", "path": "harness/inpkg", "serves_properties": [p for p in ALL if p in CHECKS and CHECKS[p][0] in ("inpkg", "inpkg+wire")],
             "kind_free_text": "race-enabled in-package test binary (package main) with monitors and reference models from harness/vf"},
            {"name": "wire", "path": "harness/vf/wire", "serves_properties": [p for p in ALL if p in CHECKS and CHECKS[p][0] in ("wire", "inpkg+wire")],
             "kind_free_text": "the real -race proxy binary in a private network namespace, driven over loopback UDP/TCP by a Go driver; offline checkers over the recorded event log"},
        ],
        "checks": checks,
        "not_applicable": na,
        "notes": "Technique family: runtime monitoring and sanitizers. See DESIGN.md. Known findings: known_findings.json.",
    }
    json.dump(m, open(os.path.join(ROOT, "MANIFEST.json"), "w"), indent=1)
    print("MANIFEST.json: %d checks, %d not_applicable" % (len(checks), len(na)))

main()
