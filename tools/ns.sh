#!/bin/sh
# tools/ns.sh <cmd...> : runs cmd inside a private network + mount namespace with
# only lo up (every 127/8 address usable, nothing can leave the box, ports never
# collide with another check). Falls back to the shared namespace (VF_IN_NS=0)
# when namespaces are not available.
if [ -z "${VF_NO_NS:-}" ] && unshare -n -m true 2>/dev/null; then
  VF_IN_NS=1 exec unshare -n -m sh -c 'ip link set lo up; exec "$@"' sh "$@"
fi
# shared namespace: every engine gets an address plan of its own (127.<20+slot>.x.y), derived
# from its process id, so that the engines of one check and checks running side by side do not
# bind the same addresses
VF_IN_NS=0 VF_SLOT=${VF_SLOT:-$(( $$ % 200 ))} exec "$@"
