#!/bin/bash
# tools/seedcheck.sh <seed-dir> <name> <Cxx[:tier]>... : confirms a seeded change
# (demo passes on the clean tree, fails with the patch; repo suite still passes
# with the patch) on scratch copies, runs the given checks against the patched
# copy, and on confirmation stores it as /verif/seeded/<name>/ with the results.
set -u
export GOFLAGS=-mod=mod GOPROXY=off GOSUMDB=off GOTOOLCHAIN=local
ROOT=$(cd "$(dirname "$0")/.." && pwd)
SRC=$(realpath "$1"); NAME=$2; shift 2
W=$(mktemp -d /var/tmp/seed-XXXXXX)
trap 'rm -rf "$W"' EXIT
mkdir "$W/clean" "$W/mut" "$W/ev"
( cd /repo && git ls-files -z | xargs -0 cp --parents -t "$W/clean" )
cp -r "$W/clean/." "$W/mut/"
( cd "$W/mut" && patch -p1 -s < "$SRC/patch.diff" ) || { echo "$NAME: PATCH-DOES-NOT-APPLY"; exit 3; }
( cd "$W/mut" && go build -o /dev/null . ) >/dev/null 2>&1 || { echo "$NAME: DOES-NOT-BUILD"; exit 3; }
demo_ok=unknown; demo_fail=unknown
if [ -f "$SRC/demo_test.go" ]; then
  tests=$(grep -ho '^func Test[A-Za-z0-9_]*' "$SRC"/demo*_test.go | sed 's/func //' | paste -sd'|')
  cp "$SRC"/demo*_test.go "$W/clean/"; cp "$SRC"/demo*_test.go "$W/mut/"
  ( cd "$W/clean" && timeout 600 go test -vet=off -count=1 -run "^($tests)\$" . ) > "$W/demo-clean.log" 2>&1 && demo_ok=pass || demo_ok=FAIL
  ( cd "$W/mut" && timeout 600 go test -vet=off -count=1 -run "^($tests)\$" . ) > "$W/demo-mut.log" 2>&1 && demo_fail=PASS || demo_fail=fail
  rm -f "$W/mut"/demo*_test.go
elif [ -f "$SRC/run.sh" ]; then
  ( cd "$W/clean" && timeout 600 bash "$SRC/run.sh" "$W/clean" ) > "$W/demo-clean.log" 2>&1 && demo_ok=pass || demo_ok=FAIL
  ( cd "$W/mut" && timeout 600 bash "$SRC/run.sh" "$W/mut" ) > "$W/demo-mut.log" 2>&1 && demo_fail=PASS || demo_fail=fail
fi
suite=skipped
if [ -z "${SEED_NO_SUITE:-}" ]; then
  ( cd "$W/mut" && timeout 1500 go test -vet=off -count=1 ./... ) > "$W/suite.log" 2>&1 && suite=pass || suite=FAIL
fi
results=""
for c in "$@"; do
  id=${c%%:*}; tier=quick; [ "$c" = "$id" ] || tier=${c#*:}
  out=$(VERIF_REPO="$W/mut" VF_EVIDENCE_DIR="$W/ev" timeout 3000 "$ROOT/check.sh" "$id" "$tier" 2>&1)
  if echo "$out" | grep -q '^VIOLATION'; then
    key=$(echo "$out" | grep '^VIOLATION' | head -1 | sed 's/.*key=//' | cut -c1-150)
    results="$results $id/$tier=CAUGHT[$key];"
  elif echo "$out" | grep -q 'HARNESS'; then
    results="$results $id/$tier=HARNESS-ERROR;"
  else
    results="$results $id/$tier=missed;"
  fi
done
echo "$NAME: demo(clean=$demo_ok, patched=$demo_fail) suite=$suite ::$results"
if [ "$demo_ok" = pass ] && [ "$demo_fail" = fail ] && [ "$suite" != FAIL ]; then
  mkdir -p "$ROOT/seeded/$NAME"
  cp "$SRC/patch.diff" "$ROOT/seeded/$NAME/"
  cp "$SRC"/demo*_test.go "$SRC"/run.sh "$ROOT/seeded/$NAME/" 2>/dev/null
  python3 - "$SRC/meta.json" "$ROOT/seeded/$NAME/meta.json" "$demo_ok" "$demo_fail" "$suite" "$results" <<'PY'
import json,sys
src,dst,ok,fail,suite,results=sys.argv[1:7]
try: m=json.load(open(src))
except Exception: m={}
m["confirmed_by_framework_author"]={"demo_on_clean_tree":ok,"demo_with_patch":fail,"repo_suite_with_patch":suite,
  "how":"tools/seedcheck.sh: scratch copies of /repo under /var/tmp, go test -run <demo tests>, go test ./..., then ./check.sh with VERIF_REPO=<patched copy>",
  "checks_run":results.strip()}
json.dump(m,open(dst,"w"),indent=1)
PY
fi
