#!/bin/bash
# tools/runall.sh [tier] [jobs] [ids...] : runs the registered checks (default: all in MANIFEST.json)
# in parallel, each under a timeout, and prints one line per check.
ROOT=$(cd "$(dirname "$0")/.." && pwd)
TIER=${1:-quick}; JOBS=${2:-6}; shift 2 2>/dev/null
IDS="$*"
[ -n "$IDS" ] || IDS=$(jq -r '.checks[].property_id' "$ROOT/MANIFEST.json")
OUT=$(mktemp -d /var/tmp/runall-XXXXXX)
LIMIT=${RUNALL_TIMEOUT:-3600}
run_one() {
  local id=$1 t0=$(date +%s)
  timeout -k 10 "$LIMIT" "$ROOT/check.sh" "$id" "$TIER" > "$OUT/$id.log" 2>&1
  local rc=$?
  printf "%s rc=%d %ss :: %s\n" "$id" "$rc" "$(( $(date +%s) - t0 ))" "$(grep -E '^(SUMMARY|VIOLATION|KNOWN-FINDING|HARNESS|NOTE)' "$OUT/$id.log" | cut -c1-160 | tr '\n' '|' | cut -c1-600)"
}
export -f run_one; export ROOT TIER OUT LIMIT
echo $IDS | tr ' ' '\n' | xargs -P "$JOBS" -I{} bash -c 'run_one {}'
echo "logs in $OUT"
