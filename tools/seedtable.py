#!/usr/bin/env python3
"""tools/seedtable.py <first> <last> : markdown table rows for seeded/Cxx-<n>, n in [first,last],
from meta.json and seeded/RESULTS.md (which check fires on which change)."""
import json, os, re, sys
ROOT = os.path.dirname(os.path.dirname(os.path.abspath(__file__)))
lo, hi = int(sys.argv[1]), int(sys.argv[2])
res = {}
for line in open(os.path.join(ROOT, "seeded", "RESULTS.md")):
    m = re.match(r"(C\d\d-\d+) \| (.*)", line)
    if m:
        res[m.group(1)] = m.group(2)
def cut(s, n):
    s = " ".join(str(s).split()).replace("|", "/")
    return s if len(s) <= n else s[:n - 3] + "..."
print("| id | change (first sentence of the author's summary) | needs to manifest | checks (quick) |")
print("|---|---|---|---|")
for d in sorted(os.listdir(os.path.join(ROOT, "seeded"))):
    m = re.match(r"(C\d\d)-(\d+)$", d)
    if not m or not (lo <= int(m.group(2)) <= hi):
        continue
    meta = json.load(open(os.path.join(ROOT, "seeded", d, "meta.json")))
    checks = []
    for part in res.get(d, "").split(" | "):
        mm = re.match(r"(C\d\d) quick: (CAUGHT|missed)", part.strip())
        if mm:
            checks.append("%s %s" % (mm.group(1), "✓" if mm.group(2) == "CAUGHT" else "-"))
    print("| %s | %s | %s | %s |" % (d, cut(meta.get("summary", ""), 200), cut(meta.get("needs_to_manifest", ""), 160), ", ".join(checks)))
