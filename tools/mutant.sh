#!/bin/bash
# tools/mutant.sh <patch.diff | -e 'python-expr on (path,old,new)'> <Cxx>[:tier] ...
# Applies a change to a scratch copy of the repository (never to /repo), checks
# that it still builds, runs the given checks against the copy and reports
# which of them fire. The copy is removed afterwards.
#   tools/mutant.sh seeded/foo/patch.diff C05 C09:thorough
#   tools/mutant.sh -s 'backend.go' 'old text' 'new text' C05
set -u
export GOFLAGS=-mod=mod GOPROXY=off GOSUMDB=off GOTOOLCHAIN=local
ROOT=$(cd "$(dirname "$0")/.." && pwd)
W=$(mktemp -d /var/tmp/mut-XXXXXX)
trap 'rm -rf "$W"' EXIT
mkdir "$W/repo" "$W/ev"
( cd /repo && git ls-files -z | xargs -0 cp --parents -t "$W/repo" )
if [ "$1" = "-s" ]; then
  python3 - "$W/repo/$2" "$3" "$4" <<'PY' || exit 3
import sys
p,old,new=sys.argv[1:4]
s=open(p).read()
if s.count(old)<1: sys.exit("pattern not found in "+p)
open(p,'w').write(s.replace(old,new,1))
PY
  shift 4
else
  ( cd "$W/repo" && patch -p1 -s < "$(cd "$ROOT"; realpath "$1")" ) || { echo "patch does not apply"; exit 3; }
  shift
fi
( cd "$W/repo" && go build -o /dev/null . ) || { echo "MUTANT-DOES-NOT-BUILD"; exit 3; }
if [ -n "${MUT_SUITE:-}" ]; then
  ( cd "$W/repo" && go test -vet=off -count=1 -run "${MUT_SUITE_RUN:-.}" ./... >"$W/suite.log" 2>&1 ) && echo "suite: pass" || { echo "suite: FAIL"; tail -5 "$W/suite.log"; }
fi
for c in "$@"; do
  id=${c%%:*}; tier=quick; [ "$c" = "$id" ] || tier=${c#*:}
  out=$(VERIF_REPO="$W/repo" VF_EVIDENCE_DIR="$W/ev" "$ROOT/check.sh" "$id" "$tier" 2>&1); rc=$?
  if echo "$out" | grep -q '^VIOLATION'; then
    echo "$id $tier: CAUGHT rc=$rc :: $(echo "$out" | grep '^VIOLATION' | head -1 | cut -c1-260)"
  else
    echo "$id $tier: missed rc=$rc :: $(echo "$out" | grep -E 'SUMMARY|HARNESS' | head -2 | tr '\n' ' ' | cut -c1-200)"
  fi
done
