#!/bin/bash
# tools/sweep.sh <tier> <jobs> <seed>... : every registered check at every given seed on the
# current tree, evidence into a scratch directory (the committed evidence is not touched).
# Prints one line per (check, seed) that is not clean and a count at the end.
ROOT=$(cd "$(dirname "$0")/.." && pwd)
TIER=$1; JOBS=$2; shift 2
OUT=$(mktemp -d /var/tmp/sweep-XXXXXX)
one() {
  id=$1; seed=$2
  VERIF_SEED=$seed VF_EVIDENCE_DIR="$OUT/ev-$seed" timeout -k 10 ${SWEEP_TIMEOUT:-7200} "$ROOT/check.sh" "$id" "$TIER" > "$OUT/$id-$seed.log" 2>&1
  rc=$?
  bad=$(grep -E '^(VIOLATION|HARNESS)' "$OUT/$id-$seed.log" | head -3 | cut -c1-300)
  inc=$(grep -E '^SUMMARY' "$OUT/$id-$seed.log" | grep -v 'inconclusive=0 ' | cut -c1-160 | tr '\n' '|')
  if [ $rc -ne 0 ] || [ -n "$bad" ]; then echo "NOT-CLEAN $id seed=$seed rc=$rc :: $bad"; elif [ -n "$inc" ]; then echo "inconclusive $id seed=$seed :: $inc"; fi
  echo "$id $seed $rc" >> "$OUT/done.txt"
}
export -f one; export ROOT TIER OUT
for s in "$@"; do for id in $(jq -r '.checks[].property_id' "$ROOT/MANIFEST.json"); do echo "$id $s"; done; done | xargs -P "$JOBS" -L1 bash -c 'one $0 $1'
echo "sweep done: $(wc -l < "$OUT/done.txt") runs, $(grep -vc ' 0$' "$OUT/done.txt") with rc != 0; logs in $OUT"
