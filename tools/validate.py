#!/usr/bin/env python3-vt
"""Validates MANIFEST.json and every evidence file against the schemas (uses the tooling venv when jsonschema is missing)."""
import json, sys, glob, os
try:
    import jsonschema
except ImportError:
    sys.exit("run with python3-vt (the tooling venv has jsonschema)")
root = os.path.dirname(os.path.dirname(os.path.abspath(__file__)))
ms = json.load(open('/root/.vp/MANIFEST.schema.json')); es = json.load(open('/root/.vp/EVIDENCE.schema.json'))
m = json.load(open(root + '/MANIFEST.json'))
jsonschema.validate(m, ms)
bad = 0
for c in m['checks']:
    f = c['evidence_file']
    try:
        e = json.load(open(f)); jsonschema.validate(e, es)
        assert e['level'] == c['level_claimed']['category'], "level differs from manifest"
        print("ok  ", c['property_id'], e['tier'], e['coverage']['evaluations'], e['coverage']['distinct_nontrivial'], "viol=%s" % e.get('violations'))
    except Exception as ex:
        bad += 1; print("BAD ", c['property_id'], str(ex).splitlines()[0])
sys.exit(1 if bad else 0)
